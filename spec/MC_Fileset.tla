---- MODULE MC_Fileset ----
(* Bounded instance of Fileset.tla and, for replay on the real fileset, a history of the operations of each
   behaviour (tlc -simulate prints one HIST line per behaviour). *)
EXTENDS Fileset, Sequences
VARIABLE hist
SimInit == Init /\ hist = <<<<"init", H[1].itv, setnames>>>>
Log(x) == hist' = Append(hist, x)
SimNext == \/ Tick /\ Log(<<"tick">>)
           \/ \E a \in Names \cup Others : LET ns == IF a \in setnames THEN setnames \ {a} ELSE setnames \cup {a} IN
                 /\ setnames' = ns /\ dirty' = TRUE
                 /\ UNCHANGED <<el, ever, loaded, need, nIters, H, I, owed, bad>> /\ Log(<<"rewrite", ns>>)
           \/ \E h \in 1..MaxH, o \in 1..MaxH, itv \in Intervals : /\ H[o].alive /\ ~H[h].alive
                 /\ H' = [H EXCEPT ![h] = [alive |-> TRUE, itv |-> itv, sync |-> ~ever, names |-> {}, dead |-> {}]]
                 /\ UNCHANGED <<el, ever, setnames, dirty, loaded, need, nIters, I, owed, bad>> /\ Log(<<"dup", h, o, itv>>)
           \/ \E h \in 1..MaxH : \/ DestroyH(h) /\ Log(<<"destroy", h>>)
                                 \/ ReloadOp(h) /\ Log(<<"reload", h>>)
                                 \/ ReloadNow(h) /\ Log(<<"reload_now", h>>)
           \/ \E h \in 1..MaxH, i \in 1..MaxIt : /\ ~I[i].open /\ H[h].alive /\ (\A j \in 1..i-1 : I[j].open)
                 /\ LET r == ReloadRes(h, nIters) m == r.H[h] IN
                    /\ ApplyReload(r) /\ nIters' = nIters + 1
                    /\ I' = [I EXCEPT ![i] = [open |-> TRUE, h |-> h, names |-> m.names, dead |-> m.dead]]
                    /\ bad' = IF m.dead # {} THEN "dangling reader in merger"
                              ELSE IF m.names # r.loaded THEN "view differs from loaded set" ELSE bad
                 /\ UNCHANGED setnames /\ Log(<<"open", h, i>>)
           \/ \E i \in 1..MaxIt : CloseIter(i) /\ Log(<<"close", i>>)
SimSpec == SimInit /\ [][SimNext]_<<vars, hist>>
SimLen == 36
DumpHist == (Len(hist) >= SimLen) => PrintT(<<"HIST", hist>>)
====
