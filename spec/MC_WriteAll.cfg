SPECIFICATION Spec
CONSTANTS
 Bufs <- mcBufs
 MaxFaults = 4
 Advance = TRUE
 EintrKeeps = TRUE
INVARIANT PrefixInv
INVARIANT DoneComplete
PROPERTY Terminates
VIEW NoHist
CHECK_DEADLOCK FALSE
