SPECIFICATION FairSpec
CONSTANTS MaxThreads = 2 NC = 1 Jobs = 3 Ordered = FALSE MaxSpurious = 1 Mixed = FALSE defaultInitValue = defaultInitValue
INVARIANTS ExactlyOnce NoDup InOrder Bounded
PROPERTY Live
CHECK_DEADLOCK FALSE
