---- MODULE Trace_TPSteps ----
(* Code -> TLC at pthread-call granularity (C13): the deterministic scheduler's step log of real executions of
   mtbl/threadpool.c (every lock, unlock, cond_wait release / re-acquire, signal with the thread it woke, create, thread
   start, join, thread exit, spurious wake-up - in the order they were executed) must be a behaviour of ThreadPool.tla.
   Each logged call is matched with a step of the same process that has the same synchronisation effect on the same
   object; the model's steps without a pthread call (tests, queue updates) are silent and are taken lazily, by the
   process of the next logged call only (they are local to that process or protected by the mutex it holds).
   One TLC run judges many executions: one initial state per execution (variable x). Registers: 1 = set of accepted
   executions, 2 = set of <<x, furthest line>> (for locating a rejection). One client (NC = 1). *)
EXTENDS ThreadPool, Json, IOUtils
ASSUME TLCSet(1, {}) /\ TLCSet(2, {})
Tr == ndJsonDeserialize(IOEnv.TRACE)
VARIABLES x, l
tv == <<vars, x, l>>
Evs == Tr[x].ev
Ev == Evs[l]
CallerP == MaxThreads + 1
HandlerP == MaxThreads + 2
Proc(tid) == IF tid = 0 THEN CallerP ELSE IF tid = 1 THEN HandlerP ELSE tid - 1
Ob(m) == IF m = 0 THEN <<"pool", 0>> ELSE IF m = 1 THEN <<"rq", 1>> ELSE <<"thr", m - 1>>
Known(tid) == tid \in 0..(MaxThreads + 1)
Step(p) == IF p = CallerP THEN caller(p) \/ wait(p) ELSE IF p = HandlerP THEN rh(p) \/ wait(p) ELSE worker(p) \/ wait(p)
NoOb == <<"none", 0>>
\* the condition variable signalled by the step process p is about to take (NoOb: that step contains no signal)
SigObj(p) == CASE pc[p] = "d2" -> <<"thr", thr[p]>>
               [] pc[p] = "d5" -> IF OrdOf(1) THEN <<"rq", 1>> ELSE NoOb
               [] pc[p] = "f2" -> <<"rq", 1>>
               [] pc[p] = "p6" -> <<"thr", thr[p]>>
               [] pc[p] = "w7" -> <<"rq", myrq[p]>>
               [] pc[p] = "w10" -> <<"thr", p>>
               [] pc[p] = "r11" -> <<"pool", 0>>
               [] OTHER -> NoOb
Is(e) == l <= Len(Evs) /\ Ev.e = e /\ Known(Ev.t) /\ l' = l + 1 /\ x' = x
TInit == Init /\ x \in 1..Len(Tr) /\ l = 1
TLock == /\ Is("lock")
         /\ LET p == Proc(Ev.t) m == Ob(Ev.o1) IN
              pc[p] \notin {"cw1", "cw2"} /\ owner[m] = 0 /\ Step(p) /\ owner'[m] = p /\ waiters' = waiters
TUnlock == /\ Is("unlock")
           /\ LET p == Proc(Ev.t) m == Ob(Ev.o1) IN
                pc[p] \notin {"cw1", "cw2"} /\ owner[m] = p /\ Step(p) /\ owner'[m] = 0 /\ waiters' = waiters
TCwRel == /\ Is("cwrel")
          /\ LET p == Proc(Ev.t) IN pc[p] = "cw1" /\ cv[p] = Ob(Ev.o1) /\ mx[p] = Ob(Ev.o2) /\ wait(p)
TCwAcq == /\ Is("cwacq")
          /\ LET p == Proc(Ev.t) IN pc[p] = "cw2" /\ cv[p] = Ob(Ev.o1) /\ mx[p] = Ob(Ev.o2) /\ wait(p)
\* w = the thread the signal woke (99: nobody was waiting)
TSignal == /\ Is("signal")
           /\ LET p == Proc(Ev.t) c == Ob(Ev.o1) IN
                /\ SigObj(p) = c
                /\ Step(p)
                /\ IF Ev.w = 99 THEN waiters[c] = {} /\ waiters' = waiters
                   ELSE Known(Ev.w) /\ Proc(Ev.w) \in waiters[c] /\ waiters' = [waiters EXCEPT ![c] = @ \ {Proc(Ev.w)}]
                /\ owner' = owner
\* pthread_create: a new worker (n5 with isnew), or the result handler's thread (no model step: the handler process exists
\* from the start) - the latter only before the first dispatch
TCreate == /\ Is("create") /\ Ev.t = 0
           /\ IF pc[CallerP] = "n5" THEN isnew[CallerP] /\ caller(CallerP) /\ created' # created
              ELSE pc[CallerP] = "m0" /\ j[CallerP] = 1 /\ UNCHANGED vars
TStart == /\ Is("start")
          /\ IF Ev.t = 1 THEN pc[HandlerP] = "r1" /\ UNCHANGED vars
             ELSE LET p == Proc(Ev.t) IN pc[p] = "w0" /\ p \in created /\ worker(p)
\* pthread_join: of the handler's thread in result_handler_destroy (f4), of a worker in threadpool_destroy (p8)
TJoin == /\ Is("join") /\ Ev.t = 0
         /\ IF Ev.o1 = 1 THEN pc[CallerP] = "f4" /\ caller(CallerP)
            ELSE pc[CallerP] = "p8" /\ Known(Ev.o1) /\ thr[CallerP] = Proc(Ev.o1) /\ caller(CallerP)
TExit == /\ Is("exit")
         /\ LET p == Proc(Ev.t) IN pc[p] \in {"wend", "rend"} /\ Step(p)
TSpurious == /\ Is("spurious") /\ Known(Ev.w)
             /\ LET c == Ob(Ev.o1) IN Proc(Ev.w) \in waiters[c] /\ spur /\ waiters' = [waiters EXCEPT ![c] = @ \ {Proc(Ev.w)}]
\* a model step without a pthread call, by the process of the next logged call
TSilent == /\ l <= Len(Evs) /\ Known(Ev.t) /\ Ev.e # "spurious"
           /\ LET p == Proc(Ev.t) IN
                /\ pc[p] \notin {"cw1", "cw2", "p8", "f4", "w0", "wend", "rend", "Done"}
                /\ SigObj(p) = NoOb
                /\ Step(p)
                /\ UNCHANGED <<owner, waiters, created>>
           /\ UNCHANGED <<x, l>>
TNext0 == TLock \/ TUnlock \/ TCwRel \/ TCwAcq \/ TSignal \/ TCreate \/ TStart \/ TJoin \/ TExit \/ TSpurious \/ TSilent
TSpec == TInit /\ [][TNext0]_tv
\* bookkeeping (evaluated in every reached state; -workers 1)
Book == /\ (l > Len(Evs)) => TLCSet(1, TLCGet(1) \cup {x})
        /\ TLCSet(2, {q \in TLCGet(2) : q[1] # x} \cup {<<x, IF \E q \in TLCGet(2) : q[1] = x /\ q[2] > l THEN (CHOOSE q \in TLCGet(2) : q[1] = x)[2] ELSE l>>})
AllAccepted == IF TLCGet(1) = 1..Len(Tr) THEN TRUE
               ELSE PrintT(<<"REJECTED", {q \in TLCGet(2) : q[1] \notin TLCGet(1)}>>) /\ FALSE
====
