SPECIFICATION Spec
CONSTANT MaxOps = 22
INVARIANT Released
INVARIANT WellFormed
INVARIANT DumpHist
CHECK_DEADLOCK FALSE
