---- MODULE Varint ----
(* C16. Standard little-endian base-128 varints (LEB128) and little-endian fixed-width integers, as executable
   definitions. A value is given by its base-128 digits, least significant first, without leading zero digits except
   for the value 0 itself (TLC integers are 32-bit, so 64-bit values cannot be written as one number). *)
EXTENDS Integers, Sequences, SequencesExt
CanonicalDigits(v) == Len(v) >= 1 /\ (\A i \in 1..Len(v) : v[i] \in 0..127) /\ (Len(v) > 1 => v[Len(v)] # 0)
Encode(v) == [i \in 1..Len(v) |-> v[i] + (IF i < Len(v) THEN 128 ELSE 0)]
EncLen(v) == Len(v)
\* number of bytes of the varint at the start of buf when avail bytes may be looked at; 0 if it does not end within them
PackedLen(buf, avail) == LET m == IF avail < Len(buf) THEN avail ELSE Len(buf)
                             i == SelectInSeq([j \in 1..m |-> buf[j] < 128], LAMBDA x : x)
                         IN i
====
