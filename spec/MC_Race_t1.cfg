SPECIFICATION Spec
CONSTANTS MaxThreads = 2 NC = 1 Jobs = 3 Ordered = TRUE MaxSpurious = 0 Mixed = FALSE defaultInitValue = defaultInitValue
INVARIANT NoRace
CHECK_DEADLOCK FALSE
