---- MODULE Writer ----
(* Implementation-shaped layer of mtbl/writer.c + mtbl/block_builder.c: the exact layout the writer produces
   (compression none; with compression only the stored bytes differ). Operators carry the names of the C
   functions. A value is [id, len]: only its length matters to the layout.
   The result of Finish has the shape FileFormat.tla judges, so TLC checks WellFormed(Finish(w)) for every
   reachable writer state (MC_Writer) - that the writer's *rules* produce well-formed, round-tripping files with
   truthful counters - and the same structure is what the independent decoder extracts from real files. *)
EXTENDS Bytes, TLC

(* ---- block_builder.c ---- *)
EmptyBuilder == [buf |-> 0, restarts |-> <<0>>, counter |-> 0, last |-> <<>>, entries |-> <<>>]
Estimate(b) == b.buf + 4 * Len(b.restarts) + 4            \* block_builder_current_size_estimate (below 4 GiB)
BuilderAdd(b, ri, key, v, vlen) ==                        \* block_builder_add
    LET restart == ~(b.counter < ri)
        shared  == IF restart THEN 0 ELSE Lcp(b.last, key)
        ns      == Len(key) - shared
        grow    == VarLen(shared) + VarLen(ns) + VarLen(vlen) + ns + vlen
    IN [buf      |-> b.buf + grow,
        restarts |-> IF restart THEN Append(b.restarts, b.buf) ELSE b.restarts,
        counter  |-> (IF restart THEN 0 ELSE b.counter) + 1,
        last     |-> key,
        entries  |-> Append(b.entries, [off |-> b.buf, shared |-> shared, ns |-> ns, vlen |-> vlen, k |-> key, v |-> v])]

(* ---- writer.c ---- *)
ClampBs(bs) == IF bs < 1024 THEN 1024 ELSE bs             \* mtbl_writer_options_set_block_size
NewWriter(cfg) == [cfg |-> [cfg EXCEPT !.bs = ClampBs(cfg.bs)], last |-> <<>>, count |-> 0,
                   data |-> EmptyBuilder, index |-> EmptyBuilder, blocks |-> <<>>,
                   pending |-> cfg.prefix, bytesKeys |-> 0, bytesVals |-> 0, bytesData |-> 0, accepted |-> <<>>]
\* _mtbl_writer_flush + _mtbl_writer_write_data_block: the index key is last_key as it stands (already shortened on a cut)
Flush(w) ==
    IF w.data.buf = 0 THEN w
    ELSE LET size   == Estimate(w.data)
             ondisk == VarLen(size) + 4 + size
             blk    == [off |-> w.pending, lenlen |-> VarLen(size), stored |-> size, clen |-> size, crcok |-> TRUE,
                        entries |-> w.data.entries, restarts |-> w.data.restarts]
         IN [w EXCEPT !.blocks = Append(@, blk), !.data = EmptyBuilder,
                      !.index = BuilderAdd(@, w.cfg.ri, w.last, w.pending, VarLen(w.pending)),
                      !.pending = @ + ondisk, !.bytesData = @ + ondisk]
AddOk(w, key) == w.count = 0 \/ Lt(w.last, key)                           \* the ordering gate of mtbl_writer_add
Cut(w, key, vlen) == Estimate(w.data) + 15 + Len(key) + vlen >= w.cfg.bs
Add(w, key, v, vlen) ==                                                   \* mtbl_writer_add
    IF ~AddOk(w, key) THEN w
    ELSE LET w1 == IF Cut(w, key, vlen) THEN Flush([w EXCEPT !.last = Sep(w.last, key)]) ELSE w
         IN [w1 EXCEPT !.last = key, !.count = @ + 1, !.bytesKeys = @ + Len(key), !.bytesVals = @ + vlen,
                       !.data = BuilderAdd(@, w.cfg.ri, key, v, vlen),
                       !.accepted = Append(@, [k |-> key, v |-> v])]
Finish(w) ==                                                              \* _mtbl_writer_finish
    LET w1 == Flush(w)
        isize == Estimate(w1.index)
        ie == w1.index.entries
    IN [size |-> w1.pending + VarLen(isize) + 4 + isize + 512, prefix_ok |-> TRUE, version |-> 2, comp |-> 0,
        blocks |-> w1.blocks,
        index |-> [off |-> w1.pending, lenlen |-> VarLen(isize), stored |-> isize, clen |-> isize, crcok |-> TRUE,
                   restarts |-> w1.index.restarts,
                   entries |-> [i \in 1..Len(ie) |-> [off |-> ie[i].off, shared |-> ie[i].shared, ns |-> ie[i].ns,
                                                      vlen |-> ie[i].vlen, k |-> ie[i].k, boff |-> ie[i].v]]],
        trailer |-> [index_block_offset |-> w1.pending, data_block_size |-> w.cfg.bs, compression_algorithm |-> 0,
                     count_entries |-> w1.count, count_data_blocks |-> Len(w1.blocks), bytes_data_blocks |-> w1.bytesData,
                     bytes_index_block |-> VarLen(isize) + 4 + isize, bytes_keys |-> w1.bytesKeys, bytes_values |-> w1.bytesVals,
                     padzero |-> TRUE, magic |-> "MTBL"]]
====
