---- MODULE MC_Writer ----
(* Bounded check of the writer's construction rules (C01 C08 C09 C10 at the level of the design):
   every sequence of at most MaxAdds add calls with arbitrary keys from Keys and value lengths from VLens,
   for each restart interval in RIs and foreign prefix in PrefixLens. In every reachable state the file that
   finishing now would produce is well-formed, holds exactly the accepted entries and has a truthful trailer;
   a refused add changes nothing. The reachable graph also drives the replay on the real writer. *)
EXTENDS Writer, FiniteSets
FF == INSTANCE FileFormat
CONSTANTS KeySeq, VLens, RIs, PrefixLens, BlockSize, MaxAdds
VARIABLES w, n, cx
vars == <<w, n, cx>>
Cfgs == {[bs |-> BlockSize, ri |-> r, prefix |-> p, comp |-> 0] : r \in RIs, p \in PrefixLens}
CfgSeq == SetToSeq(Cfgs)
Init == \E c \in 1..Len(CfgSeq) : cx = c /\ w = NewWriter(CfgSeq[c]) /\ n = 0
DoAdd(ki, vl) == /\ n < MaxAdds
                 /\ w' = Add(w, KeySeq[ki], [id |-> n + 1, len |-> vl], vl)
                 /\ n' = n + 1 /\ UNCHANGED cx
Next == \E ki \in 1..Len(KeySeq), vl \in VLens : DoAdd(ki, vl)
Spec == Init /\ [][Next]_vars

File == Finish(w)
WellFormedInv == FF!WellFormed(File, w.accepted, w.cfg)
TruthInv == FF!TrailerTruth(File, w.accepted, w.cfg, LAMBDA v : v.len)
\* the gate: accepted keys strictly increase; refused adds change nothing (action property)
GateInv == \A i \in 1..Len(w.accepted) - 1 : Lt(w.accepted[i].k, w.accepted[i + 1].k)
RefusalChangesNothing == [][\A ki \in 1..Len(KeySeq) : (~AddOk(w, KeySeq[ki]) /\ w'.count = w.count) => w' = w]_vars
====
