---- MODULE MC_WriteAll_TTrace_1790834109 ----
EXTENDS Sequences, TLCExt, Toolbox, MC_WriteAll, Naturals, TLC

_expression ==
    LET MC_WriteAll_TEExpression == INSTANCE MC_WriteAll_TEExpression
    IN MC_WriteAll_TEExpression!expression
----

_trace ==
    LET MC_WriteAll_TETrace == INSTANCE MC_WriteAll_TETrace
    IN MC_WriteAll_TETrace!trace
----

_inv ==
    ~(
        TLCGet("level") = Len(_TETrace)
        /\
        flen = (2)
        /\
        isprefix = (FALSE)
        /\
        b = (2)
        /\
        hist = (<<<<2, 0>>, <<0, 0>>>>)
        /\
        faults = (1)
        /\
        done = (0)
        /\
        status = ("running")
        /\
        ptr = (0)
    )
----

_init ==
    /\ faults = _TETrace[1].faults
    /\ done = _TETrace[1].done
    /\ b = _TETrace[1].b
    /\ status = _TETrace[1].status
    /\ flen = _TETrace[1].flen
    /\ isprefix = _TETrace[1].isprefix
    /\ hist = _TETrace[1].hist
    /\ ptr = _TETrace[1].ptr
----

_next ==
    /\ \E i,j \in DOMAIN _TETrace:
        /\ \/ /\ j = i + 1
              /\ i = TLCGet("level")
        /\ faults  = _TETrace[i].faults
        /\ faults' = _TETrace[j].faults
        /\ done  = _TETrace[i].done
        /\ done' = _TETrace[j].done
        /\ b  = _TETrace[i].b
        /\ b' = _TETrace[j].b
        /\ status  = _TETrace[i].status
        /\ status' = _TETrace[j].status
        /\ flen  = _TETrace[i].flen
        /\ flen' = _TETrace[j].flen
        /\ isprefix  = _TETrace[i].isprefix
        /\ isprefix' = _TETrace[j].isprefix
        /\ hist  = _TETrace[i].hist
        /\ hist' = _TETrace[j].hist
        /\ ptr  = _TETrace[i].ptr
        /\ ptr' = _TETrace[j].ptr

\* Uncomment the ASSUME below to write the states of the error trace
\* to the given file in Json format. Note that you can pass any tuple
\* to `JsonSerialize`. For example, a sub-sequence of _TETrace.
    \* ASSUME
    \*     LET J == INSTANCE Json
    \*         IN J!JsonSerialize("MC_WriteAll_TTrace_1790834109.json", _TETrace)

=============================================================================

 Note that you can extract this module `MC_WriteAll_TEExpression`
  to a dedicated file to reuse `expression` (the module in the 
  dedicated `MC_WriteAll_TEExpression.tla` file takes precedence 
  over the module `MC_WriteAll_TEExpression` below).

---- MODULE MC_WriteAll_TEExpression ----
EXTENDS Sequences, TLCExt, Toolbox, MC_WriteAll, Naturals, TLC

expression == 
    [
        \* To hide variables of the `MC_WriteAll` spec from the error trace,
        \* remove the variables below.  The trace will be written in the order
        \* of the fields of this record.
        faults |-> faults
        ,done |-> done
        ,b |-> b
        ,status |-> status
        ,flen |-> flen
        ,isprefix |-> isprefix
        ,hist |-> hist
        ,ptr |-> ptr
        
        \* Put additional constant-, state-, and action-level expressions here:
        \* ,_stateNumber |-> _TEPosition
        \* ,_faultsUnchanged |-> faults = faults'
        
        \* Format the `faults` variable as Json value.
        \* ,_faultsJson |->
        \*     LET J == INSTANCE Json
        \*     IN J!ToJson(faults)
        
        \* Lastly, you may build expressions over arbitrary sets of states by
        \* leveraging the _TETrace operator.  For example, this is how to
        \* count the number of times a spec variable changed up to the current
        \* state in the trace.
        \* ,_faultsModCount |->
        \*     LET F[s \in DOMAIN _TETrace] ==
        \*         IF s = 1 THEN 0
        \*         ELSE IF _TETrace[s].faults # _TETrace[s-1].faults
        \*             THEN 1 + F[s-1] ELSE F[s-1]
        \*     IN F[_TEPosition - 1]
    ]

=============================================================================



Parsing and semantic processing can take forever if the trace below is long.
 In this case, it is advised to uncomment the module below to deserialize the
 trace from a generated binary file.

\*
\*---- MODULE MC_WriteAll_TETrace ----
\*EXTENDS IOUtils, MC_WriteAll, TLC
\*
\*trace == IODeserialize("MC_WriteAll_TTrace_1790834109.bin", TRUE)
\*
\*=============================================================================
\*

---- MODULE MC_WriteAll_TETrace ----
EXTENDS MC_WriteAll, TLC

trace == 
    <<
    ([flen |-> 0,isprefix |-> TRUE,b |-> 1,hist |-> <<>>,faults |-> 0,done |-> 0,status |-> "running",ptr |-> 0]),
    ([flen |-> 0,isprefix |-> TRUE,b |-> 1,hist |-> <<<<2, 0>>>>,faults |-> 1,done |-> -1,status |-> "running",ptr |-> -1]),
    ([flen |-> 2,isprefix |-> FALSE,b |-> 2,hist |-> <<<<2, 0>>, <<0, 0>>>>,faults |-> 1,done |-> 0,status |-> "running",ptr |-> 0])
    >>
----


=============================================================================

---- CONFIG MC_WriteAll_TTrace_1790834109 ----
CONSTANTS
    Bufs <- mcBufs
    MaxFaults = 4
    Advance = TRUE
    EintrKeeps = FALSE

INVARIANT
    _inv

CHECK_DEADLOCK
    \* CHECK_DEADLOCK off because of PROPERTY or INVARIANT above.
    FALSE

INIT
    _init

NEXT
    _next

CONSTANT
    _TETrace <- _trace

ALIAS
    _expression
=============================================================================
\* Generated on Thu Oct 01 05:55:10 UTC 2026