---- MODULE Trace_Race ----
(* Trace validator for C14: each run of a concurrent program the API allows (pooled writers / sorters sharing a pool
   from several caller threads, threads iterating one reader) under ThreadSanitizer must end normally with no data race
   report and with its functional result intact. *)
EXTENDS Integers, Sequences, TLC, Json, IOUtils
Tr == ndJsonDeserialize(IOEnv.TRACE)
VARIABLE l
Ev == Tr[l]
TInit == l = 1
TRun == l <= Len(Tr) /\ Ev.e = "TsanRun" /\ Ev.races = 0 /\ Ev.status = "ok" /\ l' = l + 1
TSpec == TInit /\ [][TRun]_l
Accepted == TLCGet("stats").diameter - 1 = Len(Tr)
====
