---- MODULE MC_Fileset_bfs ----
EXTENDS Fileset
====
