---- MODULE MC_Merger_small_TTrace_1790829242 ----
EXTENDS Sequences, TLCExt, Toolbox, Naturals, TLC, MC_Merger_small

_expression ==
    LET MC_Merger_small_TEExpression == INSTANCE MC_Merger_small_TEExpression
    IN MC_Merger_small_TEExpression!expression
----

_trace ==
    LET MC_Merger_small_TETrace == INSTANCE MC_Merger_small_TETrace
    IN MC_Merger_small_TETrace!trace
----

_inv ==
    ~(
        TLCGet("level") = Len(_TETrace)
        /\
        res = (FALSE)
        /\
        st = ([cur |-> <<[b |-> [kind |-> "iter", k0 |-> <<>>, k1 |-> <<>>], t |-> <<[k |-> <<>>, v |-> <<0, 1>>], [k |-> <<97>>, v |-> <<0, 1>>], [k |-> <<97, 98>>, v |-> <<0, 1>>], [k |-> <<98, 97>>, v |-> <<0, 1>>]>>, pos |-> 4, ord |-> TRUE, done |-> FALSE, em |-> {}], [b |-> [kind |-> "iter", k0 |-> <<>>, k1 |-> <<>>], t |-> <<[k |-> <<97>>, v |-> <<0, 2>>], [k |-> <<97, 97>>, v |-> <<0, 2>>], [k |-> <<98, 97>>, v |-> <<0, 2>>], [k |-> <<98, 98>>, v |-> <<0, 2>>]>>, pos |-> 3, ord |-> TRUE, done |-> FALSE, em |-> {}], [b |-> [kind |-> "iter", k0 |-> <<>>, k1 |-> <<>>], t |-> <<[k |-> <<97, 98>>, v |-> <<0, 3>>]>>, pos |-> 2, ord |-> TRUE, done |-> FALSE, em |-> {}]>>, null |-> FALSE, ent |-> <<[fin |-> FALSE, val |-> <<0, 1>>, key |-> <<97, 98>>], [fin |-> FALSE, val |-> <<0, 2>>, key |-> <<97, 97>>], [fin |-> FALSE, val |-> <<0, 3>>, key |-> <<97, 98>>]>>, h |-> <<2, 1, 3>>, live |-> {1, 2, 3}, ck |-> <<97>>, hasck |-> TRUE, cv |-> <<0, 1, 0, 2>>, pending |-> FALSE, finished |-> FALSE, calls |-> 1])
        /\
        cur = ([b |-> [kind |-> "iter", k0 |-> <<>>, k1 |-> <<>>], t |-> <<[k |-> <<>>, v |-> <<0, 1>>, n |-> 1], [k |-> <<97>>, v |-> <<0, 1, 0, 2>>, n |-> 2], [k |-> <<97, 97>>, v |-> <<0, 2>>, n |-> 1], [k |-> <<97, 98>>, v |-> <<0, 1, 0, 3>>, n |-> 2], [k |-> <<98, 97>>, v |-> <<0, 1, 0, 2>>, n |-> 2], [k |-> <<98, 98>>, v |-> <<0, 2>>, n |-> 1]>>, pos |-> 1, ord |-> TRUE, done |-> FALSE, em |-> {}])
        /\
        bx = (1)
    )
----

_init ==
    /\ res = _TETrace[1].res
    /\ bx = _TETrace[1].bx
    /\ st = _TETrace[1].st
    /\ cur = _TETrace[1].cur
----

_next ==
    /\ \E i,j \in DOMAIN _TETrace:
        /\ \/ /\ j = i + 1
              /\ i = TLCGet("level")
        /\ res  = _TETrace[i].res
        /\ res' = _TETrace[j].res
        /\ bx  = _TETrace[i].bx
        /\ bx' = _TETrace[j].bx
        /\ st  = _TETrace[i].st
        /\ st' = _TETrace[j].st
        /\ cur  = _TETrace[i].cur
        /\ cur' = _TETrace[j].cur

\* Uncomment the ASSUME below to write the states of the error trace
\* to the given file in Json format. Note that you can pass any tuple
\* to `JsonSerialize`. For example, a sub-sequence of _TETrace.
    \* ASSUME
    \*     LET J == INSTANCE Json
    \*         IN J!JsonSerialize("MC_Merger_small_TTrace_1790829242.json", _TETrace)

=============================================================================

 Note that you can extract this module `MC_Merger_small_TEExpression`
  to a dedicated file to reuse `expression` (the module in the 
  dedicated `MC_Merger_small_TEExpression.tla` file takes precedence 
  over the module `MC_Merger_small_TEExpression` below).

---- MODULE MC_Merger_small_TEExpression ----
EXTENDS Sequences, TLCExt, Toolbox, Naturals, TLC, MC_Merger_small

expression == 
    [
        \* To hide variables of the `MC_Merger_small` spec from the error trace,
        \* remove the variables below.  The trace will be written in the order
        \* of the fields of this record.
        res |-> res
        ,bx |-> bx
        ,st |-> st
        ,cur |-> cur
        
        \* Put additional constant-, state-, and action-level expressions here:
        \* ,_stateNumber |-> _TEPosition
        \* ,_resUnchanged |-> res = res'
        
        \* Format the `res` variable as Json value.
        \* ,_resJson |->
        \*     LET J == INSTANCE Json
        \*     IN J!ToJson(res)
        
        \* Lastly, you may build expressions over arbitrary sets of states by
        \* leveraging the _TETrace operator.  For example, this is how to
        \* count the number of times a spec variable changed up to the current
        \* state in the trace.
        \* ,_resModCount |->
        \*     LET F[s \in DOMAIN _TETrace] ==
        \*         IF s = 1 THEN 0
        \*         ELSE IF _TETrace[s].res # _TETrace[s-1].res
        \*             THEN 1 + F[s-1] ELSE F[s-1]
        \*     IN F[_TEPosition - 1]
    ]

=============================================================================



Parsing and semantic processing can take forever if the trace below is long.
 In this case, it is advised to uncomment the module below to deserialize the
 trace from a generated binary file.

\*
\*---- MODULE MC_Merger_small_TETrace ----
\*EXTENDS IOUtils, TLC, MC_Merger_small
\*
\*trace == IODeserialize("MC_Merger_small_TTrace_1790829242.bin", TRUE)
\*
\*=============================================================================
\*

---- MODULE MC_Merger_small_TETrace ----
EXTENDS TLC, MC_Merger_small

trace == 
    <<
    ([res |-> TRUE,st |-> [cur |-> <<[b |-> [kind |-> "iter", k0 |-> <<>>, k1 |-> <<>>], t |-> <<[k |-> <<>>, v |-> <<0, 1>>], [k |-> <<97>>, v |-> <<0, 1>>], [k |-> <<97, 98>>, v |-> <<0, 1>>], [k |-> <<98, 97>>, v |-> <<0, 1>>]>>, pos |-> 2, ord |-> TRUE, done |-> FALSE, em |-> {}], [b |-> [kind |-> "iter", k0 |-> <<>>, k1 |-> <<>>], t |-> <<[k |-> <<97>>, v |-> <<0, 2>>], [k |-> <<97, 97>>, v |-> <<0, 2>>], [k |-> <<98, 97>>, v |-> <<0, 2>>], [k |-> <<98, 98>>, v |-> <<0, 2>>]>>, pos |-> 2, ord |-> TRUE, done |-> FALSE, em |-> {}], [b |-> [kind |-> "iter", k0 |-> <<>>, k1 |-> <<>>], t |-> <<[k |-> <<97, 98>>, v |-> <<0, 3>>]>>, pos |-> 2, ord |-> TRUE, done |-> FALSE, em |-> {}]>>, null |-> FALSE, ent |-> <<[fin |-> FALSE, val |-> <<0, 1>>, key |-> <<>>], [fin |-> FALSE, val |-> <<0, 2>>, key |-> <<97>>], [fin |-> FALSE, val |-> <<0, 3>>, key |-> <<97, 98>>]>>, h |-> <<1, 2, 3>>, live |-> {1, 2, 3}, ck |-> <<>>, hasck |-> FALSE, cv |-> <<>>, pending |-> FALSE, finished |-> FALSE, calls |-> 0],cur |-> [b |-> [kind |-> "iter", k0 |-> <<>>, k1 |-> <<>>], t |-> <<[k |-> <<>>, v |-> <<0, 1>>, n |-> 1], [k |-> <<97>>, v |-> <<0, 1, 0, 2>>, n |-> 2], [k |-> <<97, 97>>, v |-> <<0, 2>>, n |-> 1], [k |-> <<97, 98>>, v |-> <<0, 1, 0, 3>>, n |-> 2], [k |-> <<98, 97>>, v |-> <<0, 1, 0, 2>>, n |-> 2], [k |-> <<98, 98>>, v |-> <<0, 2>>, n |-> 1]>>, pos |-> 1, ord |-> TRUE, done |-> FALSE, em |-> {}],bx |-> 1]),
    ([res |-> FALSE,st |-> [cur |-> <<[b |-> [kind |-> "iter", k0 |-> <<>>, k1 |-> <<>>], t |-> <<[k |-> <<>>, v |-> <<0, 1>>], [k |-> <<97>>, v |-> <<0, 1>>], [k |-> <<97, 98>>, v |-> <<0, 1>>], [k |-> <<98, 97>>, v |-> <<0, 1>>]>>, pos |-> 4, ord |-> TRUE, done |-> FALSE, em |-> {}], [b |-> [kind |-> "iter", k0 |-> <<>>, k1 |-> <<>>], t |-> <<[k |-> <<97>>, v |-> <<0, 2>>], [k |-> <<97, 97>>, v |-> <<0, 2>>], [k |-> <<98, 97>>, v |-> <<0, 2>>], [k |-> <<98, 98>>, v |-> <<0, 2>>]>>, pos |-> 3, ord |-> TRUE, done |-> FALSE, em |-> {}], [b |-> [kind |-> "iter", k0 |-> <<>>, k1 |-> <<>>], t |-> <<[k |-> <<97, 98>>, v |-> <<0, 3>>]>>, pos |-> 2, ord |-> TRUE, done |-> FALSE, em |-> {}]>>, null |-> FALSE, ent |-> <<[fin |-> FALSE, val |-> <<0, 1>>, key |-> <<97, 98>>], [fin |-> FALSE, val |-> <<0, 2>>, key |-> <<97, 97>>], [fin |-> FALSE, val |-> <<0, 3>>, key |-> <<97, 98>>]>>, h |-> <<2, 1, 3>>, live |-> {1, 2, 3}, ck |-> <<97>>, hasck |-> TRUE, cv |-> <<0, 1, 0, 2>>, pending |-> FALSE, finished |-> FALSE, calls |-> 1],cur |-> [b |-> [kind |-> "iter", k0 |-> <<>>, k1 |-> <<>>], t |-> <<[k |-> <<>>, v |-> <<0, 1>>, n |-> 1], [k |-> <<97>>, v |-> <<0, 1, 0, 2>>, n |-> 2], [k |-> <<97, 97>>, v |-> <<0, 2>>, n |-> 1], [k |-> <<97, 98>>, v |-> <<0, 1, 0, 3>>, n |-> 2], [k |-> <<98, 97>>, v |-> <<0, 1, 0, 2>>, n |-> 2], [k |-> <<98, 98>>, v |-> <<0, 2>>, n |-> 1]>>, pos |-> 1, ord |-> TRUE, done |-> FALSE, em |-> {}],bx |-> 1])
    >>
----


=============================================================================

---- CONFIG MC_Merger_small_TTrace_1790829242 ----
CONSTANTS
    Srcs <- mcSrcs
    TargetSeq <- mcT
    BoundSeq <- mcB
    MergeOn = TRUE
    DupsortOn = FALSE
    FixF2 = FALSE
    FixF8 = TRUE

INVARIANT
    _inv

CHECK_DEADLOCK
    \* CHECK_DEADLOCK off because of PROPERTY or INVARIANT above.
    FALSE

INIT
    _init

NEXT
    _next

CONSTANT
    _TETrace <- _trace

ALIAS
    _expression
=============================================================================
\* Generated on Thu Oct 01 04:34:03 UTC 2026