---- MODULE Trace_Checksum ----
(* Trace validator for C12. One execution = one file image (intact or with one detectable corruption pattern inside one
   block's stored bytes or checksum field) and the observations made on it:
     VerifyTool [ok_printed, rc]           stdout / exit status of mtbl_verify
     ReadRun [segs, ended]                 ONE reader with verify_checksums used by a sequence of iterators (segments:
                                           iterate | get | seek, target = block holding the key); per segment the data
                                           block of every entry returned before the run ended ("normal" or "abort")
   Judged as Checksum.tla states: mtbl_verify never reports a damaged file OK and always reports an intact one OK; the
   verifying reader never returns an entry of the damaged block and stops when it reaches it; an intact file reads fully. *)
EXTENDS Integers, Sequences, FiniteSets, TLC, Json, IOUtils
Tr == ndJsonDeserialize(IOEnv.TRACE)
VARIABLES l, bad, nb
tv == <<l, bad, nb>>
Ev == Tr[l]
Is(e) == l <= Len(Tr) /\ Ev.e = e /\ l' = l + 1
TInit == l = 1 /\ bad = -1 /\ nb = 0
TImage == Is("Image") /\ bad' = Ev.bad /\ nb' = Ev.nblocks          \* bad: -1 intact, 0 index block, k data block k
TTool == /\ Is("VerifyTool")
         /\ IF bad = -1 THEN Ev.ok_printed /\ Ev.rc = 0 ELSE ~Ev.ok_printed /\ Ev.rc # 0
         /\ UNCHANGED <<bad, nb>>
\* A read run is a sequence of segments on ONE reader; a segment is one iterator: kind iterate | get | seek, target = the
\* block holding the key (get / seek), blocks = data block of every entry it returned.
\* the blocks a segment loads, in order, and the blocks whose entries it returns when nothing stops it
\* (seek = a full iterator, which loads the first block when it is created, then seek to a key of block target, then drain)
LoadSeq(kind, target) == IF kind = "iterate" THEN [i \in 1..nb |-> i]
                         ELSE IF kind = "get" THEN <<target>>
                         ELSE <<1>> \o [i \in 1..(nb - target + 1) |-> target + i - 1]
Returns(kind, target) == IF kind = "iterate" THEN 1..nb ELSE IF kind = "get" THEN {target} ELSE target..nb
SegBlocks(sg) == {sg.blocks[i] : i \in 1..Len(sg.blocks)}
HitsBad(sg) == \E i \in 1..Len(LoadSeq(sg.kind, sg.target)) : LoadSeq(sg.kind, sg.target)[i] = bad
\* what a segment returns when it is the one that reaches the damaged block: the entries of the blocks loaded before it
Before(sg) == LET ls == LoadSeq(sg.kind, sg.target)
                  k == CHOOSE i \in 1..Len(ls) : ls[i] = bad /\ \A j \in 1..(i - 1) : ls[j] # bad
              IN {ls[j] : j \in 1..(k - 1)} \cap Returns(sg.kind, sg.target)
FirstHit(segs) == LET hits == {i \in 1..Len(segs) : HitsBad(segs[i])} IN IF hits = {} THEN 0 ELSE CHOOSE i \in hits : \A j \in hits : i <= j
TRead == /\ Is("ReadRun")
         /\ LET segs == Ev.segs h == IF bad > 0 THEN FirstHit(segs) ELSE 0 IN
            IF bad = 0 THEN Ev.ended = "abort" /\ \A i \in 1..Len(segs) : SegBlocks(segs[i]) = {}      \* index block: the open stops
            ELSE IF h = 0
                 THEN Ev.ended = "normal" /\ \A i \in 1..Len(segs) : SegBlocks(segs[i]) = Returns(segs[i].kind, segs[i].target)
                 ELSE /\ Ev.ended = "abort"                                                  \* the process stops instead
                      /\ \A i \in 1..(h - 1) : SegBlocks(segs[i]) = Returns(segs[i].kind, segs[i].target)
                      /\ SegBlocks(segs[h]) = Before(segs[h])                             \* never an entry of the damaged block
                      /\ \A i \in (h + 1)..Len(segs) : SegBlocks(segs[i]) = {}
         /\ UNCHANGED <<bad, nb>>
TReset == Is("Reset") /\ bad' = -1 /\ nb' = 0
TNext0 == TReset \/ TImage \/ TTool \/ TRead
TSpec == TInit /\ [][TNext0]_tv
Accepted == TLCGet("stats").diameter - 1 = Len(Tr)
====
