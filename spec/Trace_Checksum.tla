---- MODULE Trace_Checksum ----
(* Trace validator for C12. One execution = one file image (intact or with one detectable corruption pattern inside one
   block's stored bytes or checksum field) and the observations made on it:
     VerifyTool [ok_printed, rc]           stdout / exit status of mtbl_verify
     ReadRun [path, blocks, ended]         a reader with verify_checksums: blocks = data block of every entry returned
                                           before the run ended ("normal" or "abort"); path = iterate | get | seek,
                                           target = block holding the key (get / seek)
   Judged as Checksum.tla states: mtbl_verify never reports a damaged file OK and always reports an intact one OK; the
   verifying reader never returns an entry of the damaged block and stops when it reaches it; an intact file reads fully. *)
EXTENDS Integers, Sequences, FiniteSets, TLC, Json, IOUtils
Tr == ndJsonDeserialize(IOEnv.TRACE)
VARIABLES l, bad, nb
tv == <<l, bad, nb>>
Ev == Tr[l]
Is(e) == l <= Len(Tr) /\ Ev.e = e /\ l' = l + 1
TInit == l = 1 /\ bad = -1 /\ nb = 0
TImage == Is("Image") /\ bad' = Ev.bad /\ nb' = Ev.nblocks          \* bad: -1 intact, 0 index block, k data block k
TTool == /\ Is("VerifyTool")
         /\ IF bad = -1 THEN Ev.ok_printed /\ Ev.rc = 0 ELSE ~Ev.ok_printed /\ Ev.rc # 0
         /\ UNCHANGED <<bad, nb>>
Blocks == {Ev.blocks[i] : i \in 1..Len(Ev.blocks)}
\* the blocks a path loads, and the blocks whose entries it returns when nothing stops it
\* (seek = a full iterator, which loads the first block when it is created, then seek to a key of block target, then drain)
Loads(path, target) == IF path = "iterate" THEN 1..nb ELSE IF path = "get" THEN {target} ELSE {1} \cup target..nb
Returns(path, target) == IF path = "iterate" THEN 1..nb ELSE IF path = "get" THEN {target} ELSE target..nb
TRead == /\ Is("ReadRun")
         /\ IF bad = -1
            THEN Ev.ended = "normal" /\ Blocks = Returns(Ev.path, Ev.target)
            ELSE /\ bad \notin Blocks                                                 \* never an entry of the damaged block
                 /\ (bad = 0 \/ bad \in Loads(Ev.path, Ev.target)) => Ev.ended = "abort"       \* the process stops instead
                 /\ (bad # 0 /\ bad \notin Loads(Ev.path, Ev.target)) => (Ev.ended = "normal" /\ Blocks = Returns(Ev.path, Ev.target))
         /\ UNCHANGED <<bad, nb>>
TReset == Is("Reset") /\ bad' = -1 /\ nb' = 0
TNext0 == TReset \/ TImage \/ TTool \/ TRead
TSpec == TInit /\ [][TNext0]_tv
Accepted == TLCGet("stats").diameter - 1 = Len(Tr)
====
