INIT Init
NEXT Next
CONSTANTS
 W = 64
 Sizes = {0, 11, 12, 15, 16, 17, 20, 30, 40, 63}
 FixF9 = TRUE
INVARIANT SafeInv
INVARIANT OutcomeInv
CHECK_DEADLOCK FALSE
