SPECIFICATION Spec
CONSTANTS MaxThreads = 1 NC = 2 Jobs = 2 Ordered = TRUE MaxSpurious = 0 Mixed = FALSE defaultInitValue = defaultInitValue
INVARIANT NoRace
CHECK_DEADLOCK FALSE
