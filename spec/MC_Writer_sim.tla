---- MODULE MC_Writer_sim ----
(* Behaviours of MC_Writer for replay on the real writer: tlc -simulate prints one HIST line per behaviour
   (configuration index, the add calls as <<key index, value length>>, and the model's verdict on each add). *)
EXTENDS MC_Writer
a == 97 b == 98
mcKeys == << <<>>, <<0>>, <<a>>, <<a,a>>, <<a,b>>, <<a,b,0>>, <<a,255>>, <<b>>, <<254,255>>, <<255>>, <<255,255>> >>
VARIABLE hist
SimInit == Init /\ hist = <<>>
SimNext == \E ki \in 1..Len(KeySeq), vl \in VLens :
              /\ DoAdd(ki, vl)
              /\ hist' = Append(hist, <<ki, vl, IF AddOk(w, KeySeq[ki]) THEN 1 ELSE 0, IF AddOk(w, KeySeq[ki]) /\ Cut(w, KeySeq[ki], vl) /\ w.data.buf > 0 THEN 1 ELSE 0>>)
SimSpec == SimInit /\ [][SimNext]_<<vars, hist>>
DumpHist == (n = MaxAdds) => PrintT(<<"HIST", cx, CfgSeq[cx].ri, CfgSeq[cx].prefix, hist>>)
====
