---- MODULE Trace_Codec ----
(* Trace validator for C15 (Codec.tla): every compression call (made in its own child process) ends in failure or in
   an output that decompresses to the input - never in an abort; names map to the documented identifiers, case does not
   matter, anything else is refused; at Done the required product (algorithm x content class x length 0..64) has been seen. *)
EXTENDS Codec, TLC, Json, IOUtils
Tr == ndJsonDeserialize(IOEnv.TRACE)
VARIABLES l, seen
tv == <<l, seen>>
Ev == Tr[l]
Is(e) == l <= Len(Tr) /\ Ev.e = e /\ l' = l + 1
TInit == l = 1 /\ seen = {}
Lower(s) == CASE s = "ZLIB" -> "zlib" [] s = "Zstd" -> "zstd" [] s = "LZ4HC" -> "lz4hc" [] s = "NONE" -> "none" [] OTHER -> s
TName == /\ Is("Name")
         /\ IF Lower(Ev.s) \in DOMAIN NameId THEN Ev.ok /\ Ev.id = NameId[Lower(Ev.s)] /\ Ev.back = Lower(Ev.s) ELSE ~Ev.ok
         /\ UNCHANGED seen
\* names as byte sequences (the harness tries every one-character neighbour of every name): ASCII letters fold, nothing else does
NameB == (<<110, 111, 110, 101>> :> 0) @@ (<<115, 110, 97, 112, 112, 121>> :> 1) @@ (<<122, 108, 105, 98>> :> 2)
         @@ (<<108, 122, 52>> :> 3) @@ (<<108, 122, 52, 104, 99>> :> 4) @@ (<<122, 115, 116, 100>> :> 5)
LowerB(sb) == [i \in 1..Len(sb) |-> IF sb[i] \in 65..90 THEN sb[i] + 32 ELSE sb[i]]
TNameB == /\ Is("NameB")
          /\ IF LowerB(Ev.sb) \in DOMAIN NameB THEN Ev.ok /\ Ev.id = NameB[LowerB(Ev.sb)] ELSE ~Ev.ok
          /\ UNCHANGED seen
TToStr == Is("ToStr") /\ Ev.s \in DOMAIN NameId /\ NameId[Ev.s] = Ev.id /\ UNCHANGED seen
TComp == /\ Is("Comp") /\ Ev.alg \in Algs /\ OutcomeOk(Ev.outcome, Ev.rt)
         /\ seen' = IF ~Ev.haslevel /\ Ev.n \in SmallLens THEN seen \cup {<<Ev.alg, Ev.class, Ev.n>>} ELSE seen
TDone == Is("Done") /\ Required \subseteq seen /\ UNCHANGED seen
TSpec == TInit /\ [][TName \/ TNameB \/ TToStr \/ TComp \/ TDone]_tv
Accepted == TLCGet("stats").diameter - 1 = Len(Tr)
====
