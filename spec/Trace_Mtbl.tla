---- MODULE Trace_Mtbl ----
(* Trace validator: every line of a log recorded from the real library (harness/mtbl_drv.c, one line per
   public call at its return, arguments and results) must be explained by an action of Mtbl.tla.
   TRACE=<file.ndjson> tlc -workers 1 -config Trace_Mtbl.cfg Trace_Mtbl.tla
   Accepted iff the search reaches line Len(Tr)+1 (POSTCONDITION Accepted); otherwise the depth reached is
   the number of the first line nothing explains. *)
EXTENDS Mtbl, Json, IOUtils, TLCExt

Tr == ndJsonDeserialize(IOEnv.TRACE)

VARIABLE l
tvars == <<vars, l>>

Ev == Tr[l]
Is(e) == l <= Len(Tr) /\ Ev.e = e /\ l' = l + 1
Has(f) == f \in DOMAIN Ev

Intact == IF Has("intact") THEN Ev.intact ELSE TRUE
TInit == Init /\ l = 1

TReset == /\ Is("Reset")
          /\ disk' = <<>> /\ wr' = <<>> /\ rd' = <<>> /\ us' = <<>> /\ mg' = <<>> /\ so' = <<>>
          /\ fs' = EmptyFs /\ it' = <<>> /\ pl' = <<>>

\* lines that carry no obligation for this specification (validated elsewhere or informational)
Ignored == {"Note", "Obs", "LeakCheck", "Spill", "MergeCall", "Exit", "PoolInit", "PoolDestroy", "Write"}
TIgnore == l <= Len(Tr) /\ Ev.e \in Ignored /\ l' = l + 1 /\ UNCHANGED vars

TMkOther  == Is("MkFile") /\ MkOther(Ev.path)
TMkTable  == Is("MkTable") /\ MkTable(Ev.path, Ev.ents)
TRm       == Is("Rm") /\ RmFile(Ev.path)

TWInit    == Is("WInit") /\ (IF Has("fd") /\ Ev.fd THEN Ev.ok /\ WInitFd(Ev.w, Ev.path, Ev.pool)
                                                  ELSE WInit(Ev.w, Ev.path, Ev.pool, Ev.ok))
TWAdd     == Is("WAdd") /\ WAdd(Ev.w, Ev.k, Ev.v, Ev.ok)
TWClose   == Is("WClose") /\ WClose(Ev.w)

TROpen    == Is("ROpen") /\ ROpen(Ev.r, Ev.path, Ev.ok)
TRDestroy == Is("RDestroy") /\ RDestroy(Ev.r)
TRMeta    == Is("RMeta") /\ RMetaOk(Ev.r, Ev.count_entries, Ev.bytes_keys, Ev.bytes_values) /\ UNCHANGED vars

TUInit    == Is("UInit") /\ UInit(Ev.u)
TUAdd     == Is("UAdd") /\ UAdd(Ev.u, Ev.k, Ev.v)
TUDestroy == Is("UDestroy") /\ UDestroy(Ev.u)
TMInit    == Is("MInit") /\ MInit(Ev.m, Ev.merge # 0, Ev.failtok, Ev.dupsort # 0)
TMAdd     == Is("MAdd") /\ MAdd(Ev.m, Ev.src)
TMDestroy == Is("MDestroy") /\ MDestroy(Ev.m)

TOpen     == Is("Open") /\ Open(Ev.i, Ev.src, Bound(Ev.kind, IF Has("k0") THEN Ev.k0 ELSE <<>>, IF Has("k1") THEN Ev.k1 ELSE <<>>), Ev.null)
TSeek     == Is("Seek") /\ Intact /\ Seek(Ev.i, Ev.k)
TNext     == Is("Next") /\ Intact          \* buffers handed out stayed intact until this call
                        /\ (IF Ev.ok THEN NextHit(Ev.i, Ev.k, Ev.v) ELSE NextMiss(Ev.i))
TClose    == Is("Close") /\ Intact /\ Close(Ev.i)
TSrcWrite == Is("SrcWrite") /\ SrcWrite(Ev.src, Ev.w, Ev.ok)

TNext0 == \/ TReset \/ TIgnore \/ TMkOther \/ TMkTable \/ TRm
          \/ TWInit \/ TWAdd \/ TWClose \/ TROpen \/ TRDestroy \/ TRMeta
          \/ TUInit \/ TUAdd \/ TUDestroy \/ TMInit \/ TMAdd \/ TMDestroy
          \/ TOpen \/ TSeek \/ TNext \/ TClose \/ TSrcWrite

TSpec == TInit /\ [][TNext0]_tvars

Accepted == TLCGet("stats").diameter - 1 = Len(Tr)
====
