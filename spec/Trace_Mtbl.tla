---- MODULE Trace_Mtbl ----
(* Trace validator: every line of a log recorded from the real library (harness/mtbl_drv.c, one line per
   public call at its return, arguments and results) must be explained by an action of Mtbl.tla.
   TRACE=<file.ndjson> tlc -workers 1 -config Trace_Mtbl.cfg Trace_Mtbl.tla
   Accepted iff the search reaches line Len(Tr)+1 (POSTCONDITION Accepted); otherwise the depth reached is
   the number of the first line nothing explains. *)
EXTENDS Mtbl, Json, IOUtils, TLCExt

Tr == ndJsonDeserialize(IOEnv.TRACE)

VARIABLES l, obase       \* obase: descriptors open at the first observation of the execution (-1 = none yet)
tvars == <<vars, l, obase>>

Ev == Tr[l]
Is(e) == l <= Len(Tr) /\ Ev.e = e /\ l' = l + 1
Has(f) == f \in DOMAIN Ev

Intact == IF Has("intact") THEN Ev.intact ELSE TRUE
TInit == Init /\ l = 1 /\ obase = -1

TReset == /\ Is("Reset")
          /\ disk' = <<>> /\ wr' = <<>> /\ rd' = <<>> /\ us' = <<>> /\ mg' = <<>> /\ so' = <<>>
          /\ fs' = EmptyFs /\ it' = <<>> /\ pl' = <<>> /\ judge' = {} /\ obase' = -1
\* {"e":"Judge","props":["C01",...]}: which properties this execution is judged for
TJudge == Is("Judge") /\ judge' = {Ev.props[i] : i \in 1..Len(Ev.props)} /\ UNCHANGED <<disk, wr, rd, us, mg, so, fs, it, pl>>

\* lines that carry no obligation for this specification (validated elsewhere or informational)
Ignored == {"Note", "Spill", "MergeCall", "Exit", "Write", "Sched"}
TIgnore == l <= Len(Tr) /\ Ev.e \in Ignored /\ l' = l + 1 /\ UNCHANGED vars

TMkOther  == (Is("MkFile") \/ Is("Symlink") \/ Is("Mkdir")) /\ MkOther(Ev.path, IF Has("h") THEN Ev.h ELSE "")
TMkTable  == Is("MkTable") /\ MkTable(Ev.path, Ev.ents)
TRm       == Is("Rm") /\ RmFile(Ev.path)

WCfg      == [bs |-> Ev.bs, ri |-> Ev.ri, prefix |-> Ev.prefix, comp |-> Ev.comp, pool |-> Ev.pool]
TWInit    == Is("WInit") /\ (IF Ev.fd THEN Ev.ok /\ WInitFd(Ev.w, Ev.path, WCfg)
                                      ELSE WInit(Ev.w, Ev.path, WCfg, Ev.ok))
TWAdd     == Is("WAdd") /\ WAdd(Ev.w, Ev.k, Ev.v, Ev.ok)
TWClose   == Is("WClose") /\ WClose(Ev.w)

TROpen    == Is("ROpen") /\ ROpen(Ev.r, Ev.path, Ev.ok)
TRDestroy == Is("RDestroy") /\ RDestroy(Ev.r)
TRMeta    == Is("RMeta") /\ Ev.r \in DOMAIN rd /\ StatsOk(rd[Ev.r].path, Ev)
TInfo     == Is("Info") /\ StatsOk(Ev.path, Ev)
\* toolok: exit status 0 and every -x line well-formed; quoted: the default mode printed the manual's rendering of the same entries
\* and -s printed nothing (both computed by the projection from the tool's three outputs)
TDump     == Is("Dump") /\ DumpOk(Ev.path, Ev.kp, Ev.vp, Ev.mink, Ev.minv, Ev.ents) /\ Ev.toolok /\ Ev.quoted
TFileStruct == Is("FileStruct") /\ FileStruct(Ev.path, Ev.S)
TFileHash == Is("FileHash") /\ FileHash(Ev.path, Ev.h, Ev.exists)
TAbsent   == Is("Absent") /\ ~Ev.exists /\ MkAbsent(Ev.path)

TUInit    == Is("UInit") /\ UInit(Ev.u)
TUAdd     == Is("UAdd") /\ UAdd(Ev.u, Ev.k, Ev.v)
TUDestroy == Is("UDestroy") /\ UDestroy(Ev.u)
TMInit    == Is("MInit") /\ MInit(Ev.m, Ev.merge # 0, Ev.failtok, Ev.dupsort # 0, Ev.mc)
TMAdd     == Is("MAdd") /\ MAdd(Ev.m, Ev.src)
TMDestroy == Is("MDestroy") /\ MDestroy(Ev.m)

TBound    == Bound(Ev.kind, IF Has("k0") THEN Ev.k0 ELSE <<>>, IF Has("k1") THEN Ev.k1 ELSE <<>>)
TFsOpen   == Is("Open") /\ Ev.src.t = "f" /\ FsOpen(Ev.i, Ev.src.n, TBound, Ev.null)
TFsClose  == Is("Close") /\ Intact /\ FsClose(Ev.i)
TClock    == Is("Clock") /\ ClockSet(Ev.t)
TSetFile  == Is("SetFile") /\ SetFileWrite(Ev.path, Ev.mtime, Ev.abs, Ev.bcs)
THOpts(set) == HOpts(set, Ev.interval, Ev.merge # 0, Ev.dupsort # 0, Ev.fnfilter, Ev.rdfilter)
TFsInit   == Is("FsInit") /\ FsInit(Ev.f, Ev.setfile, THOpts(Ev.setfile))
TFsDup    == Is("FsDup") /\ Ev.orig \in DOMAIN fs.h /\ FsDup(Ev.f, Ev.orig, THOpts(fs.h[Ev.orig].set))
TFsReload == Is("FsReload") /\ FsReload(Ev.f)
TFsReloadNow == Is("FsReloadNow") /\ FsReloadNow(Ev.f)
TFsDestroy == Is("FsDestroy") /\ FsDestroy(Ev.f)
TFsPartition == Is("FsPartition") /\ FsPartition(Ev.f, Ev.chars, Ev.m1, Ev.m2, Ev.mc)
TOpen     == Is("Open") /\ Ev.src.t # "f" /\ Open(Ev.i, Ev.src, Bound(Ev.kind, IF Has("k0") THEN Ev.k0 ELSE <<>>, IF Has("k1") THEN Ev.k1 ELSE <<>>), Ev.null)
TSeek     == Is("Seek") /\ Intact /\ Seek(Ev.i, Ev.k)
TNext     == Is("Next") /\ Intact          \* buffers handed out stayed intact until this call
                        /\ (IF Ev.ok THEN NextHit(Ev.i, Ev.k, Ev.v, IF Has("calls") THEN Ev.calls ELSE <<>>) ELSE NextMiss(Ev.i))
TClose    == Is("Close") /\ Intact /\ Close(Ev.i)
\* C11, blocks above 4 GiB: the restart array switches to 64-bit offsets (block_builder.c / block.c round trip, harness/bigblock.c)
TBigBlock == /\ Is("BigBlock")
             /\ IF Has("skipped") THEN TRUE
                ELSE Ev.wide /\ Ev.seen = Ev.n /\ Ev.content_ok /\ Ev.seek_ok /\ Ev.estimate_matches /\ Ev.restarts = (Ev.n + Ev.ri - 1) \div Ev.ri
             /\ UNCHANGED vars
TMergeTool == Is("MergeTool") /\ MergeTool(Ev.inputs, Ev.out, Ev.rc = 0)
TSrcWrite == Is("SrcWrite") /\ SrcWrite(Ev.src, Ev.w, Ev.ok)
Spills    == IF Has("spills") THEN Ev.spills ELSE <<>>
TSInit    == Is("SInit") /\ SInit(Ev.s, Ev.maxmem, Ev.tmpdir, Ev.merge # 0, Ev.failtok, Ev.pool)
TSAdd     == Is("SAdd") /\ SAdd(Ev.s, Ev.k, Ev.v, Ev.ok, Spills)
TSIter    == Is("SIter") /\ SIter(Ev.s, Ev.i, Ev.null, Spills)
TSWrite   == Is("SWrite") /\ SWrite(Ev.s, Ev.w, Ev.ok, Spills)
TSDestroy == Is("SDestroy") /\ SDestroy(Ev.s)
\* process-level observations judged by the resource ledger (C18): open descriptors, mappings of test files, threads,
\* visible temporary files after each step; LeakSanitizer's verdict once every object is destroyed
TObs      == /\ Is("Obs")
             /\ IF obase = -1 THEN obase' = Ev.fds
                ELSE /\ obase' = obase
                     /\ "C18" \in judge => LedgerOk(Ev.fds - obase, Ev.maps, Ev.threads, Ev.tmpfiles)
             /\ UNCHANGED vars
TLeak     == Is("LeakCheck") /\ ("C18" \in judge => (Quiescent /\ Ev.leaks = 0)) /\ UNCHANGED <<vars, obase>>
TPoolInit == Is("PoolInit") /\ PoolInit(Ev.p, Ev.n)
TPoolDestroy == Is("PoolDestroy") /\ PoolDestroy(Ev.p)

TApi == \/ TJudge \/ TIgnore \/ TInfo \/ TDump \/ TFileStruct \/ TFileHash \/ TAbsent \/ TMkOther \/ TMkTable \/ TRm
        \/ TWInit \/ TWAdd \/ TWClose \/ TROpen \/ TRDestroy \/ TRMeta
        \/ TUInit \/ TUAdd \/ TUDestroy \/ TMInit \/ TMAdd \/ TMDestroy
        \/ TOpen \/ TSeek \/ TNext \/ TClose \/ TSrcWrite \/ TMergeTool \/ TBigBlock
        \/ TFsOpen \/ TFsClose \/ TClock \/ TSetFile \/ TFsInit \/ TFsDup \/ TFsReload \/ TFsReloadNow \/ TFsDestroy \/ TFsPartition
        \/ TSInit \/ TSAdd \/ TSIter \/ TSWrite \/ TSDestroy \/ TPoolInit \/ TPoolDestroy
TNext0 == TReset \/ TObs \/ TLeak \/ (TApi /\ UNCHANGED obase)

TSpec == TInit /\ [][TNext0]_tvars

Accepted == TLCGet("stats").diameter - 1 = Len(Tr)
====
