---- MODULE Trace_Block ----
(* Code -> TLC for the block layer (mtbl/block_builder.c, mtbl/block.c), driven directly by harness/block_drv.c:
   every call of the block iterator - seek_to_first, seek_to_last, seek, next, prev - on blocks built by the real
   builder must leave the iterator where the implementation-shaped operators of Reader.tla put it (MC_Block shows that
   those refine the abstract cursor), and the builder's size estimate, its finished size and its emptiness test must
   follow the encoding: per entry three varints + unshared key bytes + value, a restart entry every ri entries,
   4 bytes per restart point + 4. *)
EXTENDS Reader, Json, IOUtils, Sequences
Tr == ndJsonDeserialize(IOEnv.TRACE)
VARIABLES l, K, V, R, bi
Ev == Tr[l]
Is(e) == l <= Len(Tr) /\ Ev.e = e /\ l' = l + 1
Rst(n, ri) == IF n = 0 THEN <<1>> ELSE [j \in 1..((n + ri - 1) \div ri) |-> 1 + (j - 1) * ri]
Shared(keys, ri, i) == IF (i - 1) % ri = 0 THEN 0 ELSE Lcp(keys[i - 1], keys[i])
EntSize(keys, vals, ri, i) == LET s == Shared(keys, ri, i) ns == Len(keys[i]) - s IN
                              VarLen(s) + VarLen(ns) + VarLen(Len(vals[i])) + ns + Len(vals[i])
RECURSIVE EntSum(_,_,_,_)
EntSum(keys, vals, ri, i) == IF i = 0 THEN 0 ELSE EntSize(keys, vals, ri, i) + EntSum(keys, vals, ri, i - 1)
BlockSize(keys, vals, ri) == EntSum(keys, vals, ri, Len(keys)) + 4 * Len(Rst(Len(keys), ri)) + 4
TInit == l = 1 /\ K = <<>> /\ V = <<>> /\ R = <<1>> /\ bi = BiInit(<<>>, <<1>>)
TBlock == /\ Is("BBlock")
          /\ \A i \in 1..(Len(Ev.keys) - 1) : Lt(Ev.keys[i], Ev.keys[i + 1])        \* the driver's own obligation
          /\ Ev.empty0 /\ Ev.est0 = 8                                               \* a new or reset builder: one restart point
          /\ Ev.empty1 = (Len(Ev.keys) = 0)
          /\ Ev.est = BlockSize(Ev.keys, Ev.vals, Ev.ri) /\ Ev.size = Ev.est
          /\ K' = Ev.keys /\ V' = Ev.vals /\ R' = Rst(Len(Ev.keys), Ev.ri) /\ bi' = BiInit(Ev.keys, Rst(Len(Ev.keys), Ev.ri))
Res(b) == /\ Ev.valid = BiValid(K, b) /\ Ev.got = Ev.valid
          /\ Ev.valid => Ev.k = K[b.cur] /\ Ev.v = V[b.cur]
TNew == Is("BNew") /\ bi' = BiInit(K, R) /\ Res(BiInit(K, R)) /\ UNCHANGED <<K, V, R>>
TOp == /\ Is("BOp")
       /\ Ev.op = "prev" => BiValid(K, bi)
       /\ LET b == CASE Ev.op = "first" -> SeekToFirst(K, R, bi)
                     [] Ev.op = "last" -> SeekToLast(K, R, bi)
                     [] Ev.op = "seek" -> BiSeek(K, R, bi, Ev.t)
                     [] Ev.op = "next" -> BiNext(K, R, bi)
                     [] Ev.op = "prev" -> BiPrev(K, R, bi)
          IN bi' = b /\ Res(b) /\ (Ev.op = "next" => Ev.ret = BiValid(K, b))
       /\ UNCHANGED <<K, V, R>>
TSpec == TInit /\ [][TBlock \/ TNew \/ TOp]_<<l, K, V, R, bi>>
Accepted == TLCGet("stats").diameter - 1 = Len(Tr)
====
