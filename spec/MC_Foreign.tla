---- MODULE MC_Foreign ----
(* C11: every well-formed MTBL file is readable, not only the ones today's writer emits.
   The file format as a *generator*: for a fixed logical table (KeySeq, strictly increasing) this machine builds,
   entry by entry, any legal encoding - block partition, restart positions (any set containing the first entry
   of a block), amount of prefix sharing (anything up to the common prefix, none at restarts), index separators
   anywhere in [last key of block, first key of next block) and any key >= the last key for the final block,
   format version, compression, leading foreign bytes. When the structure is complete:
     - Readable: the implementation-shaped reader (Reader.tla) iterates exactly the logical table over it;
     - tlc -simulate prints it (FOREIGN line) for the reference encoder to materialise and the real reader to read. *)
EXTENDS Reader, Sequences, FiniteSets, Json
CONSTANTS KeySeq,         \* the logical table's keys, strictly increasing
          Versions, Comps, PrefixLens
N == Len(KeySeq)
VARIABLES pos,    \* entries placed
          blks,   \* finished blocks: [first, last (entry numbers), rst (restart entry numbers, relative, 1-based), share (per entry), sep]
          cur,    \* block under construction: same fields without sep; first = 0 when empty
          meta    \* [version, comp, prefix]
fvars == <<pos, blks, cur, meta>>
Empty == [first |-> 0, last |-> 0, rst |-> <<>>, share |-> <<>>]
Init == /\ pos = 0 /\ blks = <<>> /\ cur = Empty
        /\ \E v \in Versions, c \in Comps, p \in PrefixLens : meta = [version |-> v, comp |-> c, prefix |-> p]
Place == /\ pos < N
         /\ LET e == pos + 1 IN
            IF cur.first = 0
            THEN cur' = [first |-> e, last |-> e, rst |-> <<1>>, share |-> <<0>>]
            ELSE \E restart \in BOOLEAN :
                   LET rel == e - cur.first + 1 IN
                   IF restart THEN cur' = [cur EXCEPT !.last = e, !.rst = Append(@, rel), !.share = Append(@, 0)]
                   ELSE \E s \in 0..Lcp(KeySeq[e - 1], KeySeq[e]) : cur' = [cur EXCEPT !.last = e, !.share = Append(@, s)]
         /\ pos' = pos + 1 /\ UNCHANGED <<blks, meta>>
\* separators: the legal interval is [last, nextfirst); a few representative points of it
SepChoices(lastk, nextk) == {s \in {lastk, lastk \o <<0>>, Sep(lastk, nextk), SubSeq(nextk, 1, Len(nextk) - 1), lastk \o <<255>>} :
                               Le(lastk, s) /\ Lt(s, nextk)}
FinalSepChoices(lastk) == {lastk, lastk \o <<0>>, lastk \o <<255, 255>>, <<255, 255, 255, 255>>}
Cut == /\ cur.first # 0
       /\ \E s \in (IF pos < N THEN SepChoices(KeySeq[cur.last], KeySeq[cur.last + 1]) ELSE {x \in FinalSepChoices(KeySeq[cur.last]) : Le(KeySeq[cur.last], x)}) :
             blks' = Append(blks, [first |-> cur.first, last |-> cur.last, rst |-> cur.rst, share |-> cur.share, sep |-> s])
       /\ cur' = Empty /\ UNCHANGED <<pos, meta>>
Done == pos = N /\ cur.first = 0
Next == Place \/ Cut
Spec == Init /\ [][Next]_fvars

\* the structure as Reader.tla sees it (offsets: any distinct increasing numbers; the encoder decides the real ones)
AsF == [keys |-> [b \in 1..Len(blks) |-> SubSeq(KeySeq, blks[b].first, blks[b].last)],
        rst  |-> [b \in 1..Len(blks) |-> blks[b].rst],
        seps |-> [b \in 1..Len(blks) |-> blks[b].sep],
        irst |-> <<1>>,
        offs |-> [b \in 1..Len(blks) |-> 1000 * b]]
RECURSIVE Drain(_,_,_)
Drain(F, it, fuel) == IF fuel = 0 THEN <<>> ELSE
                      LET r == ReaderNext(F, it) IN IF r[2] THEN <<F.keys[r[3]][r[4]]>> \o Drain(F, r[1], fuel - 1) ELSE <<>>
Readable == Done => (IF N = 0 THEN TRUE ELSE Drain(AsF, ReaderIter(AsF), N + 2) = KeySeq)
Dump == Done => PrintT(<<"FOREIGN", ToJson([meta |-> meta, blks |-> blks])>>)
====
