---- MODULE Checksum ----
(* C12. Blocks carry the CRC-32C of their stored bytes; mtbl_verify checks every data block and (through the reader it
   opens with verify_checksums) the index block; a reader with verify_checksums checks a block when it loads it.
   The model: a file of NB data blocks plus the index block (block 0); one corruption scenario (which block, whether
   the damage is in the payload or in the checksum field, which detectable class); an access path, executed as a
   sequence of block loads and entry returns. Assumption Detects: CRC-32C detects every pattern of the classes
   considered (1-3 flipped bits, bursts up to 32 bits, at these block lengths), so a damaged block never verifies.
   Invariants: an entry of the damaged block is never returned by a verifying reader (the process stops at the load),
   and the verify tool never reports OK for a damaged file. TLC enumerates scenario x path x key. *)
EXTENDS Integers, Sequences, FiniteSets, TLC
CONSTANTS NB                 \* number of data blocks (1..NB); the index is block 0
Classes == {"bit1", "bit2", "bit3", "burst"}
Regions == {"payload", "crc"}
Paths == {"open", "iterate", "get", "seek", "verifytool"}
Detects(class) == TRUE
VARIABLES bad,        \* damaged block (0 = index, 1..NB data, -1 = intact file)
          region, class, path, target,   \* target: the data block holding the key for get / seek
          pc, cur, returned, status, toolOK
vars == <<bad, region, class, path, target, pc, cur, returned, status, toolOK>>
Init == /\ bad \in (-1)..NB /\ region \in Regions /\ class \in Classes /\ path \in Paths /\ target \in 1..NB
        /\ pc = "start" /\ cur = 0 /\ returned = {} /\ status = "running" /\ toolOK = FALSE
Damaged(b) == b = bad /\ Detects(class)
\* loading block b with checksum verification: stops the process if the block is damaged
Load(b, nextpc) == IF Damaged(b) THEN status' = "stopped" /\ UNCHANGED <<pc, cur, returned>>
                                 ELSE pc' = nextpc /\ cur' = b /\ UNCHANGED <<status, returned>>
OpenStep == /\ pc = "start" /\ status = "running" /\ path # "verifytool"
            /\ Load(0, IF path = "open" THEN "done" ELSE "opened")           \* mtbl_reader_init_fd verifies the index block
            /\ UNCHANGED toolOK
FirstLoad == /\ pc = "opened" /\ status = "running"
             /\ Load(IF path = "iterate" THEN 1 ELSE target, "inblock") /\ UNCHANGED toolOK
Return == /\ pc = "inblock" /\ status = "running"
          /\ returned' = returned \cup {cur}
          /\ IF path = "get" \/ cur = NB THEN pc' = "done" ELSE pc' = "advance"
          /\ UNCHANGED <<cur, status, toolOK>>
Advance == pc = "advance" /\ status = "running" /\ Load(cur + 1, "inblock") /\ UNCHANGED toolOK
\* mtbl_verify: opens the file with verify_checksums (index block), then checks the CRC of every data block
Tool == /\ pc = "start" /\ path = "verifytool" /\ status = "running"
        /\ toolOK' = ~(\E b \in 0..NB : Damaged(b))
        /\ pc' = "done" /\ UNCHANGED <<cur, returned, status>>
Next == (OpenStep \/ FirstLoad \/ Return \/ Advance \/ Tool) /\ UNCHANGED <<bad, region, class, path, target>>
Spec == Init /\ [][Next]_vars
NeverReturnsDamaged == bad \notin returned
ToolNeverOKWhenDamaged == (toolOK => bad = -1)
IntactReadsAll == (bad = -1 /\ path = "iterate" /\ pc = "done") => returned = 1..NB
StopsWhenReached == (status = "stopped") => bad >= 0
====
