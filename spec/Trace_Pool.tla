---- MODULE Trace_Pool ----
(* Trace validator for C13: executions of the real thread pool (threadpool.c under the deterministic scheduler, or
   pooled writers / sorters) against PoolAbs.tla, plus the process-level observations the property names: the
   scheduler's verdict (deadlock = no thread enabled), the number of live threads, and for pooled writers whether the
   file is byte-identical to the one written without a pool. *)
EXTENDS PoolAbs, TLC, Json, IOUtils
Tr == ndJsonDeserialize(IOEnv.TRACE)
VARIABLES l, nclients, ncallers
tv == <<pvars, l, nclients, ncallers>>
Ev == Tr[l]
Is(e) == l <= Len(Tr) /\ Ev.e = e /\ l' = l + 1
TInit == PInit /\ l = 1 /\ nclients = 0 /\ ncallers = 1
TReset == /\ Is("Reset") /\ submitted' = <<>> /\ started' = {} /\ ended' = {} /\ delivered' = <<>> /\ workers' = {} /\ closed' = {}
          /\ UNCHANGED <<maxw, ordered, nclients, ncallers>>
TCfg == /\ Is("Cfg") /\ maxw' = Ev.max /\ ordered' = {Ev.ordc[i] : i \in DOMAIN Ev.ordc} /\ nclients' = Ev.clients /\ ncallers' = Ev.callers
        /\ UNCHANGED <<submitted, started, ended, delivered, workers, closed>>
TDispatch == Is("Dispatch") /\ Dispatch(Ev.c, Ev.j) /\ UNCHANGED <<nclients, ncallers>>
TJobStart == Is("JobStart") /\ JobStart(Ev.j, Ev.w) /\ UNCHANGED <<nclients, ncallers>>
TJobEnd == Is("JobEnd") /\ JobEnd(Ev.j, Ev.w) /\ UNCHANGED <<nclients, ncallers>>
TDeliver == Is("Deliver") /\ Deliver(Ev.c, Ev.j) /\ UNCHANGED <<nclients, ncallers>>
TClosed == Is("Closed") /\ Close(Ev.c) /\ UNCHANGED <<nclients, ncallers>>
\* pool destroyed: every client closed; never more live threads than workers + one handler per client (+ the caller
\* threads other than the main thread, when every client has its own)
TDestroyed == /\ Is("PoolDestroyed") /\ closed = 1..nclients /\ Ev.maxlive <= maxw + nclients + (ncallers - 1)
              /\ UNCHANGED <<pvars, nclients, ncallers>>
\* a pooled writer finished: the file is byte-identical to the one written without a pool, the run ended normally
TFileSame == Is("FileSame") /\ Ev.same /\ Ev.exit = "ok" /\ Ev.maxlive <= Ev.max + 1 /\ UNCHANGED <<pvars, nclients, ncallers>>
\* "Deadlock" (the scheduler found no enabled thread) and abnormal endings have no action: they are violations
\* replay of a model behaviour's lock order: how much of it the real code consumed is coverage information, not a verdict
TLockOrder == Is("LockOrder") /\ UNCHANGED <<pvars, nclients, ncallers>>
TNext0 == TLockOrder \/ TReset \/ TCfg \/ TDispatch \/ TJobStart \/ TJobEnd \/ TDeliver \/ TClosed \/ TDestroyed \/ TFileSame
TSpec == TInit /\ [][TNext0]_tv
Accepted == TLCGet("stats").diameter - 1 = Len(Tr)
====
