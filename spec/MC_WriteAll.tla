---- MODULE MC_WriteAll ----
EXTENDS WriteAll
mcBufs == <<1, 4, 3, 5, 2>>
====
