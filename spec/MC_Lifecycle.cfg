SPECIFICATION Spec
CONSTANT MaxOps = 8
INVARIANT Released
INVARIANT WellFormed
CHECK_DEADLOCK FALSE
VIEW NoHistView
