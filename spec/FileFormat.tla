---- MODULE FileFormat ----
(* What makes a decoded file a well-formed MTBL v2 file as the writer is promised to produce it (C09), and what
   its trailer must say (C10). The input is the structure an independent decoder (lib/vf/refcodec.py) extracted
   from the bytes:
     S = [size, prefix_ok, comp, version,
          blocks : Seq([off, lenlen, stored, crcok, clen, restarts : Seq(Nat),
                        entries : Seq([off, shared, ns, vlen, k, v])]),
          index  : [off, lenlen, stored, crcok, clen, restarts, entries : Seq([off, shared, ns, vlen, k, boff])],
          trailer : [index_block_offset, ..., bytes_values, padzero, magic]]
   clen is the length of the block's contents (after decompression), stored the number of bytes on disk after
   the length prefix and checksum. cfg = [bs, ri, prefix, comp] is the writer's configuration (bs already clamped). *)
EXTENDS Bytes, TLC

EntryBytes(e) == VarLen(e.shared) + VarLen(e.ns) + VarLen(e.vlen) + e.ns + e.vlen
NB(S) == Len(S.blocks)
OnDisk(b) == b.lenlen + 4 + b.stored
SumOf(s) == FoldLeft(LAMBDA a, b : a + b, 0, s)

\* data blocks contiguous from the initial offset (bytes before it untouched), index right after them, then the trailer
Contiguous(S, cfg) ==
    /\ S.prefix_ok
    /\ NB(S) > 0 => S.blocks[1].off = cfg.prefix
    /\ \A i \in 1..NB(S) - 1 : S.blocks[i + 1].off = S.blocks[i].off + OnDisk(S.blocks[i])
    /\ S.index.off = (IF NB(S) = 0 THEN cfg.prefix ELSE S.blocks[NB(S)].off + OnDisk(S.blocks[NB(S)]))
    /\ S.size = S.index.off + OnDisk(S.index) + 512
\* length prefix is the canonical varint of the stored length, checksum is the CRC-32C of the stored bytes
Framing(S) == /\ \A i \in 1..NB(S) : S.blocks[i].crcok /\ S.blocks[i].lenlen = VarLen(S.blocks[i].stored)
              /\ S.index.crcok /\ S.index.lenlen = VarLen(S.index.stored) /\ S.index.stored = S.index.clen
\* inside a block: entries packed from offset 0; restart points exactly every ri entries; full common prefix elided in between
BlockOk(b, ri) ==
    LET n == Len(b.entries) nr == IF n = 0 THEN 1 ELSE (n + ri - 1) \div ri IN
    /\ n >= 1 => b.entries[1].off = 0
    /\ \A j \in 1..n - 1 : b.entries[j + 1].off = b.entries[j].off + EntryBytes(b.entries[j])
    /\ Len(b.restarts) = nr
    /\ \A r \in 1..nr : b.restarts[r] = (IF n = 0 THEN 0 ELSE b.entries[(r - 1) * ri + 1].off)
    /\ \A j \in 1..n : b.entries[j].shared = (IF (j - 1) % ri = 0 THEN 0 ELSE Lcp(b.entries[j - 1].k, b.entries[j].k))
    /\ \A j \in 1..n : b.entries[j].ns = Len(b.entries[j].k) - b.entries[j].shared
    /\ b.clen = (IF n = 0 THEN 0 ELSE b.entries[n].off + EntryBytes(b.entries[n])) + 4 * nr + 4
\* one index entry per block: value = block offset, key in [last key of block, first key of next block)
IndexOk(S) == /\ Len(S.index.entries) = NB(S)
              /\ \A i \in 1..NB(S) :
                    LET es == S.blocks[i].entries ie == S.index.entries[i] IN
                    /\ Len(es) >= 1
                    /\ ie.boff = S.blocks[i].off
                    /\ Le(es[Len(es)].k, ie.k)
                    /\ i < NB(S) => Lt(ie.k, S.blocks[i + 1].entries[1].k)
\* a multi-entry block stays below the block size; a block was closed only when the next entry (15 bytes of
\* header allowed) would have brought it to the block size
SizeOk(S, cfg) ==
    /\ \A i \in 1..NB(S) : Len(S.blocks[i].entries) > 1 => S.blocks[i].clen < cfg.bs
    /\ \A i \in 1..NB(S) - 1 : LET nx == S.blocks[i + 1].entries[1] IN S.blocks[i].clen + 15 + Len(nx.k) + nx.vlen >= cfg.bs
\* content: exactly the accepted entries, in order (t: sequence of [k, v])
AllEntries(S) == FlattenSeq([i \in 1..NB(S) |-> [j \in 1..Len(S.blocks[i].entries) |->
                                 [k |-> S.blocks[i].entries[j].k, v |-> S.blocks[i].entries[j].v]]])
ContentOk(S, t) == AllEntries(S) = t
\* zero padding, magic, version, and the pointer fields a reader needs
TrailerFormOk(S, cfg) == LET tr == S.trailer IN
    /\ tr.padzero /\ tr.magic = "MTBL" /\ S.version = 2
    /\ tr.index_block_offset = S.index.off
    /\ tr.compression_algorithm = cfg.comp
\* C10: the trailer tells the truth (vl(v): length of a logged value)
TrailerTruth(S, t, cfg, vl(_)) == LET tr == S.trailer IN
    /\ tr.index_block_offset = S.index.off /\ tr.data_block_size = cfg.bs /\ tr.compression_algorithm = cfg.comp
    /\ tr.count_entries = Len(t) /\ tr.count_data_blocks = NB(S)
    /\ tr.bytes_data_blocks = SumOf([i \in 1..NB(S) |-> OnDisk(S.blocks[i])])
    /\ tr.bytes_index_block = OnDisk(S.index)
    /\ tr.bytes_keys = SumOf([i \in 1..Len(t) |-> Len(t[i].k)])
    /\ tr.bytes_values = SumOf([i \in 1..Len(t) |-> vl(t[i].v)])

Verdict(S, t, cfg) ==
    [contiguous |-> Contiguous(S, cfg), framing |-> Framing(S),
     blocks |-> (\A i \in 1..NB(S) : BlockOk(S.blocks[i], cfg.ri)) /\ BlockOk(S.index, cfg.ri),
     index |-> IndexOk(S), size |-> SizeOk(S, cfg), content |-> ContentOk(S, t), trailer |-> TrailerFormOk(S, cfg)]
WellFormed(S, t, cfg) == LET v == Verdict(S, t, cfg) IN
    v.contiguous /\ v.framing /\ v.blocks /\ v.index /\ v.size /\ v.content /\ v.trailer
====
