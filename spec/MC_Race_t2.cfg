SPECIFICATION Spec
CONSTANTS MaxThreads = 2 NC = 1 Jobs = 3 Ordered = FALSE MaxSpurious = 0 Mixed = FALSE defaultInitValue = defaultInitValue
INVARIANT NoRace
CHECK_DEADLOCK FALSE
