---- MODULE MC_Sorter ----
EXTENDS Sorter
mcKeyLens == <<0, 1, 2, 5>>
====
