---- MODULE PoolAbs ----
(* C13, abstract layer: what clients of the thread pool may rely on. Several clients (a result handler each) share one
   pool. A job is submitted by a dispatch call, runs once on some worker, and its result is delivered exactly once to
   its client's callback, only after the job ran, in submission order where ordering was requested; closing a client
   returns only after every result of that client was delivered; the pool never runs more workers than its maximum. *)
EXTENDS Integers, Sequences, FiniteSets
VARIABLES maxw, ordered,   \* configuration of the pool under observation (set per execution)
          submitted,   \* client -> sequence of job ids in dispatch order
          started, ended,    \* sets of job ids
          delivered,   \* client -> sequence of job ids in callback order
          workers,     \* worker thread ids that have run jobs
          closed       \* set of clients closed
pvars == <<maxw, ordered, submitted, started, ended, delivered, workers, closed>>
Range(s) == {s[i] : i \in 1..Len(s)}
SeqOf(f, c) == IF c \in DOMAIN f THEN f[c] ELSE <<>>
Put(f, c, v) == [x \in DOMAIN f \cup {c} |-> IF x = c THEN v ELSE f[x]]
AllSubmitted == UNION {Range(submitted[c]) : c \in DOMAIN submitted}
PInit == maxw = 0 /\ ordered = {} /\ submitted = <<>> /\ started = {} /\ ended = {} /\ delivered = <<>> /\ workers = {} /\ closed = {}
Dispatch(c, j) == /\ c \notin closed /\ j \notin AllSubmitted
                  /\ submitted' = Put(submitted, c, Append(SeqOf(submitted, c), j))
                  /\ UNCHANGED <<started, ended, delivered, workers, closed, maxw, ordered>>
JobStart(j, w) == /\ j \in AllSubmitted /\ j \notin started                       \* runs once, only after it was submitted
                  /\ started' = started \cup {j}
                  /\ workers' = workers \cup {w} /\ Cardinality(workers') <= maxw
                  /\ UNCHANGED <<submitted, ended, delivered, closed, maxw, ordered>>
JobEnd(j, w) == j \in started /\ j \notin ended /\ ended' = ended \cup {j} /\ UNCHANGED <<submitted, started, delivered, workers, closed, maxw, ordered>>
Deliver(c, j) == /\ j \in ended /\ j \in Range(SeqOf(submitted, c))                 \* only after the job ran, to its own client
                 /\ j \notin Range(SeqOf(delivered, c))                             \* exactly once
                 /\ (c \in ordered) => j = submitted[c][Len(SeqOf(delivered, c)) + 1]        \* in submission order
                 /\ delivered' = Put(delivered, c, Append(SeqOf(delivered, c), j))
                 /\ UNCHANGED <<submitted, started, ended, workers, closed, maxw, ordered>>
Close(c) == /\ c \notin closed /\ Range(SeqOf(delivered, c)) = Range(SeqOf(submitted, c))    \* returns only after every result was delivered
            /\ closed' = closed \cup {c} /\ UNCHANGED <<submitted, started, ended, delivered, workers, maxw, ordered>>
====
