---- MODULE Table ----
(* Abstract layer: what a user may rely on when reading a source (C01 C02 C03 C05 C11).
   A table is a sequence of entries [k |-> key, v |-> value] in ascending key order. Tables of readers and
   of mergers with a merge function are strictly increasing; a merger without a merge function presents every
   source entry, so keys can repeat: the order inside a run of equal keys is then free unless a dupsort
   function fixes it (the table is kept in (key, value) order, `ord` says whether that order is promised).
   Keys and values are sequences of integers. Nothing here recurses over the table. *)
EXTENDS Bytes, FiniteSets

Sorted(t) == \A i \in 1..Len(t) - 1 : Le(t[i].k, t[i+1].k)
Strict(t) == \A i \in 1..Len(t) - 1 : Lt(t[i].k, t[i+1].k)

\* entry order used as canonical order of tables with repeated keys
EntLt(a, b) == LET c == Cmp(a.k, b.k) IN c < 0 \/ (c = 0 /\ Cmp(a.v, b.v) < 0)

\* bounds of the four iterator kinds: b = [kind, k0, k1]
InBound(b, k) == CASE b.kind = "iter"   -> TRUE
                   [] b.kind = "get"    -> k = b.k0
                   [] b.kind = "prefix" -> HasPrefix(k, b.k0)
                   [] b.kind = "range"  -> Le(b.k0, k) /\ Le(k, b.k1)
Start(b) == IF b.kind = "iter" THEN <<>> ELSE b.k0      \* a seek is only promised for targets >= Start(b)

\* index of the first entry with key >= key, Len(t) + 1 if none
LowerBound(t, key) == LET i == SelectInSeq([j \in 1..Len(t) |-> Le(key, t[j].k)], LAMBDA x : x)
                      IN IF i = 0 THEN Len(t) + 1 ELSE i

\* indices of the run of equal keys that contains index p
Group(t, p) == {j \in 1..Len(t) : t[j].k = t[p].k}

(* cursor: t table snapshot, ord whether the order inside runs of equal keys is promised, b bound,
   pos number of entries consumed + 1 (in canonical order), done sticky failure, em indices of the current
   run already handed out (only used when ~ord) *)
OpenCursor(t, ord, b) == [t |-> t, ord |-> ord, b |-> b, pos |-> LowerBound(t, Start(b)), done |-> FALSE, em |-> {}]
SeekCursor(c, key)    == [c EXCEPT !.pos = LowerBound(c.t, key), !.done = FALSE, !.em = {}]     \* precondition Le(Start(c.b), key)
NextOk(c)             == ~c.done /\ c.pos <= Len(c.t) /\ InBound(c.b, c.t[c.pos].k)

\* the set of cursors that explain a successful next returning (k, v); empty if nothing explains it
NextTo(c, k, v) ==
    IF ~NextOk(c) \/ c.t[c.pos].k # k THEN {}
    ELSE LET cand == IF c.ord THEN {c.pos} ELSE Group(c.t, c.pos) \ c.em
             adv(j) == LET np == c.pos + 1
                           same == np <= Len(c.t) /\ c.t[np].k = k
                       IN [c EXCEPT !.pos = np, !.em = IF same /\ ~c.ord THEN c.em \cup {j} ELSE {}]
         IN {adv(j) : j \in {i \in cand : c.t[i].v = v}}
FailNext(c) == [c EXCEPT !.done = TRUE]

\* everything a fresh cursor yields before it fails: the maximal in-bound run starting at its position (C02)
Lookup(t, b) == LET p == LowerBound(t, Start(b))
                    stop == SelectInSeq([j \in 1..Len(t) |-> j >= p /\ ~InBound(b, t[j].k)], LAMBDA x : x)
                IN SubSeq(t, p, IF stop = 0 THEN Len(t) ELSE stop - 1)

\* -------- merged content (C04 C05 C06 C07): tabs is a sequence of tables
Concat(tabs) == FlattenSeq(tabs)
AllSorted(tabs) == SortSeq(Concat(tabs), EntLt)

\* values as token bags: a value is a sequence of bytes holding 2-byte big-endian tokens in ascending order
Tokens(v) == [i \in 1..(Len(v) \div 2) |-> v[2*i - 1] * 256 + v[2*i]]
TokBytes(ts) == FlattenSeq([i \in 1..Len(ts) |-> <<ts[i] \div 256, ts[i] % 256>>])
\* fold of the merge function, any order: bag union, except that tokens from 32768 on cancel in pairs (only the parity of their
\* number survives) - associative and commutative all the same, and a merged value can be shorter than its operands, or empty
TokUnion(vs) == LET all == SortSeq(FlattenSeq([i \in 1..Len(vs) |-> Tokens(vs[i])]), <)
                    keep(i) == all[i] < 32768 \/ ((i = 1 \/ all[i - 1] # all[i]) /\ Cardinality({j \in 1..Len(all) : all[j] = all[i]}) % 2 = 1)
                    idx == SelectSeq([i \in 1..Len(all) |-> i], keep)
                IN TokBytes([q \in 1..Len(idx) |-> all[idx[q]]])

\* with a merge function: one entry per distinct key, value = bag union of all values for the key.
\* An entry also carries n, the number of source values folded (merge calls = n - 1).
MergeFold(tabs) ==
    LET s == AllSorted(tabs)
        starts == SelectSeq([i \in 1..Len(s) |-> i], LAMBDA i : i = 1 \/ s[i].k # s[i-1].k)
        endOf(q) == IF q = Len(starts) THEN Len(s) ELSE starts[q+1] - 1
    IN [q \in 1..Len(starts) |->
          LET a == starts[q] b == endOf(q) IN
          [k |-> s[a].k, n |-> b - a + 1,
           v |-> IF a = b THEN s[a].v ELSE TokUnion([j \in 1..(b - a + 1) |-> s[a + j - 1].v])]]
StripN(t) == [i \in 1..Len(t) |-> [k |-> t[i].k, v |-> t[i].v]]
====
