---- MODULE Merger ----
(* Implementation-shaped layer of mtbl/merger.c + libmy/heap.c. Sources are tables read through cursors that obey
   Table.tla (reader iterators are the subject of C03). Keys are byte sequences; values are byte sequences holding
   2-byte tokens, the user merge function is the bag union TokUnion, the dupsort function compares value bytes.
   Operators carry the names of the C functions. FixF2 / FixF8 = FALSE reproduce the pinned tree
   (empty key treated as "nothing pending"; seek to the key just returned takes the forward path). *)
EXTENDS Table, TLC
CONSTANTS Srcs,        \* sequence of tables: Srcs[s][i] = [k |-> key, v |-> value]
          MergeOn, DupsortOn, FixF2, FixF8
NS == Len(Srcs)
NoEnt == [key |-> <<>>, val |-> <<>>, fin |-> TRUE]

(* libmy/heap.c over a sequence of source ids (1-based positions), compared by _mtbl_merger_compare *)
HCmp(ent, x, y) == LET c == Cmp(ent[x].key, ent[y].key) IN
                   IF c = 0 /\ DupsortOn THEN Cmp(ent[x].val, ent[y].val) ELSE c
RECURSIVE SiftDownLoop(_,_,_,_)
SiftDownLoop(ent, h, pos, item) ==                                        \* siftdown
    LET c == 2 * pos IN
    IF c > Len(h) THEN [h EXCEPT ![pos] = item]
    ELSE LET r == c + 1
             cp == IF r <= Len(h) /\ HCmp(ent, h[r], h[c]) <= 0 THEN r ELSE c
         IN IF HCmp(ent, item, h[cp]) <= 0 THEN [h EXCEPT ![pos] = item]
            ELSE SiftDownLoop(ent, [h EXCEPT ![pos] = h[cp]], cp, item)
SiftDown(ent, h, pos) == SiftDownLoop(ent, h, pos, h[pos])
RECURSIVE SiftUpLoop(_,_,_,_)
SiftUpLoop(ent, h, pos, item) ==                                          \* siftup
    IF pos = 1 THEN [h EXCEPT ![1] = item]
    ELSE LET pp == pos \div 2 IN
         IF HCmp(ent, h[pp], item) <= 0 THEN [h EXCEPT ![pos] = item]
         ELSE SiftUpLoop(ent, [h EXCEPT ![pos] = h[pp]], pp, item)
Push(ent, h, s) == LET h2 == Append(h, s) IN SiftUpLoop(ent, h2, Len(h2), s)                      \* heap_push
Pop(ent, h) == IF Len(h) = 1 THEN <<>> ELSE SiftDown(ent, [SubSeq(h, 1, Len(h) - 1) EXCEPT ![1] = h[Len(h)]], 1)   \* heap_pop
Replace(ent, h) == SiftDown(ent, h, 1)                                    \* heap_replace with the same item at the top
RECURSIVE HeapifyFrom(_,_,_)
HeapifyFrom(ent, h, i) == IF i < 1 THEN h ELSE HeapifyFrom(ent, SiftDown(ent, h, i), i - 1)
Heapify(ent, h) == HeapifyFrom(ent, h, Len(h) \div 2)                     \* heap_heapify
IsHeap(ent, h) == \A i \in 2..Len(h) : HCmp(ent, h[i \div 2], h[i]) <= 0

(* entry_fill: advance source s's cursor c; <<entry, cursor'>> *)
Fill(c) == IF NextOk(c) THEN <<[key |-> c.t[c.pos].k, val |-> c.t[c.pos].v, fin |-> FALSE], [c EXCEPT !.pos = c.pos + 1]>>
           ELSE <<NoEnt, FailNext(c)>>
\* per-source bound used by the four constructors (merger_get uses get_range(key, key))
SrcBound(b) == IF b.kind = "get" THEN [kind |-> "range", k0 |-> b.k0, k1 |-> b.k0] ELSE b
SrcOpen(s, b) == OpenCursor(Srcs[s], TRUE, SrcBound(b))
RECURSIVE InitLoop(_,_,_)
InitLoop(st, b, s) == IF s > NS THEN st ELSE                              \* merger_iter_add_entry per source
    LET f == Fill(SrcOpen(s, b)) IN
    IF f[1].fin THEN InitLoop([st EXCEPT !.cur[s] = f[2]], b, s + 1)      \* a source with nothing to give is never in `entries`
    ELSE LET ent2 == [st.ent EXCEPT ![s] = f[1]] IN
         InitLoop([st EXCEPT !.ent = ent2, !.cur[s] = f[2], !.live = @ \cup {s}, !.h = Push(ent2, @, s)], b, s + 1)
MergerOpen(b) ==                                                          \* merger_iter / merger_get / merger_get_prefix / merger_get_range
    LET st == InitLoop([ent |-> [s \in 1..NS |-> NoEnt], cur |-> [s \in 1..NS |-> SrcOpen(s, b)],
                        live |-> {}, h |-> <<>>, ck |-> <<>>, hasck |-> FALSE, cv |-> <<>>, pending |-> FALSE,
                        finished |-> FALSE, null |-> FALSE, calls |-> 0], b, 1)
    IN IF b.kind # "iter" /\ st.live = {} THEN [st EXCEPT !.null = TRUE] ELSE st    \* get/prefix/range return NULL when no source matches
\* "ubuf_size(cur_key) == 0": no key recorded, or (pinned tree) the empty key
Size0(st) == ~st.hasck \/ st.ck = <<>>
RECURSIVE PopFinished(_)
PopFinished(st) == IF Len(st.h) = 0 THEN [st EXCEPT !.finished = TRUE]
                   ELSE IF st.ent[st.h[1]].fin THEN PopFinished([st EXCEPT !.h = Pop(st.ent, @)]) ELSE st
RefillTop(st) == LET s == st.h[1] f == Fill(st.cur[s]) ent2 == [st.ent EXCEPT ![s] = f[1]] IN
                 [st EXCEPT !.ent = ent2, !.cur[s] = f[2], !.h = IF f[1].fin THEN @ ELSE Replace(ent2, @)]
RECURSIVE NextLoop(_)
NextLoop(st0) ==                                                          \* the for(;;) of merger_iter_next
    LET st == PopFinished(st0) IN
    IF st.finished THEN st
    ELSE LET e == st.ent[st.h[1]] IN
         IF (IF FixF2 THEN ~st.pending ELSE Size0(st))
         THEN NextLoop(RefillTop([st EXCEPT !.ck = e.key, !.hasck = TRUE, !.cv = e.val, !.pending = TRUE]))
         ELSE IF ~MergeOn THEN st
         ELSE IF st.ck = e.key THEN NextLoop(RefillTop([st EXCEPT !.cv = TokUnion(<<@, e.val>>), !.calls = @ + 1]))
         ELSE st
MergerNext(st0) ==                                                        \* merger_iter_next: <<st', ok, key, val, merge calls>>
    IF st0.null \/ st0.finished THEN <<st0, FALSE, <<>>, <<>>, 0>> ELSE
    LET st1 == NextLoop([st0 EXCEPT !.ck = <<>>, !.hasck = FALSE, !.cv = <<>>, !.calls = 0, !.pending = IF FixF2 THEN FALSE ELSE @]) IN
    IF st1.pending THEN <<[st1 EXCEPT !.pending = FALSE], TRUE, st1.ck, st1.cv, st1.calls>> ELSE <<st1, FALSE, <<>>, <<>>, 0>>
RECURSIVE ReseekAll(_,_,_)
ReseekAll(st, t, todo) == IF todo = {} THEN st ELSE                       \* backward path: seek every entry, heap_add, then heapify
    LET s == CHOOSE x \in todo : \A y \in todo : x <= y
        f == Fill(SeekCursor(st.cur[s], t)) ent2 == [st.ent EXCEPT ![s] = f[1]]
    IN ReseekAll([st EXCEPT !.ent = ent2, !.cur[s] = f[2], !.h = IF f[1].fin THEN @ ELSE Append(@, s)], t, todo \ {s})
RECURSIVE FwdLoop(_,_,_)
FwdLoop(st, t, changed) ==                                                \* forward path: advance the sources that are behind
    IF Len(st.h) = 0 THEN <<[st EXCEPT !.finished = TRUE], changed>>
    ELSE LET s == st.h[1] IN
         IF Lt(st.ent[s].key, t)
         THEN LET f == Fill(SeekCursor(st.cur[s], t)) ent2 == [st.ent EXCEPT ![s] = f[1]] IN
              FwdLoop([st EXCEPT !.ent = ent2, !.cur[s] = f[2], !.h = IF f[1].fin THEN Pop(ent2, @) ELSE Replace(ent2, @)], t, TRUE)
         ELSE <<st, changed>>
MergerSeek(st0, t) ==                                                     \* merger_iter_seek
    IF st0.null THEN st0 ELSE
    LET st == [st0 EXCEPT !.finished = FALSE, !.pending = FALSE] IN
    IF Len(st.h) = 0 \/ Size0(st) \/ (IF FixF8 THEN Le(t, st.ck) ELSE Lt(t, st.ck))
    THEN LET r == ReseekAll([st EXCEPT !.h = <<>>], t, st.live) IN [r EXCEPT !.h = Heapify(r.ent, @)]
    ELSE LET r == FwdLoop(st, t, FALSE) IN
         IF r[2] THEN [r[1] EXCEPT !.ck = t, !.hasck = TRUE, !.cv = <<>>] ELSE r[1]
====
