SPECIFICATION FairSpec
CONSTANTS MaxThreads = 1 NC = 2 Jobs = 2 Ordered = FALSE MaxSpurious = 0 Mixed = TRUE defaultInitValue = defaultInitValue
INVARIANTS ExactlyOnce NoDup InOrder Bounded
PROPERTY Live
CHECK_DEADLOCK FALSE
