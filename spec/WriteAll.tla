---- MODULE WriteAll ----
(* C20. mtbl/writer.c _write_all: the retry loop against a nondeterministic write(2).
   The intended stream is the concatenation of the buffers handed to _write_all (Bufs = their lengths, taken from a
   fault-free run of the real writer); flen counts the bytes in the file and isprefix says that every write so far put
   the right stream positions there. Outcomes of one write(2) call: Full, Partial(n), Eintr, HardError.
   Advance = FALSE models a loop that forgets to advance the pointer after a short write, EintrKeeps = FALSE one whose
   EINTR retry moves the pointer (both are regressions that TLC must reject). *)
EXTENDS Integers, Sequences, TLC
CONSTANTS Bufs, MaxFaults, Advance, EintrKeeps
Sum(s, n) == LET f[i \in 0..n] == IF i = 0 THEN 0 ELSE s[i] + f[i - 1] IN f[n]
Total == Sum(Bufs, Len(Bufs))
VARIABLES b, done, ptr, flen, isprefix, status, faults, hist
vars == <<b, done, ptr, flen, isprefix, status, faults, hist>>
Base(i) == Sum(Bufs, i - 1)
Init == b = 1 /\ done = 0 /\ ptr = 0 /\ flen = 0 /\ isprefix = TRUE /\ status = "running" /\ faults = 0 /\ hist = <<>>
Remaining == Bufs[b] - done
WriteN(n) ==            \* write(fd, buf + ptr, Remaining) returned n: stream positions Base(b)+ptr+1 .. +n land at the end of the file
    /\ isprefix' = (isprefix /\ Base(b) + ptr = flen)
    /\ flen' = flen + n
    /\ IF done + n = Bufs[b]
       THEN IF b = Len(Bufs) THEN status' = "done" /\ UNCHANGED <<b, done, ptr>> ELSE b' = b + 1 /\ done' = 0 /\ ptr' = 0 /\ status' = status
       ELSE done' = done + n /\ ptr' = (IF Advance THEN ptr + n ELSE ptr) /\ UNCHANGED <<b, status>>
Full == status = "running" /\ WriteN(Remaining) /\ UNCHANGED faults /\ hist' = Append(hist, <<0, 0>>)
Partial == status = "running" /\ faults < MaxFaults /\ \E n \in 1..(Remaining - 1) : WriteN(n) /\ faults' = faults + 1 /\ hist' = Append(hist, <<1, n>>)
Eintr == /\ status = "running" /\ faults < MaxFaults /\ faults' = faults + 1 /\ hist' = Append(hist, <<2, 0>>)
         /\ ptr' = (IF EintrKeeps THEN ptr ELSE ptr - 1) /\ done' = (IF EintrKeeps THEN done ELSE done - 1)
         /\ UNCHANGED <<b, flen, isprefix, status>>
HardError == status = "running" /\ faults < MaxFaults /\ status' = "dead" /\ faults' = faults + 1 /\ hist' = Append(hist, <<4, 5>>)
             /\ UNCHANGED <<b, done, ptr, flen, isprefix>>
Next == Full \/ Partial \/ Eintr \/ HardError
Spec == Init /\ [][Next]_vars /\ WF_vars(Full)
PrefixInv == isprefix
DoneComplete == status = "done" => flen = Total /\ isprefix
Terminates == <>(status \in {"done", "dead"})
NoHist == <<b, done, ptr, flen, isprefix, status, faults>>
DumpHist == (status \in {"done", "dead"}) => PrintT(<<"HIST", hist>>)
====
