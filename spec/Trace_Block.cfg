SPECIFICATION TSpec
CONSTANTS FixF1 = TRUE
POSTCONDITION Accepted
CHECK_DEADLOCK FALSE
