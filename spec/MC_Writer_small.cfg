SPECIFICATION Spec
CONSTANTS
 KeySeq <- mcKeys
 VLens = {0, 130, 480}
 RIs = {1, 2, 3}
 PrefixLens = {0, 513}
 BlockSize = 1024
 MaxAdds = 5
INVARIANT WellFormedInv
INVARIANT TruthInv
INVARIANT GateInv
PROPERTY RefusalChangesNothing
CHECK_DEADLOCK FALSE
