---- MODULE MC_Merger_small ----
EXTENDS MC_Merger
a == 97 b == 98
E(s, k) == [k |-> k, v |-> <<0, s>>]
mcSrcs == << << E(1, <<>>), E(1, <<a>>), E(1, <<a,b>>), E(1, <<b,a>>) >>,
             << E(2, <<a>>), E(2, <<a,a>>), E(2, <<b,a>>), E(2, <<b,b>>) >>,
             << E(3, <<a,b>>) >> >>
mcT == << <<>>, <<a>>, <<a,a>>, <<a,b>>, <<a,b,a>>, <<b>>, <<b,a>>, <<b,b>>, <<b,b,b>> >>
B(kind, k0, k1) == [kind |-> kind, k0 |-> k0, k1 |-> k1]
mcB == << B("iter", <<>>, <<>>), B("get", <<a>>, <<>>), B("get", <<>>, <<>>), B("get", <<b>>, <<>>), B("prefix", <<a>>, <<>>), B("prefix", <<>>, <<>>),
          B("range", <<a>>, <<b,a>>), B("range", <<>>, <<a,a>>), B("range", <<b,b>>, <<a>>) >>
====
