---- MODULE Fileset ----
(* C07. Implementation-shaped layer of mtbl/fileset.c + libmy/my_fileset.c with bounded state
   (shared: loaded readers, setfile identity, fs_last, reload_needed, n_iters; per handle: fs_last, merger source list):
   - time is the number of whole seconds since the shared fs_last, capped at Cap (all that the interval test reads);
   - a handle's fs_last is kept only as "equal to the shared fs_last or not" (sync);
   - the setfile identity (inode, mtime) is kept as "differs from the last scanned identity or not" (dirty);
   - a handle's merger is the set of names it was built from plus the subset whose reader has since been unloaded (dead).
   FixF3 = FALSE reproduces the pinned tree's mtbl_fileset_reload_now. *)
EXTENDS Integers, FiniteSets, TLC
CONSTANTS Names,       \* files that exist on disk as tables; the setfile may also name others (missing / not a table): Others
          Others, MaxH, MaxIt, Intervals, NEVER, Cap, FixF3
VARIABLES el,          \* elapsed seconds since shared fs_last (capped); Cap also stands for "never reloaded"
          ever,        \* a reload has happened at least once (shared fs_last # 0)
          setnames, dirty,
          loaded,      \* names currently loaded (subset of Names)
          need, nIters,
          H, I,
          owed, bad    \* ghosts: a reload_now() was issued and not yet honoured; first broken promise
vars == <<el, ever, setnames, dirty, loaded, need, nIters, H, I, owed, bad>>
DeadH == [alive |-> FALSE, itv |-> 0, sync |-> FALSE, names |-> {}, dead |-> {}]
DeadI == [open |-> FALSE, h |-> 0, names |-> {}, dead |-> {}]
Init == /\ el = Cap /\ ever = FALSE /\ setnames \in SUBSET (Names \cup Others) /\ dirty = TRUE
        /\ loaded = {} /\ need = TRUE /\ nIters = 0
        /\ \E itv \in Intervals : H = [h \in 1..MaxH |-> IF h = 1 THEN [alive |-> TRUE, itv |-> itv, sync |-> TRUE, names |-> {}, dead |-> {}] ELSE DeadH]
        /\ I = [i \in 1..MaxIt |-> DeadI] /\ owed = FALSE /\ bad = "none"
\* my_fileset_reload: [loaded, changed, gone]
Scan == IF ~dirty THEN [loaded |-> loaded, changed |-> FALSE, gone |-> {}]
        ELSE LET nl == setnames \cap Names IN [loaded |-> nl, changed |-> nl # loaded, gone |-> loaded \ nl]
Reinit(h, Hx, ld) == [Hx EXCEPT ![h].names = ld, ![h].dead = {}]                        \* fs_reinit_merger
MarkDead(Hx, gone) == [x \in 1..MaxH |-> [Hx[x] EXCEPT !.dead = @ \cup (Hx[x].names \cap gone)]]
Unsync(Hx, h) == [x \in 1..MaxH |-> [Hx[x] EXCEPT !.sync = (x = h)]]                     \* shared fs_last := now, f->fs_last := now
\* the reload proper (both entry points): returns new H and shared state
DoReload(h, Hx, reinitIfStale, stale) ==
  LET m  == Scan
      H1 == MarkDead(Hx, m.gone)
      H2 == IF m.changed \/ (reinitIfStale /\ stale) THEN Reinit(h, H1, m.loaded) ELSE H1
  IN [H |-> Unsync(H2, h), loaded |-> m.loaded]
\* mtbl_fileset_reload(h) with n = number of open iterators to assume
ReloadRes(h, n) ==
  LET H1 == IF ~H[h].sync THEN [Reinit(h, H, loaded) EXCEPT ![h].sync = TRUE] ELSE H
      base == [H |-> H1, loaded |-> loaded, reloaded |-> FALSE]
  IN IF (~need /\ H[h].itv = NEVER) \/ n > 0 THEN base
     ELSE IF need \/ (H[h].itv # NEVER /\ el > H[h].itv)
          THEN LET r == DoReload(h, H1, FALSE, FALSE) IN [H |-> r.H, loaded |-> r.loaded, reloaded |-> TRUE]
          ELSE base
ApplyReload(r) == /\ H' = r.H /\ loaded' = r.loaded
                  /\ IF r.reloaded THEN el' = 0 /\ ever' = TRUE /\ dirty' = FALSE /\ need' = FALSE /\ owed' = FALSE
                     ELSE UNCHANGED <<el, ever, dirty, need, owed>>
Tick == el < Cap /\ el' = el + 1 /\ UNCHANGED <<ever, setnames, dirty, loaded, need, nIters, H, I, owed, bad>>
Rewrite == \E ns \in SUBSET (Names \cup Others) : setnames' = ns /\ dirty' = TRUE
           /\ UNCHANGED <<el, ever, loaded, need, nIters, H, I, owed, bad>>
Dup == \E h \in 1..MaxH, o \in 1..MaxH, itv \in Intervals : H[o].alive /\ ~H[h].alive
        /\ H' = [H EXCEPT ![h] = [alive |-> TRUE, itv |-> itv, sync |-> ~ever, names |-> {}, dead |-> {}]]
        /\ UNCHANGED <<el, ever, setnames, dirty, loaded, need, nIters, I, owed, bad>>
ReloadOp(h) == H[h].alive /\ ApplyReload(ReloadRes(h, nIters)) /\ UNCHANGED <<setnames, nIters, I, bad>>
ReloadNow(h) == /\ H[h].alive
   /\ (IF nIters > 0 THEN need' = TRUE /\ owed' = TRUE /\ UNCHANGED <<el, ever, dirty, loaded, H>>
       ELSE LET r == DoReload(h, H, FixF3, ~H[h].sync) IN
            H' = r.H /\ loaded' = r.loaded /\ el' = 0 /\ ever' = TRUE /\ dirty' = FALSE /\ need' = FALSE /\ owed' = FALSE)
   /\ UNCHANGED <<setnames, nIters, I, bad>>
OpenIter(h) == \E i \in 1..MaxIt : ~I[i].open /\ H[h].alive /\
   LET r == ReloadRes(h, nIters) m == r.H[h] IN
   /\ ApplyReload(r) /\ nIters' = nIters + 1
   /\ I' = [I EXCEPT ![i] = [open |-> TRUE, h |-> h, names |-> m.names, dead |-> m.dead]]
   /\ bad' = IF m.dead # {} THEN "dangling reader in merger"
             ELSE IF m.names # r.loaded THEN "view differs from loaded set"
             ELSE IF nIters = 0 /\ (owed \/ ~ever) /\ ~r.reloaded THEN "owed reload not performed"
             ELSE IF nIters = 0 /\ H[h].itv # NEVER /\ el > H[h].itv /\ ~r.reloaded THEN "interval elapsed, no reload"
             ELSE IF r.reloaded /\ r.loaded # setnames \cap Names THEN "reload did not pick up the setfile"
             ELSE bad
   /\ UNCHANGED <<setnames>>
CloseIter(i) == /\ I[i].open /\ H[I[i].h].alive
   /\ ApplyReload(ReloadRes(I[i].h, nIters - 1))
   /\ nIters' = nIters - 1 /\ I' = [I EXCEPT ![i] = DeadI] /\ UNCHANGED <<setnames, bad>>
DestroyH(h) == /\ H[h].alive /\ Cardinality({x \in 1..MaxH : H[x].alive}) > 1
               /\ \A i \in 1..MaxIt : ~(I[i].open /\ I[i].h = h)
               /\ H' = [H EXCEPT ![h] = DeadH]
               /\ UNCHANGED <<el, ever, setnames, dirty, loaded, need, nIters, I, owed, bad>>
Next == Tick \/ Rewrite \/ Dup \/ (\E h \in 1..MaxH : DestroyH(h) \/ ReloadOp(h) \/ ReloadNow(h) \/ OpenIter(h)) \/ (\E i \in 1..MaxIt : CloseIter(i))
Spec == Init /\ [][Next]_vars
NoBad == bad = "none"
Pinned == \A i \in 1..MaxIt : I[i].open => (I[i].dead = {} /\ I[i].names \subseteq loaded)
NoReloadWhileOpen == [][nIters > 0 /\ nIters' > 0 => loaded' = loaded]_vars
====
