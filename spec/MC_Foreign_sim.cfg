SPECIFICATION Spec
CONSTANTS
 KeySeq <- mcKeys7
 Versions = {1, 2}
 Comps = {0, 1, 2, 3, 4, 5}
 PrefixLens = {0, 7, 600}
 FixF1 = TRUE
INVARIANT Readable
INVARIANT Dump
CHECK_DEADLOCK FALSE
