---- MODULE Bytes ----
(* Byte strings as the library orders them (mtbl-private.h bytes_compare, bytes.h bytes_shortest_separator).
   No operator recurses over a byte string or a table: TLC's evaluator overflows its stack at a few hundred
   levels, and keys of 16 KiB have to be comparable. *)
EXTENDS Integers, Sequences, SequencesExt

Byte == 0..255

MinI(a, b) == IF a < b THEN a ELSE b
MaxI(a, b) == IF a > b THEN a ELSE b

\* length of the longest common prefix
Lcp(a, b) == LET m == MinI(Len(a), Len(b))
                 d == SelectInSeq([i \in 1..m |-> a[i] # b[i]], LAMBDA x : x)      \* first differing index, 0 if none
             IN IF d = 0 THEN m ELSE d - 1

\* bytes_compare: unsigned bytewise, a proper prefix sorts first
Cmp(a, b) == LET l == Lcp(a, b) IN
             IF l = Len(a) /\ l = Len(b) THEN 0
             ELSE IF l = Len(a) THEN -1
             ELSE IF l = Len(b) THEN 1
             ELSE IF a[l + 1] < b[l + 1] THEN -1 ELSE 1
Lt(a, b) == Cmp(a, b) < 0
Le(a, b) == Cmp(a, b) <= 0

HasPrefix(k, p) == Len(p) <= Len(k) /\ SubSeq(k, 1, Len(p)) = p

\* bytes_shortest_separator(start, limit), line by line; precondition of its use in the writer: Lt(start, limit)
Sep(start, limit) ==
    LET minlen == MinI(Len(start), Len(limit))
        diff   == Lcp(start, limit)                         \* diff_index (0-based) = number of equal leading bytes
    IN IF diff >= minlen THEN start                         \* one is a prefix of the other: unchanged
       ELSE LET sb == start[diff + 1]
                lb == limit[diff + 1]
            IN IF sb < 255 /\ sb + 1 < lb
               THEN SubSeq(start, 1, diff) \o <<sb + 1>>
               ELSE IF diff + 2 < minlen
                    THEN LET us == start[diff + 1] * 256 + start[diff + 2]
                             ul == limit[diff + 1] * 256 + limit[diff + 2]
                             ub == (us + 1) % 65536
                         IN IF us <= ub /\ ub <= ul
                            THEN SubSeq(start, 1, diff) \o <<ub \div 256, ub % 256>>
                            ELSE start
                    ELSE start

\* the law the writer relies on (checked exhaustively over small alphabets by MC_Bytes)
SepLaw(a, b) == Lt(a, b) => LET s == Sep(a, b) IN Le(a, s) /\ Lt(s, b) /\ Len(s) <= Len(a)

\* length of the LEB128 encoding of a natural number below 2^31
VarLen(n) == IF n < 128 THEN 1 ELSE IF n < 16384 THEN 2 ELSE IF n < 2097152 THEN 3 ELSE IF n < 268435456 THEN 4 ELSE 5
====
