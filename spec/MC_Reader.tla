---- MODULE MC_Reader ----
(* Refinement check for C02/C03/C11: the implementation-shaped reader (Reader.tla) against the abstract cursor
   (Table.tla) over one concrete file structure F, for every history of next / seek(t) on iterators of the
   given bounds. The reachable state graph (dumped with -dump dot,actionlabels) is the coverage driver: every
   edge is an (implementation state incl. cached block, restart run and index cursor; operation) pair that is
   replayed on the real library. Instances (F, Targets, Bounds) are generated from decoded real files. *)
EXTENDS Reader, Sequences, FiniteSets
T == INSTANCE Table
CONSTANTS F,          \* file structure (see Reader.tla)
          TargetSeq,  \* sequence of seek targets (byte strings)
          BoundSeq    \* sequence of bounds [kind, k0, k1]
RECURSIVE FlatFrom(_)
FlatFrom(b) == IF b > Len(F.keys) THEN <<>>
               ELSE [j \in 1..Len(F.keys[b]) |-> [k |-> F.keys[b][j], v |-> <<b, j>>]] \o FlatFrom(b + 1)
Flat == FlatFrom(1)

VARIABLES it,      \* implementation-shaped iterator state
          cur,     \* abstract cursor
          bx,      \* which bound this behaviour is about (index into BoundSeq)
          res      \* <<implementation result, abstract result>> of the last operation
vars == <<it, cur, bx, res>>

Init == \E n \in 1..Len(BoundSeq) :
          LET b == BoundSeq[n] IN
          /\ bx = n
          /\ it = IF b.kind = "iter" THEN ReaderIter(F) ELSE ReaderIterInit(F, b.kind, b.k0, b.k1)
          /\ cur = T!OpenCursor(Flat, TRUE, b)
          /\ res = <<<<TRUE>>, <<TRUE>>>>
DoNext == LET r == ReaderNext(F, it)
              ok == T!NextOk(cur)
          IN /\ it' = r[1]
             /\ cur' = IF ok THEN [cur EXCEPT !.pos = cur.pos + 1] ELSE T!FailNext(cur)
             /\ res' = << IF r[2] THEN <<TRUE, <<r[3], r[4]>>>> ELSE <<FALSE>>,
                          IF ok THEN <<TRUE, cur.t[cur.pos].v>> ELSE <<FALSE>> >>
             /\ UNCHANGED bx
DoSeek(n) == LET t == TargetSeq[n] IN
             /\ Le(T!Start(cur.b), t)                  \* seeks below the start of the range are outside the property
             /\ it' = ReaderSeek(F, it, t)
             /\ cur' = T!SeekCursor(cur, t)
             /\ res' = <<<<TRUE>>, <<TRUE>>>>
             /\ UNCHANGED bx
Next == DoNext \/ \E n \in 1..Len(TargetSeq) : DoSeek(n)
Spec == Init /\ [][Next]_vars

\* the implementation-shaped layer returns what the abstract cursor promises, after every history
Refines == res[1] = res[2]
\* a NULL iterator is only handed out when the lookup is empty
NullOk == it.null => T!Lookup(Flat, BoundSeq[bx]) = <<>>
====
