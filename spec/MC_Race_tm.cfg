SPECIFICATION Spec
CONSTANTS MaxThreads = 1 NC = 2 Jobs = 2 Ordered = FALSE MaxSpurious = 0 Mixed = TRUE defaultInitValue = defaultInitValue
INVARIANT NoRace
CHECK_DEADLOCK FALSE
