---- MODULE Trace_Open ----
(* Trace validator for C19: opening arbitrary bytes ends in NULL, a reader, or a checksum / consistency assertion;
   any access outside the file's bytes (fault at a guard page, sanitizer report) is a violation. *)
EXTENDS Integers, Sequences, TLC, Json, IOUtils
Tr == ndJsonDeserialize(IOEnv.TRACE)
VARIABLE l
Ev == Tr[l]
TInit == l = 1
TOpenArb == l <= Len(Tr) /\ Ev.e = "OpenArb" /\ Ev.outcome \in {"null", "reader", "assert"} /\ l' = l + 1
TSpec == TInit /\ [][TOpenArb]_l
Accepted == TLCGet("stats").diameter - 1 = Len(Tr)
====
