---- MODULE MC_Fileset_bfs_TTrace_1790833736 ----
EXTENDS Sequences, MC_Fileset_bfs, TLCExt, Toolbox, Naturals, TLC

_expression ==
    LET MC_Fileset_bfs_TEExpression == INSTANCE MC_Fileset_bfs_TEExpression
    IN MC_Fileset_bfs_TEExpression!expression
----

_trace ==
    LET MC_Fileset_bfs_TETrace == INSTANCE MC_Fileset_bfs_TETrace
    IN MC_Fileset_bfs_TETrace!trace
----

_inv ==
    ~(
        TLCGet("level") = Len(_TETrace)
        /\
        dirty = (FALSE)
        /\
        loaded = ({"x"})
        /\
        ever = (TRUE)
        /\
        owed = (FALSE)
        /\
        bad = ("view differs from loaded set")
        /\
        need = (FALSE)
        /\
        el = (0)
        /\
        H = (<<[alive |-> TRUE, itv |-> 0, sync |-> FALSE, names |-> {"x"}, dead |-> {}], [alive |-> TRUE, itv |-> 0, sync |-> TRUE, names |-> {}, dead |-> {}]>>)
        /\
        I = (<<[names |-> {}, dead |-> {}, open |-> TRUE, h |-> 2], [names |-> {}, dead |-> {}, open |-> FALSE, h |-> 0]>>)
        /\
        setnames = ({"x"})
        /\
        nIters = (1)
    )
----

_init ==
    /\ bad = _TETrace[1].bad
    /\ need = _TETrace[1].need
    /\ nIters = _TETrace[1].nIters
    /\ H = _TETrace[1].H
    /\ I = _TETrace[1].I
    /\ dirty = _TETrace[1].dirty
    /\ el = _TETrace[1].el
    /\ ever = _TETrace[1].ever
    /\ setnames = _TETrace[1].setnames
    /\ loaded = _TETrace[1].loaded
    /\ owed = _TETrace[1].owed
----

_next ==
    /\ \E i,j \in DOMAIN _TETrace:
        /\ \/ /\ j = i + 1
              /\ i = TLCGet("level")
        /\ bad  = _TETrace[i].bad
        /\ bad' = _TETrace[j].bad
        /\ need  = _TETrace[i].need
        /\ need' = _TETrace[j].need
        /\ nIters  = _TETrace[i].nIters
        /\ nIters' = _TETrace[j].nIters
        /\ H  = _TETrace[i].H
        /\ H' = _TETrace[j].H
        /\ I  = _TETrace[i].I
        /\ I' = _TETrace[j].I
        /\ dirty  = _TETrace[i].dirty
        /\ dirty' = _TETrace[j].dirty
        /\ el  = _TETrace[i].el
        /\ el' = _TETrace[j].el
        /\ ever  = _TETrace[i].ever
        /\ ever' = _TETrace[j].ever
        /\ setnames  = _TETrace[i].setnames
        /\ setnames' = _TETrace[j].setnames
        /\ loaded  = _TETrace[i].loaded
        /\ loaded' = _TETrace[j].loaded
        /\ owed  = _TETrace[i].owed
        /\ owed' = _TETrace[j].owed

\* Uncomment the ASSUME below to write the states of the error trace
\* to the given file in Json format. Note that you can pass any tuple
\* to `JsonSerialize`. For example, a sub-sequence of _TETrace.
    \* ASSUME
    \*     LET J == INSTANCE Json
    \*         IN J!JsonSerialize("MC_Fileset_bfs_TTrace_1790833736.json", _TETrace)

=============================================================================

 Note that you can extract this module `MC_Fileset_bfs_TEExpression`
  to a dedicated file to reuse `expression` (the module in the 
  dedicated `MC_Fileset_bfs_TEExpression.tla` file takes precedence 
  over the module `MC_Fileset_bfs_TEExpression` below).

---- MODULE MC_Fileset_bfs_TEExpression ----
EXTENDS Sequences, MC_Fileset_bfs, TLCExt, Toolbox, Naturals, TLC

expression == 
    [
        \* To hide variables of the `MC_Fileset_bfs` spec from the error trace,
        \* remove the variables below.  The trace will be written in the order
        \* of the fields of this record.
        bad |-> bad
        ,need |-> need
        ,nIters |-> nIters
        ,H |-> H
        ,I |-> I
        ,dirty |-> dirty
        ,el |-> el
        ,ever |-> ever
        ,setnames |-> setnames
        ,loaded |-> loaded
        ,owed |-> owed
        
        \* Put additional constant-, state-, and action-level expressions here:
        \* ,_stateNumber |-> _TEPosition
        \* ,_badUnchanged |-> bad = bad'
        
        \* Format the `bad` variable as Json value.
        \* ,_badJson |->
        \*     LET J == INSTANCE Json
        \*     IN J!ToJson(bad)
        
        \* Lastly, you may build expressions over arbitrary sets of states by
        \* leveraging the _TETrace operator.  For example, this is how to
        \* count the number of times a spec variable changed up to the current
        \* state in the trace.
        \* ,_badModCount |->
        \*     LET F[s \in DOMAIN _TETrace] ==
        \*         IF s = 1 THEN 0
        \*         ELSE IF _TETrace[s].bad # _TETrace[s-1].bad
        \*             THEN 1 + F[s-1] ELSE F[s-1]
        \*     IN F[_TEPosition - 1]
    ]

=============================================================================



Parsing and semantic processing can take forever if the trace below is long.
 In this case, it is advised to uncomment the module below to deserialize the
 trace from a generated binary file.

\*
\*---- MODULE MC_Fileset_bfs_TETrace ----
\*EXTENDS IOUtils, MC_Fileset_bfs, TLC
\*
\*trace == IODeserialize("MC_Fileset_bfs_TTrace_1790833736.bin", TRUE)
\*
\*=============================================================================
\*

---- MODULE MC_Fileset_bfs_TETrace ----
EXTENDS MC_Fileset_bfs, TLC

trace == 
    <<
    ([dirty |-> TRUE,loaded |-> {},ever |-> FALSE,owed |-> FALSE,bad |-> "none",need |-> TRUE,el |-> 4,H |-> <<[alive |-> TRUE, itv |-> 0, sync |-> TRUE, names |-> {}, dead |-> {}], [alive |-> FALSE, itv |-> 0, sync |-> FALSE, names |-> {}, dead |-> {}]>>,I |-> <<[names |-> {}, dead |-> {}, open |-> FALSE, h |-> 0], [names |-> {}, dead |-> {}, open |-> FALSE, h |-> 0]>>,setnames |-> {"x"},nIters |-> 0]),
    ([dirty |-> TRUE,loaded |-> {},ever |-> FALSE,owed |-> FALSE,bad |-> "none",need |-> TRUE,el |-> 4,H |-> <<[alive |-> TRUE, itv |-> 0, sync |-> TRUE, names |-> {}, dead |-> {}], [alive |-> TRUE, itv |-> 0, sync |-> TRUE, names |-> {}, dead |-> {}]>>,I |-> <<[names |-> {}, dead |-> {}, open |-> FALSE, h |-> 0], [names |-> {}, dead |-> {}, open |-> FALSE, h |-> 0]>>,setnames |-> {"x"},nIters |-> 0]),
    ([dirty |-> FALSE,loaded |-> {"x"},ever |-> TRUE,owed |-> FALSE,bad |-> "none",need |-> FALSE,el |-> 0,H |-> <<[alive |-> TRUE, itv |-> 0, sync |-> TRUE, names |-> {"x"}, dead |-> {}], [alive |-> TRUE, itv |-> 0, sync |-> FALSE, names |-> {}, dead |-> {}]>>,I |-> <<[names |-> {}, dead |-> {}, open |-> FALSE, h |-> 0], [names |-> {}, dead |-> {}, open |-> FALSE, h |-> 0]>>,setnames |-> {"x"},nIters |-> 0]),
    ([dirty |-> FALSE,loaded |-> {"x"},ever |-> TRUE,owed |-> FALSE,bad |-> "none",need |-> FALSE,el |-> 0,H |-> <<[alive |-> TRUE, itv |-> 0, sync |-> FALSE, names |-> {"x"}, dead |-> {}], [alive |-> TRUE, itv |-> 0, sync |-> TRUE, names |-> {}, dead |-> {}]>>,I |-> <<[names |-> {}, dead |-> {}, open |-> FALSE, h |-> 0], [names |-> {}, dead |-> {}, open |-> FALSE, h |-> 0]>>,setnames |-> {"x"},nIters |-> 0]),
    ([dirty |-> FALSE,loaded |-> {"x"},ever |-> TRUE,owed |-> FALSE,bad |-> "view differs from loaded set",need |-> FALSE,el |-> 0,H |-> <<[alive |-> TRUE, itv |-> 0, sync |-> FALSE, names |-> {"x"}, dead |-> {}], [alive |-> TRUE, itv |-> 0, sync |-> TRUE, names |-> {}, dead |-> {}]>>,I |-> <<[names |-> {}, dead |-> {}, open |-> TRUE, h |-> 2], [names |-> {}, dead |-> {}, open |-> FALSE, h |-> 0]>>,setnames |-> {"x"},nIters |-> 1])
    >>
----


=============================================================================

---- CONFIG MC_Fileset_bfs_TTrace_1790833736 ----
CONSTANTS
    Names = { "x" , "y" }
    Others = { "m" }
    MaxH = 2
    MaxIt = 2
    Intervals = { 0 , 2 , 99 }
    NEVER = 99
    Cap = 4
    FixF3 = FALSE

INVARIANT
    _inv

CHECK_DEADLOCK
    \* CHECK_DEADLOCK off because of PROPERTY or INVARIANT above.
    FALSE

INIT
    _init

NEXT
    _next

CONSTANT
    _TETrace <- _trace

ALIAS
    _expression
=============================================================================
\* Generated on Thu Oct 01 05:48:58 UTC 2026