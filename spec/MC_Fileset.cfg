SPECIFICATION Spec
CONSTANTS
 Names = {"x", "y"}
 Others = {"m"}
 MaxH = 2
 MaxIt = 2
 Intervals = {0, 2, 99}
 NEVER = 99
 Cap = 4
 FixF3 = TRUE
INVARIANT NoBad
INVARIANT Pinned
PROPERTY NoReloadWhileOpen
CHECK_DEADLOCK FALSE
