---- MODULE Codec ----
(* C15. The compression contract: mtbl_compress / mtbl_compress_level either report failure or produce output that
   mtbl_decompress turns back into exactly the input; they never abort. Algorithm names round-trip and unknown names are
   refused. The finite product that has to be exercised exhaustively is defined here (Required). *)
EXTENDS Integers, Sequences, FiniteSets
Algs == {"snappy", "zlib", "lz4", "lz4hc", "zstd"}
NameId == [n \in {"none", "snappy", "zlib", "lz4", "lz4hc", "zstd"} |->
             CASE n = "none" -> 0 [] n = "snappy" -> 1 [] n = "zlib" -> 2 [] n = "lz4" -> 3 [] n = "lz4hc" -> 4 [] n = "zstd" -> 5]
Classes == 0..3                       \* zeros, ramp, pseudo-random, repeated motif
SmallLens == 0..64
\* every algorithm x content class x length 0..64 through mtbl_compress (no level), and with explicit levels for the
\* lengths the harness's tier selects (recorded as seen)
Required == {<<a, c, n>> : a \in Algs, c \in Classes, n \in SmallLens}
OutcomeOk(outcome, rt) == outcome \in {"fail", "ok"} /\ (outcome = "ok" => rt)
====
