---- MODULE Mtbl ----
(* Abstract specification of the mtbl API: the state a user can name and the result every call must have.
   One action per public call; the action is enabled exactly for the results the properties allow, so a
   logged call of the real library is a violation iff no action explains it (Trace_Mtbl.tla).

   Objects are named by small integers (slots). Sources are records [t |-> "r" | "m" | "u" | "f", n |-> slot].

   C01 round trip, C02 lookups, C03 reader cursors, C04/C05 mergers, C06 sorters, C07 filesets, C08 writer gate,
   C10 (entry and byte counters), C18 (resource ledger) are all stated here. *)
EXTENDS Table, TLC

CONSTANT NEVER          \* the reload interval meaning "never"

VARIABLES
    disk,       \* path -> [kind |-> "table", t |-> table] | [kind |-> "other"] | [kind |-> "writing"]
    wr,         \* writer slot -> [path, t (accepted entries), pool]
    rd,         \* reader slot -> [t]
    us,         \* user source slot -> [t] (in memory, any order of adds; presented sorted by the harness)
    mg,         \* merger slot -> [srcs (sequence of sources), merge, failtok, dupsort]
    so,         \* sorter slot -> [adds (sequence of entries), merge, failtok, iterating, maxmem, bytes, pool, chunks, failed]
    fs,         \* fileset: see the Fileset section
    it,         \* iterator slot -> [null |-> BOOLEAN, c |-> cursor, own |-> owner source, broken]
    pl          \* pool slot -> [n |-> max threads]

vars == <<disk, wr, rd, us, mg, so, fs, it, pl>>

Upd(f, x, v) == [y \in DOMAIN f \cup {x} |-> IF y = x THEN v ELSE f[y]]
Del(f, x)    == [y \in DOMAIN f \ {x} |-> f[y]]

VLen(v) == IF Len(v) > 0 /\ v[1] = -1 THEN v[2] ELSE Len(v)        \* long values are logged as <<-1, length, hash words>>
SumSeq(s) == FoldLeft(LAMBDA a, b : a + b, 0, s)

EmptyFs == [shared |-> <<>>, h |-> <<>>]

Init == /\ disk = <<>> /\ wr = <<>> /\ rd = <<>> /\ us = <<>> /\ mg = <<>> /\ so = <<>>
        /\ fs = EmptyFs /\ it = <<>> /\ pl = <<>>

\* ------------------------------------------------------------------ files made by the harness
MkOther(path) == disk' = Upd(disk, path, [kind |-> "other"]) /\ UNCHANGED <<wr, rd, us, mg, so, fs, it, pl>>
MkTable(path, t) == /\ Strict(t)
                    /\ disk' = Upd(disk, path, [kind |-> "table", t |-> t])
                    /\ UNCHANGED <<wr, rd, us, mg, so, fs, it, pl>>
RmFile(path) == disk' = Del(disk, path) /\ UNCHANGED <<wr, rd, us, mg, so, fs, it, pl>>

\* ------------------------------------------------------------------ writer (C08, C01)
\* mtbl_writer_init never opens an existing path
WInit(w, path, pool, ok) ==
    /\ ok <=> path \notin DOMAIN disk
    /\ IF ok THEN /\ wr' = Upd(wr, w, [path |-> path, t |-> <<>>, pool |-> pool])
                  /\ disk' = Upd(disk, path, [kind |-> "writing"])
             ELSE UNCHANGED <<wr, disk>>
    /\ UNCHANGED <<rd, us, mg, so, fs, it, pl>>
\* the harness created the file itself (foreign prefix) and handed the descriptor over
WInitFd(w, path, pool) ==
    /\ wr' = Upd(wr, w, [path |-> path, t |-> <<>>, pool |-> pool])
    /\ disk' = Upd(disk, path, [kind |-> "writing"])
    /\ UNCHANGED <<rd, us, mg, so, fs, it, pl>>

AddOk(t, k) == Len(t) = 0 \/ Lt(t[Len(t)].k, k)
WAdd(w, k, v, ok) ==
    /\ w \in DOMAIN wr
    /\ ok <=> AddOk(wr[w].t, k)
    /\ wr' = IF ok THEN [wr EXCEPT ![w].t = Append(@, [k |-> k, v |-> v])] ELSE wr      \* a refused add changes nothing
    /\ UNCHANGED <<disk, rd, us, mg, so, fs, it, pl>>
WClose(w) ==
    /\ w \in DOMAIN wr
    /\ disk' = Upd(disk, wr[w].path, [kind |-> "table", t |-> wr[w].t])
    /\ wr' = Del(wr, w)
    /\ UNCHANGED <<rd, us, mg, so, fs, it, pl>>

\* ------------------------------------------------------------------ reader (C01, C10 counters)
ROpen(r, path, ok) ==
    /\ IF path \in DOMAIN disk /\ disk[path].kind = "table"
       THEN ok /\ rd' = Upd(rd, r, [t |-> disk[path].t, path |-> path])
       ELSE ~ok /\ UNCHANGED rd                          \* missing files and files that are not tables do not open
    /\ UNCHANGED <<disk, wr, us, mg, so, fs, it, pl>>
RDestroy(r) == r \in DOMAIN rd /\ rd' = Del(rd, r) /\ UNCHANGED <<disk, wr, us, mg, so, fs, it, pl>>
\* the counters that are functions of the logical content (the block-level ones are C09/C10's Writer layer)
RMetaOk(r, entries, bkeys, bvals) ==
    LET t == rd[r].t IN
    /\ entries = Len(t)
    /\ bkeys = SumSeq([i \in 1..Len(t) |-> Len(t[i].k)])
    /\ bvals = SumSeq([i \in 1..Len(t) |-> VLen(t[i].v)])

\* ------------------------------------------------------------------ user sources, mergers
UInit(u) == us' = Upd(us, u, [t |-> <<>>]) /\ UNCHANGED <<disk, wr, rd, mg, so, fs, it, pl>>
UAdd(u, k, v) == us' = [us EXCEPT ![u].t = SortSeq(Append(@, [k |-> k, v |-> v]), EntLt)] /\ UNCHANGED <<disk, wr, rd, mg, so, fs, it, pl>>
UDestroy(u) == us' = Del(us, u) /\ UNCHANGED <<disk, wr, rd, mg, so, fs, it, pl>>

MInit(m, merge, failtok, dupsort) ==
    /\ mg' = Upd(mg, m, [srcs |-> <<>>, merge |-> merge, failtok |-> failtok, dupsort |-> dupsort])
    /\ UNCHANGED <<disk, wr, rd, us, so, fs, it, pl>>
MAdd(m, src) == /\ m \in DOMAIN mg
                /\ mg' = [mg EXCEPT ![m].srcs = Append(@, src)]
                /\ UNCHANGED <<disk, wr, rd, us, so, fs, it, pl>>
MDestroy(m) == m \in DOMAIN mg /\ mg' = Del(mg, m) /\ UNCHANGED <<disk, wr, rd, us, so, fs, it, pl>>

(* What a source presents: [t |-> table, ord |-> order inside equal keys promised, ft |-> failing token or -1].
   Mergers may be nested (a merger's source is any source); depth is bounded by the scripts (<= 3). *)
MergedOf(parts, merge, dupsort) ==
    LET tabs == [i \in 1..Len(parts) |-> parts[i].t]
    IN IF merge THEN [t |-> MergeFold(tabs), ord |-> TRUE]
       ELSE [t |-> AllSorted(tabs), ord |-> dupsort]

\* files a fileset handle presents: names loaded at the last reload that pass the handle's filters
FsView(h) == LET sh == fs.shared IN
             SelectSeq(sh.loaded, LAMBDA e : fs.h[h].fnaccept[e.name] /\ fs.h[h].rdaccept[e.name])

RECURSIVE Content(_)
Content(src) ==
    CASE src.t = "r" -> [t |-> rd[src.n].t, ord |-> TRUE]
      [] src.t = "u" -> [t |-> us[src.n].t, ord |-> Strict(us[src.n].t)]
      [] src.t = "m" -> LET m == mg[src.n] IN
                        MergedOf([i \in 1..Len(m.srcs) |-> Content(m.srcs[i])], m.merge, m.dupsort)
      [] src.t = "f" -> LET h == fs.h[src.n] v == FsView(src.n) IN
                        MergedOf([i \in 1..Len(v) |-> [t |-> v[i].t, ord |-> TRUE]], h.merge, h.dupsort)

\* does producing entry e of a merged table involve a failing merge call?
FailTokOf(src) == IF src.t = "m" THEN mg[src.n].failtok ELSE -1
EntryFails(e, ft) == ft >= 0 /\ "n" \in DOMAIN e /\ e.n > 1 /\ \E i \in 1..Len(Tokens(e.v)) : Tokens(e.v)[i] = ft

\* ------------------------------------------------------------------ iterators (C02 C03 C05)
Bound(kind, k0, k1) == [kind |-> kind, k0 |-> k0, k1 |-> k1]

\* Opening any kind of iterator on a source. A NULL iterator is an iterator that yields nothing: allowed exactly
\* when the lookup is empty.
OpenOn(i, src, b, null, content) ==
    /\ null => Lookup(content.t, b) = <<>>
    /\ it' = Upd(it, i, [null |-> null, src |-> src, ft |-> FailTokOf(src), broken |-> FALSE,
                         c |-> OpenCursor(content.t, content.ord, b)])
Open(i, src, b, null) ==
    /\ src.t # "f"
    /\ OpenOn(i, src, b, null, Content(src))
    /\ UNCHANGED <<disk, wr, rd, us, mg, so, fs, pl>>

Seek(i, k) ==
    /\ i \in DOMAIN it
    /\ Le(Start(it[i].c.b), k)                    \* the harness never seeks below the start of the range
    /\ ~it[i].broken
    /\ it' = [it EXCEPT ![i].c = SeekCursor(@, k)]
    /\ UNCHANGED <<disk, wr, rd, us, mg, so, fs, pl>>

NextHit(i, k, v) ==
    /\ i \in DOMAIN it /\ ~it[i].null /\ ~it[i].broken
    /\ NextOk(it[i].c) /\ ~EntryFails(it[i].c.t[it[i].c.pos], it[i].ft)
    /\ \E c2 \in NextTo(it[i].c, k, v) : it' = [it EXCEPT ![i].c = c2]
    /\ UNCHANGED <<disk, wr, rd, us, mg, so, fs, pl>>
NextMiss(i) ==
    /\ i \in DOMAIN it /\ ~it[i].broken
    /\ \/ /\ ~NextOk(it[i].c)
          /\ it' = [it EXCEPT ![i].c = FailNext(@)]
       \/ /\ NextOk(it[i].c) /\ EntryFails(it[i].c.t[it[i].c.pos], it[i].ft)      \* the merge function reported failure
          /\ it' = [it EXCEPT ![i].broken = TRUE]
    /\ UNCHANGED <<disk, wr, rd, us, mg, so, fs, pl>>
Close(i) == i \in DOMAIN it /\ it' = Del(it, i) /\ UNCHANGED <<disk, wr, rd, us, mg, so, fs, pl>>

\* mtbl_source_write(src, w): every entry of the source is offered to the writer in order; stops at the first refusal
SrcWrite(src, w, ok) ==
    LET t == StripN(Content(src).t)
        old == wr[w].t
        \* longest prefix of t that the gate accepts
        acc(n) == \A j \in 1..n : IF j = 1 THEN AddOk(old, t[1].k) ELSE Lt(t[j-1].k, t[j].k)
        n == CHOOSE q \in 0..Len(t) : acc(q) /\ (q = Len(t) \/ ~acc(q + 1))
    IN /\ w \in DOMAIN wr
       /\ ok <=> n = Len(t)
       /\ wr' = [wr EXCEPT ![w].t = old \o SubSeq(t, 1, n)]
       /\ UNCHANGED <<disk, rd, us, mg, so, fs, it, pl>>
====
