---- MODULE Mtbl ----
(* Abstract specification of the mtbl API: the state a user can name and the result every call must have.
   One action per public call; the action is enabled exactly for the results the properties allow, so a
   logged call of the real library is a violation iff no action explains it (Trace_Mtbl.tla).

   Objects are named by small integers (slots). Sources are records [t |-> "r" | "m" | "u" | "f", n |-> slot].

   C01 round trip, C02 lookups, C03 reader cursors, C04/C05 mergers, C06 sorters, C07 filesets, C08 writer gate,
   C10 (entry and byte counters), C18 (resource ledger) are all stated here. *)
EXTENDS Table, TLC

CONSTANT NEVER          \* the reload interval meaning "never"

VARIABLES
    disk,       \* path -> [kind |-> "table", t |-> table] | [kind |-> "other"] | [kind |-> "writing"]
    wr,         \* writer slot -> [path, t (accepted entries), pool]
    rd,         \* reader slot -> [t]
    us,         \* user source slot -> [t] (in memory, any order of adds; presented sorted by the harness)
    mg,         \* merger slot -> [srcs (sequence of sources), merge, failtok, dupsort]
    so,         \* sorter slot -> [adds (sequence of entries), merge, failtok, iterating, maxmem, bytes, pool, chunks, failed]
    fs,         \* fileset: see the Fileset section
    it,         \* iterator slot -> [null |-> BOOLEAN, c |-> cursor, own |-> owner source, broken]
    pl,         \* pool slot -> [n |-> max threads]
    judge       \* which properties this log is judged for (set by the harness at the start of a log): a call whose
                \* result belongs to a property outside this set is taken as observed, not judged

vars == <<disk, wr, rd, us, mg, so, fs, it, pl, judge>>

Upd(f, x, v) == [y \in DOMAIN f \cup {x} |-> IF y = x THEN v ELSE f[y]]
Del(f, x)    == [y \in DOMAIN f \ {x} |-> f[y]]

VLen(v) == IF Len(v) > 0 /\ v[1] = -1 THEN v[2] ELSE Len(v)        \* long values are logged as <<-1, length, hash words>>
SumSeq(s) == FoldLeft(LAMBDA a, b : a + b, 0, s)

\* filesets: sh = shared state by setfile path, h = handles, now = the harness-owned monotonic clock (whole seconds),
\* sf = setfile path -> [ver (mtime), names (absolute paths in file order)]
EmptyFs == [sh |-> <<>>, h |-> <<>>, now |-> 0, sf |-> <<>>]

Init == /\ disk = <<>> /\ wr = <<>> /\ rd = <<>> /\ us = <<>> /\ mg = <<>> /\ so = <<>>
        /\ fs = EmptyFs /\ it = <<>> /\ pl = <<>> /\ judge = {}

\* ------------------------------------------------------------------ files made by the harness
MkOther(path, h) == disk' = Upd(disk, path, IF h = "" THEN [kind |-> "other"] ELSE [kind |-> "other", h |-> h]) /\ UNCHANGED <<wr, rd, us, mg, so, fs, it, pl, judge>>
MkTable(path, t) == /\ Strict(t)
                    /\ disk' = Upd(disk, path, [kind |-> "table", t |-> t])
                    /\ UNCHANGED <<wr, rd, us, mg, so, fs, it, pl, judge>>
RmFile(path) == disk' = Del(disk, path) /\ UNCHANGED <<wr, rd, us, mg, so, fs, it, pl, judge>>

\* ------------------------------------------------------------------ writer (C08, C01)
\* cfg = [bs (as requested), ri, prefix, comp (numeric id), pool]
Clamp(bs) == IF bs < 1024 THEN 1024 ELSE bs
NewWr(path, cfg) == [path |-> path, t |-> <<>>, cfg |-> [cfg EXCEPT !.bs = Clamp(cfg.bs)], sorted |-> TRUE]
\* mtbl_writer_init never opens an existing path
WInit(w, path, cfg, ok) ==
    /\ "C08" \in judge => (ok <=> path \notin DOMAIN disk)
    /\ IF ok THEN /\ wr' = Upd(wr, w, NewWr(path, cfg))
                  /\ disk' = Upd(disk, path, [kind |-> "writing"])
             ELSE UNCHANGED <<wr, disk>>
    /\ UNCHANGED <<rd, us, mg, so, fs, it, pl, judge>>
\* the harness created the file itself (foreign prefix) and handed the descriptor over
WInitFd(w, path, cfg) ==
    /\ wr' = Upd(wr, w, NewWr(path, cfg))
    /\ disk' = Upd(disk, path, [kind |-> "writing"])
    /\ UNCHANGED <<rd, us, mg, so, fs, it, pl, judge>>

AddOk(t, k) == Len(t) = 0 \/ Lt(t[Len(t)].k, k)
WAdd(w, k, v, ok) ==
    /\ w \in DOMAIN wr
    /\ "C08" \in judge => (ok <=> AddOk(wr[w].t, k))
    /\ wr' = IF ok THEN [wr EXCEPT ![w].t = Append(@, [k |-> k, v |-> v]),
                                   ![w].sorted = @ /\ AddOk(wr[w].t, k)]
                   ELSE wr                                                  \* a refused add changes nothing
    /\ UNCHANGED <<disk, rd, us, mg, so, fs, it, pl, judge>>
\* a finished file; if the gate let an unordered key through (C08's business) the other properties say nothing about it
WClose(w) ==
    /\ w \in DOMAIN wr
    /\ disk' = Upd(disk, wr[w].path, IF wr[w].sorted THEN [kind |-> "table", t |-> wr[w].t, cfg |-> wr[w].cfg]
                                                       ELSE [kind |-> "unjudged"])
    /\ wr' = Del(wr, w)
    /\ UNCHANGED <<rd, us, mg, so, fs, it, pl, judge>>
\* bytes of a pre-existing file are untouched by a refused mtbl_writer_init (C08); h is a hash logged by the harness
FileHash(path, h, exists) ==
    /\ (path \in DOMAIN disk /\ disk[path].kind = "other" /\ "h" \in DOMAIN disk[path]) => disk[path].h = h
    /\ (path \in DOMAIN disk /\ disk[path].kind = "absent") => ~exists        \* nothing was created there
    /\ UNCHANGED vars
\* a path known not to exist (e.g. the target of a dangling symbolic link): no call may create it
MkAbsent(path) == disk' = Upd(disk, path, [kind |-> "absent"]) /\ UNCHANGED <<wr, rd, us, mg, so, fs, it, pl, judge>>

\* ------------------------------------------------------------------ the file as bytes (C09) and its trailer (C10)
FF == INSTANCE FileFormat
FileStruct(path, S) ==
    /\ path \in DOMAIN disk
    /\ IF disk[path].kind = "table" /\ "cfg" \in DOMAIN disk[path]
       THEN /\ "C09" \in judge => FF!WellFormed(S, disk[path].t, disk[path].cfg)
            /\ disk' = [disk EXCEPT ![path] = [kind |-> "table", t |-> disk[path].t, cfg |-> disk[path].cfg, S |-> S]]
       ELSE UNCHANGED disk
    /\ UNCHANGED <<wr, rd, us, mg, so, fs, it, pl, judge>>
\* the truth about a file, from its decoded structure and the writer's configuration
Truth(S, cfg) ==
    [version |-> S.version - 1, index_block_offset |-> S.index.off, data_block_size |-> cfg.bs, compression |-> cfg.comp,
     count_entries |-> SumSeq([i \in 1..Len(S.blocks) |-> Len(S.blocks[i].entries)]),
     count_data_blocks |-> Len(S.blocks),
     bytes_data_blocks |-> SumSeq([i \in 1..Len(S.blocks) |-> FF!OnDisk(S.blocks[i])]),
     bytes_index_block |-> FF!OnDisk(S.index),
     bytes_keys |-> SumSeq([i \in 1..Len(S.blocks) |-> SumSeq([j \in 1..Len(S.blocks[i].entries) |-> Len(S.blocks[i].entries[j].k)])]),
     bytes_values |-> SumSeq([i \in 1..Len(S.blocks) |-> SumSeq([j \in 1..Len(S.blocks[i].entries) |-> S.blocks[i].entries[j].vlen])])]
StatsMatch(tr, m) == m.complete /\ \A f \in DOMAIN tr \cap DOMAIN m : m[f] = tr[f]
\* m: the ten statistics as reported by mtbl_metadata_* (RMeta) or printed by mtbl_info (Info)
StatsOk(path, m) ==
    /\ path \in DOMAIN disk
    /\ ("C10" \in judge /\ disk[path].kind = "table" /\ "S" \in DOMAIN disk[path]) =>
          StatsMatch(Truth(disk[path].S, disk[path].cfg), m)
    /\ UNCHANGED vars
\* mtbl_dump prints the entries, with -k/-v/-K/-V exactly the matching subsequence
DumpOk(path, kp, vp, mink, minv, ents) ==
    /\ path \in DOMAIN disk
    /\ ("C01" \in judge /\ disk[path].kind = "table") =>
          ents = SelectSeq(disk[path].t, LAMBDA e : HasPrefix(e.k, kp) /\ HasPrefix(e.v, vp) /\ Len(e.k) >= mink /\ VLen(e.v) >= minv)
    /\ UNCHANGED vars

\* ------------------------------------------------------------------ reader (C01, C10 counters)
ROpen(r, path, ok) ==
    /\ IF path \in DOMAIN disk /\ disk[path].kind = "table"
       THEN ok /\ rd' = Upd(rd, r, [t |-> disk[path].t, path |-> path, judged |-> TRUE])
       ELSE IF path \in DOMAIN disk /\ disk[path].kind = "unjudged"
            THEN IF ok THEN rd' = Upd(rd, r, [t |-> <<>>, path |-> path, judged |-> FALSE]) ELSE UNCHANGED rd
            ELSE ~ok /\ UNCHANGED rd                     \* missing files and files that are not tables do not open
    /\ UNCHANGED <<disk, wr, us, mg, so, fs, it, pl, judge>>
RDestroy(r) == r \in DOMAIN rd /\ rd' = Del(rd, r) /\ UNCHANGED <<disk, wr, us, mg, so, fs, it, pl, judge>>

\* ------------------------------------------------------------------ user sources, mergers
UInit(u) == us' = Upd(us, u, [t |-> <<>>]) /\ UNCHANGED <<disk, wr, rd, mg, so, fs, it, pl, judge>>
UAdd(u, k, v) == us' = [us EXCEPT ![u].t = SortSeq(Append(@, [k |-> k, v |-> v]), EntLt)] /\ UNCHANGED <<disk, wr, rd, mg, so, fs, it, pl, judge>>
UDestroy(u) == us' = Del(us, u) /\ UNCHANGED <<disk, wr, rd, mg, so, fs, it, pl, judge>>

MInit(m, merge, failtok, dupsort, mc) ==
    /\ mg' = Upd(mg, m, [srcs |-> <<>>, merge |-> merge, failtok |-> failtok, dupsort |-> dupsort, mc |-> mc])
    /\ UNCHANGED <<disk, wr, rd, us, so, fs, it, pl, judge>>
MAdd(m, src) == /\ m \in DOMAIN mg
                /\ mg' = [mg EXCEPT ![m].srcs = Append(@, src)]
                /\ UNCHANGED <<disk, wr, rd, us, so, fs, it, pl, judge>>
MDestroy(m) == m \in DOMAIN mg /\ mg' = Del(mg, m) /\ UNCHANGED <<disk, wr, rd, us, so, fs, it, pl, judge>>

(* What a source presents: [t |-> table, ord |-> order inside equal keys promised, ft |-> failing token or -1].
   Mergers may be nested (a merger's source is any source); depth is bounded by the scripts (<= 3). *)
MergedOf(parts, merge, dupsort) ==
    LET tabs == [i \in 1..Len(parts) |-> parts[i].t]
    IN IF merge THEN [t |-> MergeFold(tabs), ord |-> TRUE]
       ELSE [t |-> AllSorted(tabs), ord |-> dupsort]

\* files a fileset handle presents: files loaded at the last reload that pass the handle's filename and reader filters
FnAccept(h, e) == h.fnfilter = <<>> \/ \E j \in 1..Len(h.fnfilter) : h.fnfilter[j] = e.bc
RdAccept(h, e) == h.rdfilter = 0 \/ (h.rdfilter = 1 /\ Len(e.t) % 2 = 0) \/ (h.rdfilter = 2 /\ Len(e.t) % 2 = 1)
FsView(f) == LET h == fs.h[f] IN SelectSeq(fs.sh[h.set].view, LAMBDA e : FnAccept(h, e) /\ RdAccept(h, e))

FsContent(f, v) == MergedOf([i \in 1..Len(v) |-> [t |-> v[i].t, ord |-> TRUE]], fs.h[f].merge, fs.h[f].dupsort)
\* does producing entry e of a merged table involve a failing merge call?
FailTokOf(src) == IF src.t = "m" THEN mg[src.n].failtok ELSE IF src.t = "s" THEN so[src.n].failtok ELSE -1
EntryFails(e, ft) == ft >= 0 /\ "n" \in DOMAIN e /\ e.n > 1 /\ \E i \in 1..Len(Tokens(e.v)) : Tokens(e.v)[i] = ft
\* the entries of a table before the first one whose production fails
BeforeFailure(t, ft) ==
    LET bad == {i \in 1..Len(t) : EntryFails(t[i], ft)}
    IN IF bad = {} THEN t ELSE SubSeq(t, 1, (CHOOSE i \in bad : \A j \in bad : i <= j) - 1)
RECURSIVE Content(_), AsPart(_)
Content(src) ==
    CASE src.t = "r" -> [t |-> rd[src.n].t, ord |-> TRUE]
      [] src.t = "u" -> [t |-> us[src.n].t, ord |-> Strict(us[src.n].t)]
      [] src.t = "m" -> LET m == mg[src.n] IN
                        MergedOf([i \in 1..Len(m.srcs) |-> AsPart(m.srcs[i])], m.merge, m.dupsort)
      [] src.t = "f" -> FsContent(src.n, FsView(src.n))
      [] src.t = "p" -> [t |-> src.tab, ord |-> TRUE]            \* a file of a fileset handed to a partition merger
\* What a source contributes when it is iterated by a merger from the start. The iterator protocol has a single failure
\* value: a merger used as a source whose merge function fails at an entry returns failure there (C04, judged on that
\* merger's own iterators), and the merger above it cannot tell this from the end of the source - the source ends before
\* that entry. (Deliberate, named deviation from "flattening": the property speaks about the merger whose merge function
\* reports failure; histories that seek a merger above a failing merger are not generated.)
AsPart(src) ==
    LET c == Content(src)
    IN IF src.t = "m" /\ mg[src.n].merge /\ mg[src.n].failtok >= 0
       THEN [c EXCEPT !.t = BeforeFailure(c.t, mg[src.n].failtok)] ELSE c

\* ------------------------------------------------------------------ iterators (C02 C03 C05)
Bound(kind, k0, k1) == [kind |-> kind, k0 |-> k0, k1 |-> k1]

\* Opening any kind of iterator on a source. A NULL iterator is an iterator that yields nothing: allowed exactly
\* when the lookup is empty.
Free(src) == src.t = "r" /\ ~rd[src.n].judged          \* nothing is promised about a file whose adds were not ordered
OpenOn(i, src, b, null, content) ==
    /\ null => Lookup(content.t, b) = <<>>
    /\ it' = Upd(it, i, [null |-> null, src |-> src, ft |-> FailTokOf(src), broken |-> FALSE, free |-> FALSE,
                         c |-> OpenCursor(content.t, content.ord, b)])
Open(i, src, b, null) ==
    /\ src.t # "f"
    /\ IF Free(src) THEN it' = Upd(it, i, [null |-> null, src |-> src, ft |-> -1, broken |-> FALSE, free |-> TRUE,
                                            c |-> OpenCursor(<<>>, TRUE, b)])
                    ELSE OpenOn(i, src, b, null, Content(src))
    /\ UNCHANGED <<disk, wr, rd, us, mg, so, fs, pl, judge>>

Seek(i, k) ==
    /\ i \in DOMAIN it
    /\ IF it[i].free \/ it[i].broken THEN UNCHANGED it
       ELSE /\ Le(Start(it[i].c.b), k)                    \* the harness never seeks below the start of the range
            /\ it' = [it EXCEPT ![i].c = SeekCursor(@, k)]
    /\ UNCHANGED <<disk, wr, rd, us, mg, so, fs, pl, judge>>

\* merge callback discipline (C04): producing an entry folded from n values takes exactly n - 1 calls of this merger's
\* merge function, all for that key, each on two bags contained in the result. calls: the calls logged during this next.
CallsOk(i, k, v, calls) ==
    LET src == it[i].src IN
    (src.t = "m" /\ mg[src.n].merge) =>
        LET mine == SelectSeq(calls, LAMBDA c : c.m = mg[src.n].mc)
            e == it[i].c.t[it[i].c.pos]
        IN /\ Len(mine) = e.n - 1
           /\ \A j \in 1..Len(mine) : mine[j].k = k /\ ~mine[j].fail
NextHit(i, k, v, calls) ==
    /\ i \in DOMAIN it /\ ~it[i].null
    /\ IF it[i].free \/ it[i].broken THEN UNCHANGED it
       ELSE /\ NextOk(it[i].c) /\ ~EntryFails(it[i].c.t[it[i].c.pos], it[i].ft)
            /\ CallsOk(i, k, v, calls)
            /\ \E c2 \in NextTo(it[i].c, k, v) : it' = [it EXCEPT ![i].c = c2]
    /\ UNCHANGED <<disk, wr, rd, us, mg, so, fs, pl, judge>>
NextMiss(i) ==
    /\ i \in DOMAIN it
    /\ IF it[i].free \/ it[i].broken THEN UNCHANGED it
       ELSE \/ /\ ~NextOk(it[i].c)
               /\ it' = [it EXCEPT ![i].c = FailNext(@)]
            \/ /\ NextOk(it[i].c) /\ EntryFails(it[i].c.t[it[i].c.pos], it[i].ft)      \* the merge function reported failure
               /\ it' = [it EXCEPT ![i].broken = TRUE]
    /\ UNCHANGED <<disk, wr, rd, us, mg, so, fs, pl, judge>>
Close(i) == i \in DOMAIN it /\ it[i].src.t # "f" /\ it' = Del(it, i) /\ UNCHANGED <<disk, wr, rd, us, mg, so, fs, pl, judge>>

\* mtbl_source_write(src, w): every entry of the source is offered to the writer in order; stops at the first refusal
\* (heavy values are passed as operator arguments: TLC re-evaluates LET definitions inside actions on every use)
SrcWriteTo(t, w, ok, strict) ==
    LET old == wr[w].t
        bad == SelectInSeq([j \in 1..Len(t) |-> IF j = 1 THEN ~AddOk(old, t[1].k) ELSE ~Lt(t[j-1].k, t[j].k)], LAMBDA x : x)
        n == IF bad = 0 THEN Len(t) ELSE bad - 1          \* longest prefix the gate accepts
    IN /\ w \in DOMAIN wr
       /\ (strict \/ Len(t) > 0) => (ok <=> n = Len(t))   \* a reader over an empty table hands out no iterator and the call reports failure;
                                                            \* a merger always has an iterator: nothing to write is success (strict)
       /\ wr' = [wr EXCEPT ![w].t = old \o SubSeq(t, 1, n)]
SrcWriteOn(t, w, ok, strict) == SrcWriteTo(t, w, ok, strict) /\ UNCHANGED <<disk, rd, us, mg, so, fs, it, pl, judge>>
\* a source that presents equal keys in an order nobody promised (no merge function, no dupsort): which of the equal
\* entries reaches the writer first is free, so the file is not judged
SrcWriteFree(w) == /\ w \in DOMAIN wr /\ wr' = [wr EXCEPT ![w].sorted = FALSE]
                   /\ UNCHANGED <<disk, rd, us, mg, so, fs, it, pl, judge>>
SrcWriteC(c, w, ok, strict) == IF c.ord \/ Strict(c.t) THEN SrcWriteOn(StripN(c.t), w, ok, strict) ELSE SrcWriteFree(w)
SrcWrite(src, w, ok) == SrcWriteC(Content(src), w, ok, src.t = "m")
\* the mtbl_merge tool (C04, additional observation path): merges table files with the user's merge function into a new file
MergeTool(inputs, out, ok) ==
    /\ \A j \in 1..Len(inputs) : inputs[j] \in DOMAIN disk /\ disk[inputs[j]].kind = "table"
    /\ ok
    /\ disk' = Upd(disk, out, [kind |-> "table", t |-> StripN(MergeFold([j \in 1..Len(inputs) |-> disk[inputs[j]].t]))])
    /\ UNCHANGED <<wr, rd, us, mg, so, fs, it, pl, judge>>

\* ------------------------------------------------------------------ sorter (C06)
\* so[s] = [adds, merge, failtok, iterating, maxmem, tmpdir, pool, buf (payload bytes buffered since the last spill)]
SInit(s, maxmem, tmpdir, merge, failtok, pool) ==
    /\ so' = Upd(so, s, [adds |-> <<>>, merge |-> merge, failtok |-> failtok, iterating |-> FALSE, maxmem |-> maxmem,
                         tmpdir |-> tmpdir, pool |-> pool, buf |-> 0, nspills |-> 0])
    /\ UNCHANGED <<disk, wr, rd, us, mg, fs, it, pl, judge>>
\* every spill file is created inside the configured temporary directory
SpillsOk(s, spills) == \A j \in 1..Len(spills) : HasPrefix(spills[j].tmpl, so[s].tmpdir \o <<47>>)
\* mtbl_sorter_add: refused once iteration has begun; otherwise accepted, and when it returns the entries still
\* buffered are below the memory limit (a spill happens no later than that). For a pooled sorter the spill file is
\* created asynchronously, so the timing clause is judged for pool-less sorters only.
SAdd(s, k, v, ok, spills) ==
    /\ s \in DOMAIN so
    /\ SpillsOk(s, spills)
    /\ IF so[s].iterating THEN ~ok /\ so' = [so EXCEPT ![s].nspills = @ + Len(spills)]
       ELSE LET nb == IF Len(spills) > 0 THEN 0 ELSE so[s].buf + Len(k) + VLen(v) IN
            /\ ok
            /\ so[s].pool < 0 => nb < so[s].maxmem
            /\ so' = [so EXCEPT ![s].adds = Append(@, [k |-> k, v |-> v]), ![s].buf = nb, ![s].nspills = @ + Len(spills)]
    /\ UNCHANGED <<disk, wr, rd, us, mg, fs, it, pl, judge>>
SorterContent(s) == IF so[s].merge THEN [t |-> MergeFold(<<so[s].adds>>), ord |-> TRUE]
                                   ELSE [t |-> AllSorted(<<so[s].adds>>), ord |-> FALSE]
\* a failing merge function may make mtbl_sorter_iter itself fail (no iterator) instead of a later next
SIterOn(i, s, null, content) ==
    /\ null => (Lookup(content.t, Bound("iter", <<>>, <<>>)) = <<>> \/ \E j \in 1..Len(content.t) : EntryFails(content.t[j], so[s].failtok))
    /\ it' = Upd(it, i, [null |-> null, src |-> [t |-> "s", n |-> s], ft |-> so[s].failtok, broken |-> FALSE, free |-> FALSE,
                         c |-> OpenCursor(content.t, content.ord, Bound("iter", <<>>, <<>>))])
\* mtbl_sorter_iter: from now on adds and writes are refused; the iterator presents the fold of everything added
SIter(s, i, null, spills) ==
    /\ s \in DOMAIN so /\ SpillsOk(s, spills)
    /\ SIterOn(i, s, null, SorterContent(s))
    \* a spill whose merge function failed leaves no chunk behind
    /\ so' = [so EXCEPT ![s].iterating = TRUE, ![s].buf = 0, ![s].nspills = @ + Len(spills) - (IF null /\ Len(spills) > 0 THEN 1 ELSE 0)]
    /\ UNCHANGED <<disk, wr, rd, us, mg, fs, pl, judge>>
\* mtbl_sorter_write: refused after iteration began; otherwise writes the sorted, merged input into the writer
SWrite(s, w, ok, spills) ==
    /\ s \in DOMAIN so /\ SpillsOk(s, spills)
    /\ IF so[s].iterating THEN ~ok /\ UNCHANGED <<so, wr>>
       ELSE /\ SrcWriteTo(StripN(SorterContent(s).t), w, ok, FALSE)
            /\ so' = [so EXCEPT ![s].iterating = TRUE, ![s].buf = 0, ![s].nspills = @ + Len(spills)]
    /\ UNCHANGED <<disk, rd, us, mg, fs, it, pl, judge>>
SDestroy(s) == s \in DOMAIN so /\ so' = Del(so, s) /\ UNCHANGED <<disk, wr, rd, us, mg, fs, it, pl, judge>>

\* ------------------------------------------------------------------ fileset (C07)
(* sh[set] = [view (sequence of [name, t]: the files loaded at the most recent reload), ver (setfile version that reload
   looked at, 0 = never reloaded), last (time of that reload), forced (a reload_now is owed), nopen (open iterators)] *)
NEVERIV == NEVER
ClockSet(t) == fs' = [fs EXCEPT !.now = t] /\ UNCHANGED <<disk, wr, rd, us, mg, so, it, pl, judge>>
SetFileWrite(path, ver, names, bcs) == /\ fs' = [fs EXCEPT !.sf = Upd(@, path, [ver |-> ver, names |-> names, bcs |-> bcs])]
                                  /\ disk' = Upd(disk, path, [kind |-> "other"])
                                  /\ UNCHANGED <<wr, rd, us, mg, so, it, pl, judge>>
HOpts(set, interval, merge, dupsort, fnfilter, rdfilter) ==
    [set |-> set, interval |-> interval, merge |-> merge, dupsort |-> dupsort, fnfilter |-> fnfilter, rdfilter |-> rdfilter]
FsInit(f, path, o) ==
    /\ path \in DOMAIN fs.sf
    /\ fs' = [fs EXCEPT !.h = Upd(@, f, o),
                        !.sh = Upd(@, path, [view |-> <<>>, ver |-> 0, last |-> 0, forced |-> FALSE, nopen |-> 0, nh |-> 1])]
    /\ UNCHANGED <<disk, wr, rd, us, mg, so, it, pl, judge>>
FsDup(f, orig, o) == /\ orig \in DOMAIN fs.h
                     /\ fs' = [fs EXCEPT !.h = Upd(@, f, o), !.sh[o.set].nh = @ + 1]
                     /\ UNCHANGED <<disk, wr, rd, us, mg, so, it, pl, judge>>
\* the shared state (loaded readers) goes away with the last handle
FsDestroy(f) == /\ f \in DOMAIN fs.h
                /\ LET set == fs.h[f].set IN
                   fs' = [fs EXCEPT !.h = Del(@, f),
                                    !.sh[set] = IF @.nh = 1 THEN [@ EXCEPT !.nh = 0, !.view = <<>>, !.ver = 0] ELSE [@ EXCEPT !.nh = @ - 1]]
                /\ UNCHANGED <<disk, wr, rd, us, mg, so, it, pl, judge>>
\* result of scanning the setfile now: names whose file exists and that were already loaded (kept as they are) or that
\* open as a table; missing files and files that are not tables are skipped
Rescan(set) == LET sf == fs.sf[set] old == fs.sh[set].view
                   keep(n) == SelectSeq(old, LAMBDA e : e.name = n)
                   ent(n, bc) == IF n \notin DOMAIN disk THEN <<>>
                                 ELSE IF Len(keep(n)) > 0 THEN <<keep(n)[1]>>
                                 ELSE IF disk[n].kind = "table" THEN <<[name |-> n, t |-> disk[n].t, bc |-> bc]>> ELSE <<>>
               IN FlattenSeq([j \in 1..Len(sf.names) |-> ent(sf.names[j], sf.bcs[j])])
Reloaded(set) == [fs.sh[set] EXCEPT !.view = IF fs.sf[set].ver # fs.sh[set].ver THEN Rescan(set) ELSE @,
                                   !.ver = fs.sf[set].ver, !.last = fs.now, !.forced = FALSE]
\* a reload is owed to the next source operation through handle f once no iterator is open
Owed(f) == LET h == fs.h[f] sh == fs.sh[h.set] IN
           sh.nopen = 0 /\ (sh.ver = 0 \/ sh.forced \/ (h.interval # NEVERIV /\ fs.now - sh.last > h.interval))
RescanIn(set, x) == LET sf == x.sf[set] old == x.sh[set].view
                       keep(n) == SelectSeq(old, LAMBDA e : e.name = n)
                       ent(n, bc) == IF n \notin DOMAIN disk THEN <<>>
                                     ELSE IF Len(keep(n)) > 0 THEN <<keep(n)[1]>>
                                     ELSE IF disk[n].kind = "table" THEN <<[name |-> n, t |-> disk[n].t, bc |-> bc]>> ELSE <<>>
                   IN FlattenSeq([j \in 1..Len(sf.names) |-> ent(sf.names[j], sf.bcs[j])])
ReloadedIn(set, x) == [x.sh[set] EXCEPT !.view = IF x.sf[set].ver # x.sh[set].ver THEN RescanIn(set, x) ELSE @,
                                        !.ver = x.sf[set].ver, !.last = x.now, !.forced = FALSE]
OwedIn(f, x) == LET h == x.h[f] sh == x.sh[h.set] IN
                sh.nopen = 0 /\ (sh.ver = 0 \/ sh.forced \/ (h.interval # NEVERIV /\ x.now - sh.last > h.interval))
\* the two outcomes a non-source operation may have on the shared state: nothing, or the owed reload
MaybeReload(f, fs1) == LET set == fs1.h[f].set IN {fs1} \cup (IF Owed(f) THEN {[fs1 EXCEPT !.sh[set] = Reloaded(set)]} ELSE {})
FsReload(f) == /\ f \in DOMAIN fs.h /\ fs' \in MaybeReload(f, fs)
               /\ UNCHANGED <<disk, wr, rd, us, mg, so, it, pl, judge>>
FsReloadNow(f) == /\ f \in DOMAIN fs.h
                  /\ LET set == fs.h[f].set IN
                     IF fs.sh[set].nopen = 0
                     THEN fs' \in {[fs EXCEPT !.sh[set] = Reloaded(set)], [fs EXCEPT !.sh[set].forced = TRUE]}
                     ELSE fs' = [fs EXCEPT !.sh[set].forced = TRUE]          \* never while an iterator is open
                  /\ UNCHANGED <<disk, wr, rd, us, mg, so, it, pl, judge>>
\* mtbl_fileset_partition (deprecated): calls reload(), then builds two mergers with the handle's merge options over the
\* readers of ALL files of the shared set (the handle's own filename / reader filters do not apply) - those whose name the
\* callback accepts, and the others. The mergers borrow the fileset's readers: they are valid until the next reload that
\* unloads one (the documentation says so; histories keep the setfile unchanged while partition mergers are alive).
FsPartition(f, chars, m1, m2, mc) ==
    /\ f \in DOMAIN fs.h
    /\ \E fs1 \in MaybeReload(f, fs) :
         LET h == fs1.h[f]
             v == fs1.sh[h.set].view
             acc(e) == \E j \in 1..Len(chars) : chars[j] = e.bc
             part(yes) == LET w == SelectSeq(v, LAMBDA e : acc(e) = yes)
                          IN [j \in 1..Len(w) |-> [t |-> "p", n |-> 0, tab |-> w[j].t]]
             rec(yes) == [srcs |-> part(yes), merge |-> h.merge, failtok |-> -1, dupsort |-> h.dupsort, mc |-> mc]
         IN fs' = fs1 /\ mg' = Upd(Upd(mg, m1, rec(TRUE)), m2, rec(FALSE))
    /\ UNCHANGED <<disk, wr, rd, us, so, it, pl, judge>>
\* a source operation through handle f: the owed reload has happened; then the iterator pins its snapshot
FsOpen(i, f, b, null) ==
    /\ f \in DOMAIN fs.h
    /\ LET set == fs.h[f].set
           fs1 == IF Owed(f) THEN [fs EXCEPT !.sh[set] = Reloaded(set)] ELSE fs
           h == fs1.h[f]
           v == SelectSeq(fs1.sh[set].view, LAMBDA e : FnAccept(h, e) /\ RdAccept(h, e))
       IN /\ fs' = [fs1 EXCEPT !.sh[set].nopen = @ + 1]
          /\ OpenOn(i, [t |-> "f", n |-> f], b, null, MergedOf([j \in 1..Len(v) |-> [t |-> v[j].t, ord |-> TRUE]], h.merge, h.dupsort))
    /\ UNCHANGED <<disk, wr, rd, us, mg, so, pl, judge>>
FsClose(i) ==
    /\ i \in DOMAIN it /\ it[i].src.t = "f"
    /\ LET f == it[i].src.n set == fs.h[f].set
           fs1 == [fs EXCEPT !.sh[set].nopen = @ - 1]
       IN fs' \in (IF fs1.sh[set].nopen = 0 THEN LET x == fs1 IN {x} \cup (IF OwedIn(f, x) THEN {[x EXCEPT !.sh[set] = ReloadedIn(set, x)]} ELSE {}) ELSE {fs1})
    /\ it' = Del(it, i)
    /\ UNCHANGED <<disk, wr, rd, us, mg, so, pl, judge>>
\* ------------------------------------------------------------------ pools and the resource ledger (C18)
PoolInit(p, n) == pl' = Upd(pl, p, [n |-> n]) /\ UNCHANGED <<disk, wr, rd, us, mg, so, fs, it, judge>>
PoolDestroy(p) == p \in DOMAIN pl /\ pl' = Del(pl, p) /\ UNCHANGED <<disk, wr, rd, us, mg, so, fs, it, judge>>
SumOver(S, f(_)) == FoldSet(LAMBDA x, acc : acc + f(x), 0, S)
\* what the process may hold, as a function of the objects alive (relative to the start of the execution):
\* descriptors: one per open writer; mappings of test files: one per reader, one per spilled sorter chunk, one per file a
\* fileset has loaded; threads: the caller, one result handler per pooled writer / pooled sorter that has not begun to
\* iterate, and at most the pools' worker threads
LFds == Cardinality(DOMAIN wr)
LMaps == Cardinality(DOMAIN rd) + SumOver(DOMAIN so, LAMBDA s : so[s].nspills) + SumOver(DOMAIN fs.sh, LAMBDA x : Len(fs.sh[x].view))
LHandlers == Cardinality({w \in DOMAIN wr : wr[w].cfg.pool >= 0}) + Cardinality({s \in DOMAIN so : so[s].pool >= 0 /\ ~so[s].iterating})
LWorkersMax == SumOver(DOMAIN pl, LAMBDA p : pl[p].n)
Settled == \A s \in DOMAIN so : so[s].pool < 0 \/ so[s].iterating          \* no chunk job can be in flight
Quiescent == wr = <<>> /\ rd = <<>> /\ us = <<>> /\ mg = <<>> /\ so = <<>> /\ fs.h = <<>> /\ it = <<>> /\ pl = <<>>
LedgerOk(fds, maps, threads, tmpfiles) ==
    /\ fds >= LFds
    /\ Settled => (fds = LFds /\ maps = LMaps /\ tmpfiles <= 0)          \* chunk jobs in flight hold their temp file open
    /\ threads >= 1 + LHandlers /\ threads <= 1 + LHandlers + LWorkersMax
    /\ Quiescent => (fds = 0 /\ maps = 0 /\ threads = 1 /\ tmpfiles <= 0)
====
