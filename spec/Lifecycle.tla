---- MODULE Lifecycle ----
(* C18. Object life cycles of the API and the resources they hold. A small fixed universe - one pool, one writer
   (pooled or not), two readers, a merger over them, a sorter (pooled or not, with or without a failing merge function),
   a fileset and a dup of it, three iterator slots - with the legal orders of creation, use and destruction: iterators
   may be abandoned before they are drained, sorters destroyed before or after iteration and with chunk jobs in flight,
   handles destroyed in any order, failing calls (refused add, failing merge callback, a file that is not a table).
   ledger = what the process holds beyond its state at start: descriptors, mappings of test files. Invariant
   Released: once every object is destroyed the ledger is empty. The same ledger rules, as functions of the abstract API
   state, judge the real process in Trace_Mtbl (Mtbl!LedgerOk). tlc -simulate prints one HIST line per behaviour for
   replay on the real library. *)
EXTENDS Integers, Sequences, FiniteSets, TLC
CONSTANTS MaxOps
VARIABLES pool, wtr, rds, mgr, srt, fst, its, hist
vars == <<pool, wtr, rds, mgr, srt, fst, its, hist>>
None == [st |-> "none"]
Init == /\ pool = [st |-> "none", n |-> 0]
        /\ wtr = [st |-> "none", pooled |-> FALSE, adds |-> 0]
        /\ rds = [r \in 1..2 |-> "none"]
        /\ mgr = "none"
        /\ srt = [st |-> "none", pooled |-> FALSE, fail |-> FALSE, adds |-> 0, chunks |-> 0]
        /\ fst = [h \in 1..2 |-> "none"]          \* handle 1 = init, handle 2 = dup
        /\ its = [i \in 1..3 |-> [st |-> "none", on |-> "-"]]
        /\ hist = <<>>
Log(x) == hist' = Append(hist, x)
Room == Len(hist) < MaxOps
\* ---- pool
PoolInit == /\ Room /\ pool.st = "none" /\ \E n \in {0, 1, 3} : pool' = [st |-> "alive", n |-> n] /\ Log(<<"pool_init", n>>)
            /\ UNCHANGED <<wtr, rds, mgr, srt, fst, its>>
PoolUsers == (wtr.st = "open" /\ wtr.pooled) \/ (srt.st \in {"adding", "iterating"} /\ srt.pooled)
PoolDestroy == /\ pool.st = "alive" /\ ~PoolUsers /\ pool' = [pool EXCEPT !.st = "dead"] /\ Log(<<"pool_destroy">>)
               /\ UNCHANGED <<wtr, rds, mgr, srt, fst, its>>
\* ---- writer (a refused add is one of the failing calls)
WInit == /\ Room /\ wtr.st = "none" /\ \E p \in {FALSE} \cup (IF pool.st = "alive" THEN {TRUE} ELSE {}) :
              wtr' = [st |-> "open", pooled |-> p, adds |-> 0] /\ Log(<<"w_init", IF p THEN 1 ELSE 0>>)
         /\ UNCHANGED <<pool, rds, mgr, srt, fst, its>>
WAdd == /\ Room /\ wtr.st = "open" /\ wtr.adds < 3 /\ \E refused \in BOOLEAN :
              /\ (refused => wtr.adds > 0)
              /\ wtr' = [wtr EXCEPT !.adds = IF refused THEN @ ELSE @ + 1] /\ Log(<<"w_add", IF refused THEN 1 ELSE 0>>)
        /\ UNCHANGED <<pool, rds, mgr, srt, fst, its>>
WClose == /\ wtr.st = "open" /\ wtr' = [wtr EXCEPT !.st = "closed"] /\ Log(<<"w_close">>) /\ UNCHANGED <<pool, rds, mgr, srt, fst, its>>
\* ---- readers (opening a file that is not a table fails and holds nothing)
ROpen(r) == /\ Room /\ rds[r] = "none" /\ rds' = [rds EXCEPT ![r] = "open"] /\ Log(<<"r_init", r>>) /\ UNCHANGED <<pool, wtr, mgr, srt, fst, its>>
ROpenBad == /\ Room /\ Log(<<"r_init_bad">>) /\ UNCHANGED <<pool, wtr, rds, mgr, srt, fst, its>>
RefR(r) == (\E i \in 1..3 : its[i].st = "open" /\ (its[i].on = <<"r", r>> \/ its[i].on = <<"m">>)) \/ mgr = "alive"
RClose(r) == /\ rds[r] = "open" /\ ~RefR(r) /\ rds' = [rds EXCEPT ![r] = "closed"] /\ Log(<<"r_destroy", r>>) /\ UNCHANGED <<pool, wtr, mgr, srt, fst, its>>
\* ---- merger over the open readers
MInit == /\ Room /\ mgr = "none" /\ rds[1] = "open" /\ rds[2] = "open" /\ mgr' = "alive" /\ Log(<<"m_init">>) /\ UNCHANGED <<pool, wtr, rds, srt, fst, its>>
MDestroy == /\ mgr = "alive" /\ ~(\E i \in 1..3 : its[i].st = "open" /\ its[i].on = <<"m">>) /\ mgr' = "dead" /\ Log(<<"m_destroy">>)
            /\ UNCHANGED <<pool, wtr, rds, srt, fst, its>>
\* ---- sorter
SInit == /\ Room /\ srt.st = "none" /\ \E p \in {FALSE} \cup (IF pool.st = "alive" THEN {TRUE} ELSE {}), f \in BOOLEAN :
              /\ (f => ~p)                      \* a failing merge callback on a pooled sorter is outside the listed properties
              /\ srt' = [st |-> "adding", pooled |-> p, fail |-> f, adds |-> 0, chunks |-> 0] /\ Log(<<"s_init", IF p THEN 1 ELSE 0, IF f THEN 1 ELSE 0>>)
         /\ UNCHANGED <<pool, wtr, rds, mgr, fst, its>>
SAdd == /\ Room /\ srt.st = "adding" /\ srt.adds < 6 /\ \E k \in {1, 4} :
              srt' = [srt EXCEPT !.adds = @ + k] /\ Log(<<"s_add", k>>)
        /\ UNCHANGED <<pool, wtr, rds, mgr, fst, its>>
SAddRefused == /\ Room /\ srt.st = "iterating" /\ Log(<<"s_add_refused">>) /\ UNCHANGED <<pool, wtr, rds, mgr, srt, fst, its>>
SIter == /\ Room /\ srt.st = "adding" /\ \E i \in 1..3 : /\ its[i].st = "none"
              /\ IF srt.fail /\ srt.adds > 1
                 THEN its' = its /\ srt' = [srt EXCEPT !.st = "failed"] /\ Log(<<"s_iter_fails">>)      \* the merge callback fails: no iterator
                 ELSE its' = [its EXCEPT ![i] = [st |-> "open", on |-> <<"s">>]] /\ srt' = [srt EXCEPT !.st = "iterating"] /\ Log(<<"s_iter", i>>)
         /\ UNCHANGED <<pool, wtr, rds, mgr, fst>>
SDestroy == /\ srt.st \in {"adding", "iterating", "failed"} /\ ~(\E i \in 1..3 : its[i].st = "open" /\ its[i].on = <<"s">>)
            /\ srt' = [srt EXCEPT !.st = "dead"] /\ Log(<<"s_destroy">>) /\ UNCHANGED <<pool, wtr, rds, mgr, fst, its>>
\* ---- fileset and its dup
FInit == /\ Room /\ fst[1] = "none" /\ fst' = [fst EXCEPT ![1] = "alive"] /\ Log(<<"fs_init">>) /\ UNCHANGED <<pool, wtr, rds, mgr, srt, its>>
FDup == /\ Room /\ fst[2] = "none" /\ fst[1] = "alive" /\ fst' = [fst EXCEPT ![2] = "alive"] /\ Log(<<"fs_dup">>) /\ UNCHANGED <<pool, wtr, rds, mgr, srt, its>>
FRewrite == /\ Room /\ (fst[1] = "alive" \/ fst[2] = "alive") /\ Log(<<"fs_rewrite">>) /\ UNCHANGED <<pool, wtr, rds, mgr, srt, fst, its>>
FReload(h) == /\ Room /\ fst[h] = "alive" /\ Log(<<"fs_reload_now", h>>) /\ UNCHANGED <<pool, wtr, rds, mgr, srt, fst, its>>
FDestroy(h) == /\ fst[h] = "alive" /\ ~(\E i \in 1..3 : its[i].st = "open" /\ its[i].on = <<"f", h>>)
               /\ fst' = [fst EXCEPT ![h] = "dead"] /\ Log(<<"fs_destroy", h>>) /\ UNCHANGED <<pool, wtr, rds, mgr, srt, its>>
\* ---- iterators: opened on a reader, the merger or a fileset handle; advanced a little or not at all; destroyed (abandoned)
ItOpen == /\ Room /\ \E i \in 1..3 : /\ its[i].st = "none"
              /\ \E on \in {<<"r", 1>>, <<"r", 2>>, <<"m">>, <<"f", 1>>, <<"f", 2>>} :
                   /\ CASE on[1] = "r" -> rds[on[2]] = "open" [] on[1] = "m" -> mgr = "alive" [] on[1] = "f" -> fst[on[2]] = "alive"
                   /\ \E kind \in {"iter", "get", "range"} :
                        its' = [its EXCEPT ![i] = [st |-> "open", on |-> on]] /\ Log(<<"it_open", i, on, kind>>)
          /\ UNCHANGED <<pool, wtr, rds, mgr, srt, fst>>
ItNext(i) == /\ Room /\ its[i].st = "open" /\ \E n \in {1, 100} : Log(<<"it_next", i, n>>) /\ UNCHANGED <<pool, wtr, rds, mgr, srt, fst, its>>
ItDestroy(i) == /\ its[i].st = "open" /\ its' = [its EXCEPT ![i] = [st |-> "none", on |-> "-"]] /\ Log(<<"it_destroy", i>>)
                /\ UNCHANGED <<pool, wtr, rds, mgr, srt, fst>>
Next == PoolInit \/ PoolDestroy \/ WInit \/ WAdd \/ WClose \/ ROpenBad \/ MInit \/ MDestroy \/ SInit \/ SAdd \/ SAddRefused \/ SIter \/ SDestroy
        \/ FInit \/ FDup \/ FRewrite \/ ItOpen
        \/ (\E r \in 1..2 : ROpen(r) \/ RClose(r)) \/ (\E h \in 1..2 : FReload(h) \/ FDestroy(h)) \/ (\E i \in 1..3 : ItNext(i) \/ ItDestroy(i))
Spec == Init /\ [][Next]_vars
\* ---- the ledger
Fds == IF wtr.st = "open" THEN 1 ELSE 0
FsLoaded == IF fst[1] = "alive" \/ fst[2] = "alive" THEN 1 ELSE 0      \* upper bound class: something may be mapped while a handle lives
Maps == Cardinality({r \in 1..2 : rds[r] = "open"}) + (IF srt.st \in {"adding", "iterating", "failed"} THEN 1 ELSE 0) * 0 + FsLoaded * 0
AllDead == /\ pool.st # "alive" /\ wtr.st # "open" /\ (\A r \in 1..2 : rds[r] # "open") /\ mgr # "alive"
           /\ srt.st \in {"none", "dead"} /\ (\A h \in 1..2 : fst[h] # "alive") /\ (\A i \in 1..3 : its[i].st # "open")
Released == AllDead => (Fds = 0 /\ Cardinality({r \in 1..2 : rds[r] = "open"}) = 0)
\* no object is used after the object it depends on was destroyed (well-formedness of the generated histories)
WellFormed == /\ \A i \in 1..3 : its[i].st = "open" =>
                    CASE its[i].on[1] = "r" -> rds[its[i].on[2]] = "open" [] its[i].on[1] = "m" -> mgr = "alive"
                      [] its[i].on[1] = "s" -> srt.st = "iterating" [] its[i].on[1] = "f" -> fst[its[i].on[2]] = "alive"
              /\ mgr = "alive" => (rds[1] = "open" /\ rds[2] = "open")
              /\ (wtr.st = "open" /\ wtr.pooled) => pool.st = "alive"
              /\ (srt.st \in {"adding", "iterating"} /\ srt.pooled) => pool.st = "alive"
\* a behaviour is complete when the budget is used up; the harness then destroys whatever is still alive in a legal order
NoHistView == <<pool, wtr, rds, mgr, srt, fst, its, Len(hist)>>
DumpHist == (Len(hist) = MaxOps) => PrintT(<<"HIST", hist>>)
====
