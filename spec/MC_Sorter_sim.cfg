SPECIFICATION SimSpec
CONSTANTS
 KeyLens <- mcKeyLens
 VLens = {0, 3, 40}
 MaxMems = {1, 30, 60, 100, 100000}
 MaxAdds = 8
 Pooled = FALSE
INVARIANT OutputIsFold
INVARIANT PayloadBelowLimit
INVARIANT DumpHist
CHECK_DEADLOCK FALSE
