---- MODULE Trace_Varint ----
(* Trace validator for C16: every logged call of the varint and fixed-width functions must agree with Varint.tla:
   encoded bytes are the standard LEB128 of the value, the byte count equals mtbl_varint_length and
   mtbl_varint_length_packed, decode returns the value and the same count, a truncated buffer yields 0, nothing is
   written outside the encoded bytes (guard), fixed-width encodings are exact little-endian inverses at any alignment.
   The harness's own C reference encoder (ref) is judged too, because the exhaustive 2^32 sweep compares against it. *)
EXTENDS Varint, TLC, Json, IOUtils
Tr == ndJsonDeserialize(IOEnv.TRACE)
VARIABLE l
Ev == Tr[l]
Is(e) == l <= Len(Tr) /\ Ev.e = e /\ l' = l + 1
TInit == l = 1
TVar == /\ Is("Var") /\ CanonicalDigits(Ev.v)
        /\ Ev.enc = Encode(Ev.v) /\ Ev.ref = Encode(Ev.v)
        /\ Ev.n = EncLen(Ev.v) /\ Ev.len = EncLen(Ev.v) /\ Ev.packed = EncLen(Ev.v)
        /\ Ev.dec_n = EncLen(Ev.v) /\ Ev.dec = Ev.v
        /\ Ev.trunc = 0 /\ Ev.guard
TPacked == Is("Packed") /\ Ev.ret = PackedLen(Ev.buf, Ev.avail)
TFixed == Is("Fixed") /\ Ev.enc = Ev.v /\ Ev.dec = Ev.v /\ Ev.n * 8 = Ev.w /\ Ev.guard
TSpec == TInit /\ [][TVar \/ TPacked \/ TFixed]_l
Accepted == TLCGet("stats").diameter - 1 = Len(Tr)
====
