SPECIFICATION SimSpec
CONSTANTS
 Names = {"x", "y", "z"}
 Others = {"m", "g"}
 MaxH = 3
 MaxIt = 3
 Intervals = {0, 2, 99}
 NEVER = 99
 Cap = 4
 FixF3 = TRUE
INVARIANT NoBad
INVARIANT Pinned
INVARIANT DumpHist
CHECK_DEADLOCK FALSE
