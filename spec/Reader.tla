---- MODULE Reader ----
(* Implementation-shaped layer of mtbl/reader.c + mtbl/block.c: what the reader's iterators do, field by
   field, over the structure of a concrete file:
     F.keys[b]  keys of data block b            F.rst[b]  restart entries of block b (1-based entry numbers, first = 1)
     F.seps[b]  index key of block b            F.irst    restart entries of the index block
     F.offs[b]  file offset of block b
   Operators carry the names of the C functions they transcribe. The structure is that of an actual file
   (decoded by the independent decoder), so restart points, separators and offsets are whatever the file has:
   files of the real writer and files of the reference encoder (C11) alike.
   FixF1 = FALSE reproduces the pinned tree, where block_offset was refreshed only in reader_iter_seek. *)
EXTENDS Bytes, TLC
CONSTANTS FixF1

(* ---------- block.c: block iterator over entry list E (keys) with restart entries R ---------- *)
NR(R) == Len(R)                                                           \* num_restarts
RKey(E, R, r) == E[R[r + 1]]                                              \* key at restart point r (0-based)
BiInit(E, R) == [cur |-> Len(E) + 1, ri |-> NR(R), nxt |-> 0]             \* block_iter_init: invalid, restart_index = num_restarts
BiValid(E, bi) == bi.cur <= Len(E)                                        \* block_iter_valid
BiKey(E, bi) == E[bi.cur]
SeekToRestart(R, bi, r) == [bi EXCEPT !.ri = r, !.nxt = R[r + 1]]         \* seek_to_restart_point
RECURSIVE AdvRi(_,_,_)
AdvRi(R, ri, cur) == IF ri + 1 < NR(R) /\ R[ri + 2] < cur THEN AdvRi(R, ri + 1, cur) ELSE ri   \* strict "<": restart_index lags by one at a restart entry
ParseNext(E, R, bi) ==                                                    \* parse_next_key
    IF bi.nxt > Len(E) THEN [cur |-> Len(E) + 1, ri |-> NR(R), nxt |-> bi.nxt]
    ELSE [cur |-> bi.nxt, nxt |-> bi.nxt + 1, ri |-> AdvRi(R, bi.ri, bi.nxt)]
SeekToFirst(E, R, bi) == ParseNext(E, R, SeekToRestart(R, bi, 0))         \* block_iter_seek_to_first
BiNext(E, R, bi) == IF ~BiValid(E, bi) THEN bi ELSE ParseNext(E, R, bi)   \* block_iter_next
RECURSIVE Gallop(_,_,_,_,_,_,_)
Gallop(E, R, t, i, incr, left, right) ==                                  \* galloping phase of block_iter_seek: <<left, right>>
    IF Lt(RKey(E, R, i), t)
    THEN LET i2 == i + incr IN IF i2 > NR(R) - 1 THEN <<i, NR(R) - 1>> ELSE Gallop(E, R, t, i2, incr * 2, i, i2)
    ELSE <<left, right>>
RECURSIVE BinS(_,_,_,_,_)
BinS(E, R, t, left, right) ==                                             \* binary search phase
    IF left < right
    THEN LET mid == (left + right + 1) \div 2 IN
         IF Lt(RKey(E, R, mid), t) THEN BinS(E, R, t, mid, right) ELSE BinS(E, R, t, left, mid - 1)
    ELSE left
RECURSIVE Linear(_,_,_,_)
Linear(E, R, bi, t) == LET b2 == ParseNext(E, R, bi) IN                   \* linear scan inside the restart run
    IF ~BiValid(E, b2) THEN b2 ELSE IF Le(t, BiKey(E, b2)) THEN b2 ELSE Linear(E, R, b2, t)
BiSeek(E, R, bi, t) ==                                                    \* block_iter_seek
    LET lr0  == IF NR(R) # bi.ri /\ bi.ri # 0 THEN Gallop(E, R, t, bi.ri, 1, 0, bi.ri) ELSE <<0, NR(R) - 1>>
        left == IF lr0[1] + 1 < lr0[2] THEN BinS(E, R, t, lr0[1], lr0[2]) ELSE lr0[1]
        same == bi.ri = left
        c    == IF same THEN Cmp(BiKey(E, bi), t) ELSE 1
    IN IF same /\ c = 0 THEN bi
       ELSE IF same /\ c < 0 THEN Linear(E, R, bi, t)
       ELSE Linear(E, R, SeekToRestart(R, bi, left), t)

\* block_iter_seek_to_last / block_iter_prev: not called by the library itself (the reader only moves forward), kept in step
\* with block.c all the same; MC_Block checks them against the abstract cursor, Trace_Block against the real functions
RECURSIVE SkipTo(_,_,_,_)
SkipTo(E, R, bi, lim) == IF BiValid(E, bi) /\ bi.nxt < lim THEN SkipTo(E, R, ParseNext(E, R, bi), lim) ELSE bi   \* "while (parse_next_key && next_entry_offset < lim)"
SeekToLast(E, R, bi) == SkipTo(E, R, ParseNext(E, R, SeekToRestart(R, bi, NR(R) - 1)), Len(E) + 1)   \* block_iter_seek_to_last
RECURSIVE Back(_,_,_)
Back(R, ri, orig) == IF R[ri + 1] >= orig THEN (IF ri = 0 THEN -1 ELSE Back(R, ri - 1, orig)) ELSE ri    \* last restart point before the current entry
BiPrev(E, R, bi) ==                                                       \* block_iter_prev (precondition: valid)
    LET r == Back(R, bi.ri, bi.cur) IN
    IF r = -1 THEN [bi EXCEPT !.cur = Len(E) + 1, !.ri = NR(R)]
    ELSE SkipTo(E, R, ParseNext(E, R, SeekToRestart(R, bi, r)), bi.cur)

(* ---------- reader.c: reader iterator ---------- *)
InBoundR(it, k) == CASE it.kind = "iter"   -> TRUE
                     [] it.kind = "get"    -> k = it.k0
                     [] it.kind = "prefix" -> HasPrefix(k, it.k0)
                     [] it.kind = "range"  -> Le(k, it.k1)               \* reader.c checks only the upper bound
NullIter(kind, k0, k1) == [null |-> TRUE, kind |-> kind, k0 |-> k0, k1 |-> k1]
ReaderIter(F) ==                                                          \* reader_iter()
    LET idx == SeekToFirst(F.seps, F.irst, BiInit(F.seps, F.irst)) IN
    IF ~BiValid(F.seps, idx) THEN NullIter("iter", <<>>, <<>>)
    ELSE [null |-> FALSE, idx |-> idx, b |-> 1, boff |-> IF FixF1 THEN F.offs[1] ELSE 0,
          bi |-> SeekToFirst(F.keys[1], F.rst[1], BiInit(F.keys[1], F.rst[1])),
          first |-> TRUE, valid |-> TRUE, kind |-> "iter", k0 |-> <<>>, k1 |-> <<>>]
ReaderIterInit(F, kind, k0, k1) ==                                        \* reader_iter_init() via reader_get / get_prefix / get_range
    LET idx == BiSeek(F.seps, F.irst, BiInit(F.seps, F.irst), k0) IN
    IF ~BiValid(F.seps, idx) THEN NullIter(kind, k0, k1)
    ELSE LET b == idx.cur IN
         [null |-> FALSE, idx |-> idx, b |-> b, boff |-> IF FixF1 THEN F.offs[b] ELSE 0,
          bi |-> BiSeek(F.keys[b], F.rst[b], BiInit(F.keys[b], F.rst[b]), k0),
          first |-> TRUE, valid |-> TRUE, kind |-> kind, k0 |-> k0, k1 |-> k1]
NeedsIndexSeek(F, it, t) ==                                               \* needs_index_seek
    \/ it.first \/ it.b = 0
    \/ ~BiValid(F.keys[it.b], it.bi)
    \/ Lt(t, BiKey(F.keys[it.b], it.bi))
    \/ ~BiValid(F.seps, it.idx)
    \/ Lt(BiKey(F.seps, it.idx), t)
ReaderSeek(F, it, t) ==                                                   \* reader_iter_seek
    IF it.null THEN it ELSE
    LET idx == IF NeedsIndexSeek(F, it, t) THEN BiSeek(F.seps, F.irst, it.idx, t) ELSE it.idx IN
    IF ~BiValid(F.seps, idx) THEN [it EXCEPT !.idx = idx, !.valid = FALSE]
    ELSE LET nb     == idx.cur
             reload == it.b = 0 \/ it.boff # F.offs[nb]
             held   == IF reload THEN nb ELSE it.b                        \* the block really decoded
             bi0    == IF reload THEN BiInit(F.keys[nb], F.rst[nb]) ELSE it.bi
         IN [it EXCEPT !.idx = idx, !.b = held, !.boff = IF reload THEN F.offs[nb] ELSE @,
                       !.bi = BiSeek(F.keys[held], F.rst[held], bi0, t), !.first = TRUE, !.valid = TRUE]
ReaderNext(F, it) ==                                                      \* reader_iter_next: <<it', ok, block, entry number>>
    IF it.null \/ ~it.valid THEN <<it, FALSE, 0, 0>> ELSE
    LET bi1 == IF ~it.first THEN BiNext(F.keys[it.b], F.rst[it.b], it.bi) ELSE it.bi
        it1 == [it EXCEPT !.bi = bi1, !.first = FALSE]
    IN IF BiValid(F.keys[it.b], bi1)
       THEN IF InBoundR(it, BiKey(F.keys[it.b], bi1)) THEN <<it1, TRUE, it.b, bi1.cur>> ELSE <<[it1 EXCEPT !.valid = FALSE], FALSE, 0, 0>>
       ELSE LET idx2 == BiNext(F.seps, F.irst, it.idx) IN
            IF ~BiValid(F.seps, idx2) THEN <<[it1 EXCEPT !.b = 0, !.idx = idx2, !.valid = FALSE], FALSE, 0, 0>>
            ELSE LET nb  == idx2.cur
                     bi2 == SeekToFirst(F.keys[nb], F.rst[nb], BiInit(F.keys[nb], F.rst[nb]))
                     it2 == [it1 EXCEPT !.b = nb, !.idx = idx2, !.bi = bi2, !.boff = IF FixF1 THEN F.offs[nb] ELSE @]
                 IN IF InBoundR(it, BiKey(F.keys[nb], bi2)) THEN <<it2, TRUE, nb, bi2.cur>> ELSE <<[it2 EXCEPT !.valid = FALSE], FALSE, 0, 0>>
====
