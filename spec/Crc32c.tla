---- MODULE Crc32c ----
(* C17. CRC-32C (Castagnoli, reflected polynomial 0x82F63B78, initial value and final xor 0xFFFFFFFF, as used by
   iSCSI / RFC 3720) as a state machine that consumes one byte per step. TLC integers are 32-bit signed, so the
   register is kept as two 16-bit halves <<hi, lo>>. The byte table is derived inside TLA+ from the bit-serial shift
   register (Bits), so nothing is copied from the implementation. *)
EXTENDS Integers, Sequences, Bitwise
PolyHi == 33526   \* 0x82F6
PolyLo == 15224   \* 0x3B78
Shr1(c) == << c[1] \div 2, (c[2] \div 2) + (IF c[1] % 2 = 1 THEN 32768 ELSE 0) >>
X2(c, d) == << c[1] ^^ d[1], c[2] ^^ d[2] >>
RECURSIVE Bits(_,_)
Bits(c, k) == IF k = 0 THEN c ELSE Bits(IF c[2] % 2 = 1 THEN X2(Shr1(c), <<PolyHi, PolyLo>>) ELSE Shr1(c), k - 1)
Table == [b \in 0..255 |-> Bits(<<0, b>>, 8)]
Start == <<65535, 65535>>
Step(c, byte) == LET idx == (c[2] % 256) ^^ byte
                     sh == << c[1] \div 256, (c[2] \div 256) + (c[1] % 256) * 256 >>
                 IN X2(Table[idx], sh)
Out(c) == X2(c, <<65535, 65535>>)
====
