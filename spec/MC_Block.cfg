SPECIFICATION Spec
CONSTANTS MaxN = 7 MaxRi = 4 FixF1 = TRUE
INVARIANTS Refines RiOk
CHECK_DEADLOCK FALSE
