---- MODULE Trace_WriteAll ----
(* Trace validator for C20: the outcomes of the real writer's write(2) calls (recorded by the -Dwrite seam) and how each
   run ended are judged by the abstract contract: the file always holds a prefix of the intended stream; when every
   outcome was a (possibly short or interrupted) success the run ends normally with the file identical to the
   fault-free one; after a hard error the process stops loudly and never reports success. *)
EXTENDS Integers, Sequences, TLC, Json, IOUtils
Tr == ndJsonDeserialize(IOEnv.TRACE)
VARIABLES l, flen, status
tvars == <<l, flen, status>>
Ev == Tr[l]
Is(e) == l <= Len(Tr) /\ Ev.e = e /\ l' = l + 1
TInit == l = 1 /\ flen = 0 /\ status = "running"
TReset == Is("Reset") /\ flen' = 0 /\ status' = "running"
\* one write(2) call: req bytes asked, ret returned (-1 with errno)
TWrite == /\ Is("Write") /\ status = "running" /\ Ev.req >= 1
          /\ IF Ev.ret >= 1 THEN Ev.ret <= Ev.req /\ flen' = flen + Ev.ret /\ status' = status
             ELSE IF Ev.ret = -1 /\ Ev.errno = 4 THEN UNCHANGED <<flen, status>>                 \* EINTR: nothing happened
             ELSE UNCHANGED flen /\ status' = "dead"                                             \* hard error (or a zero return)
\* how the run ended: exit = "ok" (the writer returned and the process went on) or "abort"; same = file bytes identical
\* to the fault-free file; size = final file size; total = fault-free size
TFinal == /\ Is("Final")
          /\ IF status = "dead" THEN Ev.exit = "abort"                          \* never reported as success
             ELSE Ev.exit = "ok" /\ Ev.same /\ flen = Ev.total
          /\ UNCHANGED <<flen, status>>
TNext0 == TReset \/ TWrite \/ TFinal
TSpec == TInit /\ [][TNext0]_tvars
Accepted == TLCGet("stats").diameter - 1 = Len(Tr)
====
