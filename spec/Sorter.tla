---- MODULE Sorter ----
(* Implementation-shaped layer of mtbl/sorter.c: the batch, the byte budget that triggers a spill
   (sizeof(struct entry) = 8 bytes per entry plus the 8-byte slot in the vector), the spill into a sorted chunk
   whose equal keys are folded (in-chunk merge), and the final merger over the chunks.
   Values are sequences of tokens, the merge function is their sorted union (a bag), so a value used twice or
   dropped shows. With a pool, chunk files are written asynchronously: `inflight` chunks become readers later
   (Land), and mtbl_sorter_iter waits for all of them. *)
EXTENDS Integers, Sequences, SequencesExt, FiniteSets, TLC
CONSTANTS KeyLens,   \* sequence: KeyLens[i] = byte length of key number i (keys are ordered by their number)
          VLens, MaxMems, MaxAdds, Pooled
VARIABLES batch, bytes, chunks, inflight, iterating, adds, maxmem, lastRes
svars == <<batch, bytes, chunks, inflight, iterating, adds, maxmem, lastRes>>
Init == /\ batch = <<>> /\ bytes = 0 /\ chunks = {} /\ inflight = {} /\ iterating = FALSE /\ adds = <<>> /\ lastRes = "none"
        /\ maxmem \in MaxMems
KeysOf(seq) == {seq[i].k : i \in 1..Len(seq)}
FoldOf(seq, key) == SortSeq(FlattenSeq(SelectSeq([i \in 1..Len(seq) |-> IF seq[i].k = key THEN seq[i].v ELSE <<>>], LAMBDA x : TRUE)), <)
\* _mtbl_sorter_write_chunk: qsort + fold of adjacent equal keys; a chunk is a function key -> bag
ChunkOf(seq) == [key \in KeysOf(seq) |-> FoldOf(seq, key)]
Handoff(b) == IF Pooled THEN /\ inflight' = inflight \cup {[id |-> Cardinality(chunks) + Cardinality(inflight) + 1, c |-> ChunkOf(b)]} /\ UNCHANGED chunks
                         ELSE /\ chunks' = chunks \cup {[id |-> Cardinality(chunks) + 1, c |-> ChunkOf(b)]} /\ UNCHANGED inflight
Add(ki, vl) ==                                                            \* mtbl_sorter_add
    /\ Len(adds) < MaxAdds
    /\ IF iterating THEN lastRes' = "refused" /\ UNCHANGED <<batch, bytes, chunks, inflight, iterating, adds, maxmem>>
       ELSE LET e  == [k |-> ki, v |-> <<Len(adds) + 1>>, klen |-> KeyLens[ki], vlen |-> vl]
                b2 == Append(batch, e)
                by == bytes + 8 + KeyLens[ki] + vl
            IN /\ adds' = Append(adds, e) /\ lastRes' = "ok" /\ UNCHANGED <<iterating, maxmem>>
               /\ IF by + 8 * Len(b2) >= maxmem                           \* entry_bytes + entry_vec_bytes >= max_memory
                  THEN batch' = <<>> /\ bytes' = 0 /\ Handoff(b2)
                  ELSE batch' = b2 /\ bytes' = by /\ UNCHANGED <<chunks, inflight>>
Land == \E x \in inflight : inflight' = inflight \ {x} /\ chunks' = chunks \cup {x}      \* result handler collects a finished chunk
        /\ UNCHANGED <<batch, bytes, iterating, adds, maxmem, lastRes>>
Iter == /\ ~iterating /\ iterating' = TRUE /\ lastRes' = "iter"           \* mtbl_sorter_iter: flush the rest, join the handler
        /\ LET last == IF Len(batch) > 0 THEN {[id |-> Cardinality(chunks) + Cardinality(inflight) + 1, c |-> ChunkOf(batch)]} ELSE {}
           IN chunks' = chunks \cup inflight \cup last /\ inflight' = {} /\ batch' = <<>> /\ bytes' = 0
        /\ UNCHANGED <<adds, maxmem>>
Next == (\E ki \in 1..Len(KeyLens), vl \in VLens : Add(ki, vl)) \/ Land \/ Iter
Spec == Init /\ [][Next]_svars
\* what the final merger yields: per key the bag union over the chunks that hold it
OutKeys == UNION {DOMAIN x.c : x \in chunks}
Output == [key \in OutKeys |-> SortSeq(FlattenSeq(SetToSeq({x.c[key] : x \in {y \in chunks : key \in DOMAIN y.c}})), <)]
\* C06: the output is the fold of exactly the values added, each once (bag equality; tokens are unique), whatever the chunking
OutputIsFold == iterating => Output = ChunkOf(adds)
\* a spill happens no later than when the buffered entries reach the limit
PayloadBelowLimit == FoldLeft(LAMBDA a, e : a + e.klen + e.vlen, 0, batch) < maxmem
RefusedAfterIter == iterating => lastRes \in {"iter", "refused"}
====
