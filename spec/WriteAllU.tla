---- MODULE WriteAllU ----
(* C20, unbounded: one call of _write_all(fd, buf, N) for EVERY buffer length N >= 1 and EVERY sequence of outcomes of
   write(2) (full, partial of any length, EINTR, hard error), any number of faults. State as in WriteAll.tla restricted to
   one buffer; start = the file length when the call begins (arbitrary). The inductive invariant IndInv implies that the
   bytes written so far are exactly the first `done` bytes of the buffer, appended at the right place (PrefixInv), and that
   on completion the file has grown by exactly N (DoneComplete). Checked by Apalache:
     Init => IndInv                      (length 0)
     IndInv /\ Next => IndInv'           (length 1, --init=IndInit)
   Advance / EintrKeeps = FALSE are the two regression loops: the induction step must fail for them. *)
EXTENDS Integers
CONSTANTS
    \* @type: Int;
    N,
    \* @type: Int;
    Start,
    \* @type: Bool;
    Advance,
    \* @type: Bool;
    EintrKeeps
VARIABLES
    \* @type: Int;
    done,
    \* @type: Int;
    ptr,
    \* @type: Int;
    flen,
    \* @type: Bool;
    isprefix,
    \* @type: Str;
    status
ConstInitGood == N \in Int /\ Start \in Int /\ N >= 1 /\ Start >= 0 /\ Advance = TRUE /\ EintrKeeps = TRUE
ConstInitNoAdvance == N \in Int /\ Start \in Int /\ N >= 1 /\ Start >= 0 /\ Advance = FALSE /\ EintrKeeps = TRUE
ConstInitEintrMoves == N \in Int /\ Start \in Int /\ N >= 1 /\ Start >= 0 /\ Advance = TRUE /\ EintrKeeps = FALSE
Init == done = 0 /\ ptr = 0 /\ flen = Start /\ isprefix = TRUE /\ status = "running"
Remaining == N - done
WriteN(n) ==
    /\ isprefix' = (isprefix /\ Start + ptr = flen)
    /\ flen' = flen + n
    /\ IF done + n = N
       THEN status' = "done" /\ UNCHANGED <<done, ptr>>
       ELSE done' = done + n /\ ptr' = (IF Advance THEN ptr + n ELSE ptr) /\ UNCHANGED status
Full == status = "running" /\ WriteN(Remaining)
Partial == status = "running" /\ \E n \in Int : n >= 1 /\ n < Remaining /\ WriteN(n)
Eintr == /\ status = "running"
         /\ ptr' = (IF EintrKeeps THEN ptr ELSE ptr - 1) /\ done' = (IF EintrKeeps THEN done ELSE done - 1)
         /\ UNCHANGED <<flen, isprefix, status>>
HardError == status = "running" /\ status' = "dead" /\ UNCHANGED <<done, ptr, flen, isprefix>>
Next == Full \/ Partial \/ Eintr \/ HardError
IndInv == /\ status \in {"running", "done", "dead"}
          /\ done >= 0 /\ done < N
          /\ ptr = done
          /\ isprefix
          /\ (status # "done" => flen = Start + done)
          /\ (status = "done" => flen = Start + N)
IndInit == done \in Int /\ ptr \in Int /\ flen \in Int /\ isprefix \in BOOLEAN /\ status \in {"running", "done", "dead"} /\ IndInv
PrefixInv == isprefix
DoneComplete == status = "done" => (flen = Start + N /\ isprefix)
====
