---- MODULE MC_Writer_small ----
EXTENDS MC_Writer
a == 97 b == 98
mcKeys == << <<>>, <<0>>, <<a>>, <<a,a>>, <<a,b>>, <<a,b,0>>, <<a,255>>, <<b>>, <<254,255>>, <<255>>, <<255,255>> >>
====
