---- MODULE MC_Merger ----
(* Refinement check for C04/C05: the implementation-shaped merger (Merger.tla: heap of per-source heads, cur_key,
   pending, finished, backward/forward seek paths) against the abstract merged table (Table!MergeFold / AllSorted)
   for one family of sources, every iterator kind in BoundSeq and every history of next / seek(t).
   Checked per behaviour step: same key, same value (bag of tokens, so a value used twice or dropped shows), the
   number of merge-function calls, order of equal keys under dupsort, NULL only for empty lookups, heap shape.
   The reachable state graph drives the replay on the real merger. *)
EXTENDS Merger, Sequences
CONSTANTS TargetSeq, BoundSeq
Merged == IF MergeOn THEN MergeFold(Srcs) ELSE AllSorted(Srcs)
Ord == MergeOn \/ DupsortOn
VARIABLES st, cur, bx, res
mvars == <<st, cur, bx, res>>
Init == \E n \in 1..Len(BoundSeq) :
          /\ bx = n /\ st = MergerOpen(BoundSeq[n]) /\ cur = OpenCursor(Merged, Ord, BoundSeq[n]) /\ res = TRUE
DoNext == LET r == MergerNext(st) IN
          /\ st' = r[1] /\ UNCHANGED bx
          /\ IF r[2]
             THEN LET cs == NextTo(cur, r[3], r[4]) IN
                  IF cs = {} THEN cur' = cur /\ res' = FALSE
                  ELSE /\ cur' \in cs
                       /\ res' = (MergeOn => r[5] = cur.t[cur.pos].n - 1)          \* merge calls = values folded - 1
             ELSE cur' = FailNext(cur) /\ res' = ~NextOk(cur)
DoSeek(n) == LET t == TargetSeq[n] IN
             /\ Le(Start(cur.b), t)
             /\ st' = MergerSeek(st, t) /\ cur' = SeekCursor(cur, t) /\ res' = TRUE /\ UNCHANGED bx
Next == DoNext \/ \E n \in 1..Len(TargetSeq) : DoSeek(n)
Spec == Init /\ [][Next]_mvars
Refines == res
NullOk == st.null => Lookup(Merged, BoundSeq[bx]) = <<>>
HeapOk == st.null \/ IsHeap(st.ent, st.h) \/ (Len(st.h) > 0 /\ st.ent[st.h[1]].fin)
====
