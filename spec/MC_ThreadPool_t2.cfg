SPECIFICATION FairSpec
CONSTANTS MaxThreads = 3 NC = 1 Jobs = 3 Ordered = FALSE MaxSpurious = 0 Mixed = FALSE defaultInitValue = defaultInitValue
INVARIANTS ExactlyOnce NoDup InOrder Bounded
PROPERTY Live
