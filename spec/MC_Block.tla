---- MODULE MC_Block ----
(* Refinement check of the block iterator of mtbl/block.c (Reader.tla: BiSeek with gallop and binary search over the
   restart array, ParseNext, SeekToFirst, SeekToLast, BiPrev) against the abstract cursor over the block's entries, for
   every block of up to MaxN entries built with every restart interval 1..MaxRi, and every history of
   first / last / seek(t) / next / prev. Keys are the even numbers 2, 4, .., 2n (one byte each), targets 1..2n+1 and the
   empty string. restart_index is part of the state: it depends on the history, and prev / seek start from it. *)
EXTENDS Reader, Sequences, FiniteSets
CONSTANTS MaxN, MaxRi
VARIABLES n, ri, bi, p, last
vars == <<n, ri, bi, p, last>>
E == [i \in 1..n |-> <<2 * i>>]
R == IF n = 0 THEN <<1>> ELSE [j \in 1..((n + ri - 1) \div ri) |-> 1 + (j - 1) * ri]    \* block_builder: entry 1, 1 + ri, ..
Targets == {<<>>} \cup {<<t>> : t \in 1..(2 * n + 1)} \cup {<<2 * i, 0>> : i \in 1..n}
LowerB(t) == IF \E i \in 1..n : Le(t, E[i]) THEN CHOOSE i \in 1..n : Le(t, E[i]) /\ \A j \in 1..(i - 1) : Lt(E[j], t) ELSE n + 1
Init == /\ n \in 0..MaxN /\ ri \in 1..MaxRi /\ bi = BiInit([i \in 1..n |-> <<2 * i>>], IF n = 0 THEN <<1>> ELSE [j \in 1..((n + ri - 1) \div ri) |-> 1 + (j - 1) * ri])
        /\ p = n + 1 /\ last = "init"
DoFirst == bi' = SeekToFirst(E, R, bi) /\ p' = 1 /\ last' = "first" /\ UNCHANGED <<n, ri>>
DoLast == bi' = SeekToLast(E, R, bi) /\ p' = (IF n = 0 THEN 1 ELSE n) /\ last' = "last" /\ UNCHANGED <<n, ri>>
DoSeek(t) == bi' = BiSeek(E, R, bi, t) /\ p' = LowerB(t) /\ last' = "seek" /\ UNCHANGED <<n, ri>>
DoNext == bi' = BiNext(E, R, bi) /\ p' = (IF p <= n THEN p + 1 ELSE p) /\ last' = "next" /\ UNCHANGED <<n, ri>>
DoPrev == p <= n /\ bi' = BiPrev(E, R, bi) /\ p' = (IF p = 1 THEN n + 1 ELSE p - 1) /\ last' = "prev" /\ UNCHANGED <<n, ri>>
Nxt == DoFirst \/ DoLast \/ (\E t \in Targets : DoSeek(t)) \/ DoNext \/ DoPrev
Spec == Init /\ [][Nxt]_vars
\* the implementation-shaped iterator is valid exactly when the abstract cursor is, and on the same entry
Refines == (BiValid(E, bi) <=> p <= n) /\ (p <= n => bi.cur = p)
\* restart_index always names a restart point at or before the current entry (what seek's gallop and prev rely on)
RiOk == BiValid(E, bi) => bi.ri < NR(R) /\ R[bi.ri + 1] <= bi.cur
====
