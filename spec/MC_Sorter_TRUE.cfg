SPECIFICATION Spec
CONSTANTS
 KeyLens <- mcKeyLens
 VLens = {0, 3, 40}
 MaxMems = {1, 30, 60, 100, 100000}
 MaxAdds = 4
 Pooled = TRUE
INVARIANT OutputIsFold
INVARIANT PayloadBelowLimit
INVARIANT RefusedAfterIter
CHECK_DEADLOCK FALSE
