---- MODULE Race ----
(* threadpool.c at pthread-call granularity: NC clients (caller + result handler each) sharing one pool. *)
EXTENDS Integers, Sequences, FiniteSets, TLC
CONSTANTS MaxThreads, NC, Jobs, Ordered, MaxSpurious, Mixed
Workers == 1..MaxThreads
Callers == (MaxThreads + 1)..(MaxThreads + NC)
Handlers == (MaxThreads + NC + 1)..(MaxThreads + 2 * NC)
SpurId == MaxThreads + 2 * NC + 1
Cl(p) == IF p \in Callers THEN p - MaxThreads ELSE p - MaxThreads - NC      \* client index of a caller / handler
Clients == 1..NC
None == 0
Objs == {<<"pool", 0>>} \cup {<<"rq", c>> : c \in Clients} \cup {<<"thr", w>> : w \in Workers}
JobId(c, j) == c * 100 + j
\* all clients alike, or (Mixed) client 1 ordered (a writer) and the others unordered (sorters) on one pool
OrdOf(c) == IF Mixed THEN c = 1 ELSE Ordered

Procs == Workers \cup Callers \cup Handlers
Loc == {<<f, w>> : f \in {"running","cb","res","trq","next"}, w \in Workers}
       \cup {<<f, c>> : f \in {"rqlist","nthreads","finished","cbdata"}, c \in Clients} \cup {<<"phead",0>>, <<"pcount",0>>}
\* hb = [W: Loc -> SUBSET Procs, R: Loc -> SUBSET (Procs \X Procs), CW: Objs -> SUBSET Loc, CR: Objs -> SUBSET (Loc \X Procs), race]
HB0 == [W |-> [x \in Loc |-> Procs], R |-> [x \in Loc |-> {}], CW |-> [m \in Objs |-> {}], CR |-> [m \in Objs |-> {}], race |-> <<>>]
Readers(hb, x) == {p[1] : p \in hb.R[x]}
RdOne(hb, t, x) ==
  [hb EXCEPT !.race = IF @ = <<>> /\ t \notin hb.W[x] THEN <<"read", x, t>> ELSE @,
             !.R[x] = {p \in @ : p[1] # t} \cup {<<t, t>>},
             !.CR = [m \in Objs |-> {q \in hb.CR[m] : q # <<x, t>>}]]
WrOne(hb, t, x) ==
  [hb EXCEPT !.race = IF @ = <<>> /\ (t \notin hb.W[x] \/ \E r \in Readers(hb, x) : <<r, t>> \notin hb.R[x]) THEN <<"write", x, t>> ELSE @,
             !.W[x] = {t}, !.R[x] = {},
             !.CW = [m \in Objs |-> hb.CW[m] \ {x}],
             !.CR = [m \in Objs |-> {q \in hb.CR[m] : q[1] # x}]]
RECURSIVE RdAll(_,_,_)
RdAll(hb, t, S) == IF S = {} THEN hb ELSE LET x == CHOOSE y \in S : TRUE IN RdAll(RdOne(hb, t, x), t, S \ {x})
RECURSIVE WrAll(_,_,_)
WrAll(hb, t, S) == IF S = {} THEN hb ELSE LET x == CHOOSE y \in S : TRUE IN WrAll(WrOne(hb, t, x), t, S \ {x})
Acc(hb, t, rds, wrs) == WrAll(RdAll(hb, t, rds), t, wrs)
OnUnlock(hb, t, m) == [hb EXCEPT !.CW[m] = @ \cup {x \in Loc : t \in hb.W[x]},
                                 !.CR[m] = @ \cup {q \in Loc \X Procs : <<q[2], t>> \in hb.R[q[1]]}]
OnLock(hb, t, m) == [hb EXCEPT !.W = [x \in Loc |-> IF x \in hb.CW[m] THEN hb.W[x] \cup {t} ELSE hb.W[x]],
                               !.R = [x \in Loc |-> hb.R[x] \cup {<<q[2], t>> : q \in {qq \in hb.CR[m] : qq[1] = x}}]]
\* everything visible to a becomes visible to b (create: a = parent, b = child; join: a = child, b = joiner)
Inherit(hb, a, b) == [hb EXCEPT !.W = [x \in Loc |-> IF a \in hb.W[x] THEN hb.W[x] \cup {b} ELSE hb.W[x]],
                                !.R = [x \in Loc |-> hb.R[x] \cup {<<p[1], b>> : p \in {pp \in hb.R[x] : pp[2] = a}}]]
ThrFields(w) == {<<f, w>> : f \in {"running","cb","res","trq","next"}}
LastNext(q) == IF q = <<>> THEN {} ELSE {<<"next", q[Len(q)]>>}
(* --algorithm tp2 {
variables
  owner = [o \in Objs |-> 0];
  waiters = [o \in Objs |-> {}];
  spurious = 0;
  phead = <<>>; pcount = 0;
  rqueue = [c \in Clients |-> <<>>]; nthreads = [c \in Clients |-> 0]; finished = [c \in Clients |-> FALSE];
  running = [w \in Workers |-> FALSE]; cb = [w \in Workers |-> None]; res = [w \in Workers |-> None]; trq = [w \in Workers |-> None];
  created = {}; exited = {};
  delivered = [c \in Clients |-> <<>>];
  hb = HB0; rhdone = [c \in Clients |-> FALSE]; closed = [c \in Clients |-> FALSE]; shutdown = FALSE;

macro lock(m) { await owner[m] = 0; owner[m] := self; hb := OnLock(hb, self, m); }
macro unlock(m) { owner[m] := 0; hb := OnUnlock(hb, self, m); }
macro signal(cvar) { if (waiters[cvar] # {}) { with (wk \in waiters[cvar]) { waiters[cvar] := waiters[cvar] \ {wk}; } } }

procedure wait(cv, mx) {
 cw1: owner[mx] := 0; waiters[cv] := waiters[cv] \cup {self}; hb := OnUnlock(hb, self, mx);
 cw2: await self \notin waiters[cv] /\ owner[mx] = 0; owner[mx] := self; hb := OnLock(hb, self, mx); return;
}

process (caller \in Callers)
variables j = 1; thr = None; isnew = FALSE;
{
 m0: while (j <= Jobs) {
  n1: lock(<<"pool",0>>);
  n2: while (phead = <<>> /\ pcount = MaxThreads) { call wait(<<"pool",0>>, <<"pool",0>>); };
  n3: if (phead # <<>>) { hb := Acc(hb, self, {<<"phead",0>>, <<"pcount",0>>, <<"next",Head(phead)>>, <<"cb",Head(phead)>>, <<"res",Head(phead)>>, <<"running",Head(phead)>>}, {<<"phead",0>>, <<"next",Head(phead)>>});
                           thr := Head(phead); phead := Tail(phead); isnew := FALSE; }
      else { hb := Acc(hb, self, {<<"phead",0>>, <<"pcount",0>>}, {<<"pcount",0>>}); pcount := pcount + 1; thr := pcount; isnew := TRUE; };
  n4: unlock(<<"pool",0>>);
  n5: if (isnew) { created := created \cup {thr}; hb := Inherit(Acc(hb, self, {}, ThrFields(thr)), self, thr); }
      else { hb := Acc(hb, self, {<<"running",thr>>, <<"next",thr>>}, {}); };
  d1: lock(<<"thr",thr>>);
  d2: hb := Acc(hb, self, {}, {<<"trq",thr>>, <<"cb",thr>>, <<"running",thr>>}); trq[thr] := IF OrdOf(Cl(self)) THEN None ELSE Cl(self); cb[thr] := JobId(Cl(self), j); running[thr] := TRUE; signal(<<"thr",thr>>);
  d3: unlock(<<"thr",thr>>);
  d4: lock(<<"rq",Cl(self)>>);
  d5: hb := Acc(hb, self, {<<"nthreads",Cl(self)>>, <<"finished",Cl(self)>>}, {<<"nthreads",Cl(self)>>} \cup (IF OrdOf(Cl(self)) THEN {<<"rqlist",Cl(self)>>} \cup LastNext(rqueue[Cl(self)]) ELSE {}));
      nthreads[Cl(self)] := nthreads[Cl(self)] + 1;
      if (OrdOf(Cl(self))) { rqueue[Cl(self)] := Append(rqueue[Cl(self)], thr); signal(<<"rq",Cl(self)>>); };
  d6: unlock(<<"rq",Cl(self)>>); j := j + 1;
 };
 f1: lock(<<"rq",Cl(self)>>);
 f2: hb := Acc(hb, self, {}, {<<"finished",Cl(self)>>}); finished[Cl(self)] := TRUE; signal(<<"rq",Cl(self)>>);
 f3: unlock(<<"rq",Cl(self)>>);
 f4: await rhdone[Cl(self)]; closed[Cl(self)] := TRUE; hb := Acc(Inherit(hb, MaxThreads + NC + Cl(self), self), self, {<<"cbdata",Cl(self)>>}, {<<"cbdata",Cl(self)>>});
 \* the first caller destroys the pool once every client has closed
 p0: if (Cl(self) # 1) { goto cend; } else { await \A c \in Clients : closed[c]; };
 p1: lock(<<"pool",0>>);
 p2: while (pcount > 0) {
   p3: while (phead = <<>>) { call wait(<<"pool",0>>, <<"pool",0>>); };
   p4: hb := Acc(hb, self, {<<"phead",0>>, <<"pcount",0>>, <<"next",Head(phead)>>, <<"cb",Head(phead)>>}, {<<"phead",0>>}); thr := Head(phead); phead := Tail(phead);
   p5: lock(<<"thr",thr>>);
   p6: hb := Acc(hb, self, {}, {<<"running",thr>>}); running[thr] := TRUE; signal(<<"thr",thr>>);
   p7: unlock(<<"thr",thr>>);
   p8: await thr \in exited; hb := Acc(Inherit(hb, thr, self), self, {}, ThrFields(thr) \cup {<<"pcount",0>>}); pcount := pcount - 1;
 };
 p9: unlock(<<"pool",0>>); shutdown := TRUE;
 cend: skip;
}

process (worker \in Workers)
variables myrq = None;
{
 w0: await self \in created \/ shutdown; if (self \notin created) { goto wend; };
 w1: lock(<<"thr",self>>);
 w2: hb := Acc(hb, self, {<<"running",self>>}, {});
 w2b: while (~running[self]) { call wait(<<"thr",self>>, <<"thr",self>>); w2c: hb := Acc(hb, self, {<<"running",self>>}, {}); };
 w3: unlock(<<"thr",self>>);
 w4: if (cb[self] = None) { hb := Acc(hb, self, {<<"cb",self>>}, {}); exited := exited \cup {self}; goto wend; }
     else { hb := Acc(hb, self, {<<"cb",self>>, <<"trq",self>>}, {<<"res",self>>, <<"cb",self>>, <<"trq",self>>} \cup (IF trq[self] # None THEN {<<"running",self>>} ELSE {}));
            res[self] := cb[self]; cb[self] := None; myrq := trq[self]; trq[self] := None;
            if (myrq # None) { running[self] := FALSE; } };
 w5: if (myrq # None) {
       w6: lock(<<"rq",myrq>>);
       w7: hb := Acc(hb, self, {}, {<<"rqlist",myrq>>} \cup LastNext(rqueue[myrq])); rqueue[myrq] := Append(rqueue[myrq], self); signal(<<"rq",myrq>>);
       w8: unlock(<<"rq",myrq>>); goto w1;
     } else {
       w9: lock(<<"thr",self>>);
       w10: hb := Acc(hb, self, {}, {<<"running",self>>}); running[self] := FALSE; signal(<<"thr",self>>);
       w11: unlock(<<"thr",self>>); goto w1;
     };
 wend: skip;
}

process (rh \in Handlers)
variables t = None; r = None;
{
 r1: lock(<<"rq",Cl(self)>>);
 r2: while (rqueue[Cl(self)] = <<>> /\ ~(finished[Cl(self)] /\ nthreads[Cl(self)] = 0)) { call wait(<<"rq",Cl(self)>>, <<"rq",Cl(self)>>); };
 r3: if (rqueue[Cl(self)] # <<>>) { hb := Acc(hb, self, {<<"rqlist",Cl(self)>>, <<"finished",Cl(self)>>, <<"nthreads",Cl(self)>>, <<"next",Head(rqueue[Cl(self)])>>}, {<<"rqlist",Cl(self)>>, <<"nthreads",Cl(self)>>, <<"next",Head(rqueue[Cl(self)])>>}); t := Head(rqueue[Cl(self)]); rqueue[Cl(self)] := Tail(rqueue[Cl(self)]); nthreads[Cl(self)] := nthreads[Cl(self)] - 1; } else { hb := Acc(hb, self, {<<"rqlist",Cl(self)>>, <<"finished",Cl(self)>>, <<"nthreads",Cl(self)>>}, {}); t := None; };
 r4: unlock(<<"rq",Cl(self)>>);
 r5: if (t = None) { rhdone[Cl(self)] := TRUE; goto rend; };
 r6: lock(<<"thr",t>>);
 r7: while (running[t]) { call wait(<<"thr",t>>, <<"thr",t>>); };
 r8: hb := Acc(hb, self, {<<"running",t>>, <<"res",t>>}, {<<"res",t>>}); r := res[t]; res[t] := None;
 r9: unlock(<<"thr",t>>);
 r10: lock(<<"pool",0>>);
 r11: hb := Acc(hb, self, {<<"phead",0>>}, {<<"phead",0>>, <<"next",t>>}); phead := <<t>> \o phead; signal(<<"pool",0>>);
 r12: unlock(<<"pool",0>>);
 r13: hb := Acc(hb, self, {<<"cbdata",Cl(self)>>}, {<<"cbdata",Cl(self)>>}); delivered[Cl(self)] := Append(delivered[Cl(self)], r); goto r1;
 rend: skip;
}

process (spur = SpurId)
{
 s0: while (spurious < MaxSpurious) {
   with (o \in {x \in Objs : waiters[x] # {}}) { with (wk \in waiters[o]) { waiters[o] := waiters[o] \ {wk}; spurious := spurious + 1; } }
 }
}
} *)
\* BEGIN TRANSLATION
CONSTANT defaultInitValue
VARIABLES pc, owner, waiters, spurious, phead, pcount, rqueue, nthreads, 
          finished, running, cb, res, trq, created, exited, delivered, hb, 
          rhdone, closed, shutdown, stack, cv, mx, j, thr, isnew, myrq, t, r

vars == << pc, owner, waiters, spurious, phead, pcount, rqueue, nthreads, 
           finished, running, cb, res, trq, created, exited, delivered, hb, 
           rhdone, closed, shutdown, stack, cv, mx, j, thr, isnew, myrq, t, r
        >>

ProcSet == (Callers) \cup (Workers) \cup (Handlers) \cup {SpurId}

Init == (* Global variables *)
        /\ owner = [o \in Objs |-> 0]
        /\ waiters = [o \in Objs |-> {}]
        /\ spurious = 0
        /\ phead = <<>>
        /\ pcount = 0
        /\ rqueue = [c \in Clients |-> <<>>]
        /\ nthreads = [c \in Clients |-> 0]
        /\ finished = [c \in Clients |-> FALSE]
        /\ running = [w \in Workers |-> FALSE]
        /\ cb = [w \in Workers |-> None]
        /\ res = [w \in Workers |-> None]
        /\ trq = [w \in Workers |-> None]
        /\ created = {}
        /\ exited = {}
        /\ delivered = [c \in Clients |-> <<>>]
        /\ hb = HB0
        /\ rhdone = [c \in Clients |-> FALSE]
        /\ closed = [c \in Clients |-> FALSE]
        /\ shutdown = FALSE
        (* Procedure wait *)
        /\ cv = [ self \in ProcSet |-> defaultInitValue]
        /\ mx = [ self \in ProcSet |-> defaultInitValue]
        (* Process caller *)
        /\ j = [self \in Callers |-> 1]
        /\ thr = [self \in Callers |-> None]
        /\ isnew = [self \in Callers |-> FALSE]
        (* Process worker *)
        /\ myrq = [self \in Workers |-> None]
        (* Process rh *)
        /\ t = [self \in Handlers |-> None]
        /\ r = [self \in Handlers |-> None]
        /\ stack = [self \in ProcSet |-> << >>]
        /\ pc = [self \in ProcSet |-> CASE self \in Callers -> "m0"
                                        [] self \in Workers -> "w0"
                                        [] self \in Handlers -> "r1"
                                        [] self = SpurId -> "s0"]

cw1(self) == /\ pc[self] = "cw1"
             /\ owner' = [owner EXCEPT ![mx[self]] = 0]
             /\ waiters' = [waiters EXCEPT ![cv[self]] = waiters[cv[self]] \cup {self}]
             /\ hb' = OnUnlock(hb, self, mx[self])
             /\ pc' = [pc EXCEPT ![self] = "cw2"]
             /\ UNCHANGED << spurious, phead, pcount, rqueue, nthreads, 
                             finished, running, cb, res, trq, created, exited, 
                             delivered, rhdone, closed, shutdown, stack, cv, 
                             mx, j, thr, isnew, myrq, t, r >>

cw2(self) == /\ pc[self] = "cw2"
             /\ self \notin waiters[cv[self]] /\ owner[mx[self]] = 0
             /\ owner' = [owner EXCEPT ![mx[self]] = self]
             /\ hb' = OnLock(hb, self, mx[self])
             /\ pc' = [pc EXCEPT ![self] = Head(stack[self]).pc]
             /\ cv' = [cv EXCEPT ![self] = Head(stack[self]).cv]
             /\ mx' = [mx EXCEPT ![self] = Head(stack[self]).mx]
             /\ stack' = [stack EXCEPT ![self] = Tail(stack[self])]
             /\ UNCHANGED << waiters, spurious, phead, pcount, rqueue, 
                             nthreads, finished, running, cb, res, trq, 
                             created, exited, delivered, rhdone, closed, 
                             shutdown, j, thr, isnew, myrq, t, r >>

wait(self) == cw1(self) \/ cw2(self)

m0(self) == /\ pc[self] = "m0"
            /\ IF j[self] <= Jobs
                  THEN /\ pc' = [pc EXCEPT ![self] = "n1"]
                  ELSE /\ pc' = [pc EXCEPT ![self] = "f1"]
            /\ UNCHANGED << owner, waiters, spurious, phead, pcount, rqueue, 
                            nthreads, finished, running, cb, res, trq, created, 
                            exited, delivered, hb, rhdone, closed, shutdown, 
                            stack, cv, mx, j, thr, isnew, myrq, t, r >>

n1(self) == /\ pc[self] = "n1"
            /\ owner[(<<"pool",0>>)] = 0
            /\ owner' = [owner EXCEPT ![(<<"pool",0>>)] = self]
            /\ hb' = OnLock(hb, self, (<<"pool",0>>))
            /\ pc' = [pc EXCEPT ![self] = "n2"]
            /\ UNCHANGED << waiters, spurious, phead, pcount, rqueue, nthreads, 
                            finished, running, cb, res, trq, created, exited, 
                            delivered, rhdone, closed, shutdown, stack, cv, mx, 
                            j, thr, isnew, myrq, t, r >>

n2(self) == /\ pc[self] = "n2"
            /\ IF phead = <<>> /\ pcount = MaxThreads
                  THEN /\ /\ cv' = [cv EXCEPT ![self] = <<"pool",0>>]
                          /\ mx' = [mx EXCEPT ![self] = <<"pool",0>>]
                          /\ stack' = [stack EXCEPT ![self] = << [ procedure |->  "wait",
                                                                   pc        |->  "n2",
                                                                   cv        |->  cv[self],
                                                                   mx        |->  mx[self] ] >>
                                                               \o stack[self]]
                       /\ pc' = [pc EXCEPT ![self] = "cw1"]
                  ELSE /\ pc' = [pc EXCEPT ![self] = "n3"]
                       /\ UNCHANGED << stack, cv, mx >>
            /\ UNCHANGED << owner, waiters, spurious, phead, pcount, rqueue, 
                            nthreads, finished, running, cb, res, trq, created, 
                            exited, delivered, hb, rhdone, closed, shutdown, j, 
                            thr, isnew, myrq, t, r >>

n3(self) == /\ pc[self] = "n3"
            /\ IF phead # <<>>
                  THEN /\ hb' = Acc(hb, self, {<<"phead",0>>, <<"pcount",0>>, <<"next",Head(phead)>>, <<"cb",Head(phead)>>, <<"res",Head(phead)>>, <<"running",Head(phead)>>}, {<<"phead",0>>, <<"next",Head(phead)>>})
                       /\ thr' = [thr EXCEPT ![self] = Head(phead)]
                       /\ phead' = Tail(phead)
                       /\ isnew' = [isnew EXCEPT ![self] = FALSE]
                       /\ UNCHANGED pcount
                  ELSE /\ hb' = Acc(hb, self, {<<"phead",0>>, <<"pcount",0>>}, {<<"pcount",0>>})
                       /\ pcount' = pcount + 1
                       /\ thr' = [thr EXCEPT ![self] = pcount']
                       /\ isnew' = [isnew EXCEPT ![self] = TRUE]
                       /\ phead' = phead
            /\ pc' = [pc EXCEPT ![self] = "n4"]
            /\ UNCHANGED << owner, waiters, spurious, rqueue, nthreads, 
                            finished, running, cb, res, trq, created, exited, 
                            delivered, rhdone, closed, shutdown, stack, cv, mx, 
                            j, myrq, t, r >>

n4(self) == /\ pc[self] = "n4"
            /\ owner' = [owner EXCEPT ![(<<"pool",0>>)] = 0]
            /\ hb' = OnUnlock(hb, self, (<<"pool",0>>))
            /\ pc' = [pc EXCEPT ![self] = "n5"]
            /\ UNCHANGED << waiters, spurious, phead, pcount, rqueue, nthreads, 
                            finished, running, cb, res, trq, created, exited, 
                            delivered, rhdone, closed, shutdown, stack, cv, mx, 
                            j, thr, isnew, myrq, t, r >>

n5(self) == /\ pc[self] = "n5"
            /\ IF isnew[self]
                  THEN /\ created' = (created \cup {thr[self]})
                       /\ hb' = Inherit(Acc(hb, self, {}, ThrFields(thr[self])), self, thr[self])
                  ELSE /\ hb' = Acc(hb, self, {<<"running",thr[self]>>, <<"next",thr[self]>>}, {})
                       /\ UNCHANGED created
            /\ pc' = [pc EXCEPT ![self] = "d1"]
            /\ UNCHANGED << owner, waiters, spurious, phead, pcount, rqueue, 
                            nthreads, finished, running, cb, res, trq, exited, 
                            delivered, rhdone, closed, shutdown, stack, cv, mx, 
                            j, thr, isnew, myrq, t, r >>

d1(self) == /\ pc[self] = "d1"
            /\ owner[(<<"thr",thr[self]>>)] = 0
            /\ owner' = [owner EXCEPT ![(<<"thr",thr[self]>>)] = self]
            /\ hb' = OnLock(hb, self, (<<"thr",thr[self]>>))
            /\ pc' = [pc EXCEPT ![self] = "d2"]
            /\ UNCHANGED << waiters, spurious, phead, pcount, rqueue, nthreads, 
                            finished, running, cb, res, trq, created, exited, 
                            delivered, rhdone, closed, shutdown, stack, cv, mx, 
                            j, thr, isnew, myrq, t, r >>

d2(self) == /\ pc[self] = "d2"
            /\ hb' = Acc(hb, self, {}, {<<"trq",thr[self]>>, <<"cb",thr[self]>>, <<"running",thr[self]>>})
            /\ trq' = [trq EXCEPT ![thr[self]] = IF OrdOf(Cl(self)) THEN None ELSE Cl(self)]
            /\ cb' = [cb EXCEPT ![thr[self]] = JobId(Cl(self), j[self])]
            /\ running' = [running EXCEPT ![thr[self]] = TRUE]
            /\ IF waiters[(<<"thr",thr[self]>>)] # {}
                  THEN /\ \E wk \in waiters[(<<"thr",thr[self]>>)]:
                            waiters' = [waiters EXCEPT ![(<<"thr",thr[self]>>)] = waiters[(<<"thr",thr[self]>>)] \ {wk}]
                  ELSE /\ TRUE
                       /\ UNCHANGED waiters
            /\ pc' = [pc EXCEPT ![self] = "d3"]
            /\ UNCHANGED << owner, spurious, phead, pcount, rqueue, nthreads, 
                            finished, res, created, exited, delivered, rhdone, 
                            closed, shutdown, stack, cv, mx, j, thr, isnew, 
                            myrq, t, r >>

d3(self) == /\ pc[self] = "d3"
            /\ owner' = [owner EXCEPT ![(<<"thr",thr[self]>>)] = 0]
            /\ hb' = OnUnlock(hb, self, (<<"thr",thr[self]>>))
            /\ pc' = [pc EXCEPT ![self] = "d4"]
            /\ UNCHANGED << waiters, spurious, phead, pcount, rqueue, nthreads, 
                            finished, running, cb, res, trq, created, exited, 
                            delivered, rhdone, closed, shutdown, stack, cv, mx, 
                            j, thr, isnew, myrq, t, r >>

d4(self) == /\ pc[self] = "d4"
            /\ owner[(<<"rq",Cl(self)>>)] = 0
            /\ owner' = [owner EXCEPT ![(<<"rq",Cl(self)>>)] = self]
            /\ hb' = OnLock(hb, self, (<<"rq",Cl(self)>>))
            /\ pc' = [pc EXCEPT ![self] = "d5"]
            /\ UNCHANGED << waiters, spurious, phead, pcount, rqueue, nthreads, 
                            finished, running, cb, res, trq, created, exited, 
                            delivered, rhdone, closed, shutdown, stack, cv, mx, 
                            j, thr, isnew, myrq, t, r >>

d5(self) == /\ pc[self] = "d5"
            /\ hb' = Acc(hb, self, {<<"nthreads",Cl(self)>>, <<"finished",Cl(self)>>}, {<<"nthreads",Cl(self)>>} \cup (IF OrdOf(Cl(self)) THEN {<<"rqlist",Cl(self)>>} \cup LastNext(rqueue[Cl(self)]) ELSE {}))
            /\ nthreads' = [nthreads EXCEPT ![Cl(self)] = nthreads[Cl(self)] + 1]
            /\ IF OrdOf(Cl(self))
                  THEN /\ rqueue' = [rqueue EXCEPT ![Cl(self)] = Append(rqueue[Cl(self)], thr[self])]
                       /\ IF waiters[(<<"rq",Cl(self)>>)] # {}
                             THEN /\ \E wk \in waiters[(<<"rq",Cl(self)>>)]:
                                       waiters' = [waiters EXCEPT ![(<<"rq",Cl(self)>>)] = waiters[(<<"rq",Cl(self)>>)] \ {wk}]
                             ELSE /\ TRUE
                                  /\ UNCHANGED waiters
                  ELSE /\ TRUE
                       /\ UNCHANGED << waiters, rqueue >>
            /\ pc' = [pc EXCEPT ![self] = "d6"]
            /\ UNCHANGED << owner, spurious, phead, pcount, finished, running, 
                            cb, res, trq, created, exited, delivered, rhdone, 
                            closed, shutdown, stack, cv, mx, j, thr, isnew, 
                            myrq, t, r >>

d6(self) == /\ pc[self] = "d6"
            /\ owner' = [owner EXCEPT ![(<<"rq",Cl(self)>>)] = 0]
            /\ hb' = OnUnlock(hb, self, (<<"rq",Cl(self)>>))
            /\ j' = [j EXCEPT ![self] = j[self] + 1]
            /\ pc' = [pc EXCEPT ![self] = "m0"]
            /\ UNCHANGED << waiters, spurious, phead, pcount, rqueue, nthreads, 
                            finished, running, cb, res, trq, created, exited, 
                            delivered, rhdone, closed, shutdown, stack, cv, mx, 
                            thr, isnew, myrq, t, r >>

f1(self) == /\ pc[self] = "f1"
            /\ owner[(<<"rq",Cl(self)>>)] = 0
            /\ owner' = [owner EXCEPT ![(<<"rq",Cl(self)>>)] = self]
            /\ hb' = OnLock(hb, self, (<<"rq",Cl(self)>>))
            /\ pc' = [pc EXCEPT ![self] = "f2"]
            /\ UNCHANGED << waiters, spurious, phead, pcount, rqueue, nthreads, 
                            finished, running, cb, res, trq, created, exited, 
                            delivered, rhdone, closed, shutdown, stack, cv, mx, 
                            j, thr, isnew, myrq, t, r >>

f2(self) == /\ pc[self] = "f2"
            /\ hb' = Acc(hb, self, {}, {<<"finished",Cl(self)>>})
            /\ finished' = [finished EXCEPT ![Cl(self)] = TRUE]
            /\ IF waiters[(<<"rq",Cl(self)>>)] # {}
                  THEN /\ \E wk \in waiters[(<<"rq",Cl(self)>>)]:
                            waiters' = [waiters EXCEPT ![(<<"rq",Cl(self)>>)] = waiters[(<<"rq",Cl(self)>>)] \ {wk}]
                  ELSE /\ TRUE
                       /\ UNCHANGED waiters
            /\ pc' = [pc EXCEPT ![self] = "f3"]
            /\ UNCHANGED << owner, spurious, phead, pcount, rqueue, nthreads, 
                            running, cb, res, trq, created, exited, delivered, 
                            rhdone, closed, shutdown, stack, cv, mx, j, thr, 
                            isnew, myrq, t, r >>

f3(self) == /\ pc[self] = "f3"
            /\ owner' = [owner EXCEPT ![(<<"rq",Cl(self)>>)] = 0]
            /\ hb' = OnUnlock(hb, self, (<<"rq",Cl(self)>>))
            /\ pc' = [pc EXCEPT ![self] = "f4"]
            /\ UNCHANGED << waiters, spurious, phead, pcount, rqueue, nthreads, 
                            finished, running, cb, res, trq, created, exited, 
                            delivered, rhdone, closed, shutdown, stack, cv, mx, 
                            j, thr, isnew, myrq, t, r >>

f4(self) == /\ pc[self] = "f4"
            /\ rhdone[Cl(self)]
            /\ closed' = [closed EXCEPT ![Cl(self)] = TRUE]
            /\ hb' = Acc(Inherit(hb, MaxThreads + NC + Cl(self), self), self, {<<"cbdata",Cl(self)>>}, {<<"cbdata",Cl(self)>>})
            /\ pc' = [pc EXCEPT ![self] = "p0"]
            /\ UNCHANGED << owner, waiters, spurious, phead, pcount, rqueue, 
                            nthreads, finished, running, cb, res, trq, created, 
                            exited, delivered, rhdone, shutdown, stack, cv, mx, 
                            j, thr, isnew, myrq, t, r >>

p0(self) == /\ pc[self] = "p0"
            /\ IF Cl(self) # 1
                  THEN /\ pc' = [pc EXCEPT ![self] = "cend"]
                  ELSE /\ \A c \in Clients : closed[c]
                       /\ pc' = [pc EXCEPT ![self] = "p1"]
            /\ UNCHANGED << owner, waiters, spurious, phead, pcount, rqueue, 
                            nthreads, finished, running, cb, res, trq, created, 
                            exited, delivered, hb, rhdone, closed, shutdown, 
                            stack, cv, mx, j, thr, isnew, myrq, t, r >>

p1(self) == /\ pc[self] = "p1"
            /\ owner[(<<"pool",0>>)] = 0
            /\ owner' = [owner EXCEPT ![(<<"pool",0>>)] = self]
            /\ hb' = OnLock(hb, self, (<<"pool",0>>))
            /\ pc' = [pc EXCEPT ![self] = "p2"]
            /\ UNCHANGED << waiters, spurious, phead, pcount, rqueue, nthreads, 
                            finished, running, cb, res, trq, created, exited, 
                            delivered, rhdone, closed, shutdown, stack, cv, mx, 
                            j, thr, isnew, myrq, t, r >>

p2(self) == /\ pc[self] = "p2"
            /\ IF pcount > 0
                  THEN /\ pc' = [pc EXCEPT ![self] = "p3"]
                  ELSE /\ pc' = [pc EXCEPT ![self] = "p9"]
            /\ UNCHANGED << owner, waiters, spurious, phead, pcount, rqueue, 
                            nthreads, finished, running, cb, res, trq, created, 
                            exited, delivered, hb, rhdone, closed, shutdown, 
                            stack, cv, mx, j, thr, isnew, myrq, t, r >>

p3(self) == /\ pc[self] = "p3"
            /\ IF phead = <<>>
                  THEN /\ /\ cv' = [cv EXCEPT ![self] = <<"pool",0>>]
                          /\ mx' = [mx EXCEPT ![self] = <<"pool",0>>]
                          /\ stack' = [stack EXCEPT ![self] = << [ procedure |->  "wait",
                                                                   pc        |->  "p3",
                                                                   cv        |->  cv[self],
                                                                   mx        |->  mx[self] ] >>
                                                               \o stack[self]]
                       /\ pc' = [pc EXCEPT ![self] = "cw1"]
                  ELSE /\ pc' = [pc EXCEPT ![self] = "p4"]
                       /\ UNCHANGED << stack, cv, mx >>
            /\ UNCHANGED << owner, waiters, spurious, phead, pcount, rqueue, 
                            nthreads, finished, running, cb, res, trq, created, 
                            exited, delivered, hb, rhdone, closed, shutdown, j, 
                            thr, isnew, myrq, t, r >>

p4(self) == /\ pc[self] = "p4"
            /\ hb' = Acc(hb, self, {<<"phead",0>>, <<"pcount",0>>, <<"next",Head(phead)>>, <<"cb",Head(phead)>>}, {<<"phead",0>>})
            /\ thr' = [thr EXCEPT ![self] = Head(phead)]
            /\ phead' = Tail(phead)
            /\ pc' = [pc EXCEPT ![self] = "p5"]
            /\ UNCHANGED << owner, waiters, spurious, pcount, rqueue, nthreads, 
                            finished, running, cb, res, trq, created, exited, 
                            delivered, rhdone, closed, shutdown, stack, cv, mx, 
                            j, isnew, myrq, t, r >>

p5(self) == /\ pc[self] = "p5"
            /\ owner[(<<"thr",thr[self]>>)] = 0
            /\ owner' = [owner EXCEPT ![(<<"thr",thr[self]>>)] = self]
            /\ hb' = OnLock(hb, self, (<<"thr",thr[self]>>))
            /\ pc' = [pc EXCEPT ![self] = "p6"]
            /\ UNCHANGED << waiters, spurious, phead, pcount, rqueue, nthreads, 
                            finished, running, cb, res, trq, created, exited, 
                            delivered, rhdone, closed, shutdown, stack, cv, mx, 
                            j, thr, isnew, myrq, t, r >>

p6(self) == /\ pc[self] = "p6"
            /\ hb' = Acc(hb, self, {}, {<<"running",thr[self]>>})
            /\ running' = [running EXCEPT ![thr[self]] = TRUE]
            /\ IF waiters[(<<"thr",thr[self]>>)] # {}
                  THEN /\ \E wk \in waiters[(<<"thr",thr[self]>>)]:
                            waiters' = [waiters EXCEPT ![(<<"thr",thr[self]>>)] = waiters[(<<"thr",thr[self]>>)] \ {wk}]
                  ELSE /\ TRUE
                       /\ UNCHANGED waiters
            /\ pc' = [pc EXCEPT ![self] = "p7"]
            /\ UNCHANGED << owner, spurious, phead, pcount, rqueue, nthreads, 
                            finished, cb, res, trq, created, exited, delivered, 
                            rhdone, closed, shutdown, stack, cv, mx, j, thr, 
                            isnew, myrq, t, r >>

p7(self) == /\ pc[self] = "p7"
            /\ owner' = [owner EXCEPT ![(<<"thr",thr[self]>>)] = 0]
            /\ hb' = OnUnlock(hb, self, (<<"thr",thr[self]>>))
            /\ pc' = [pc EXCEPT ![self] = "p8"]
            /\ UNCHANGED << waiters, spurious, phead, pcount, rqueue, nthreads, 
                            finished, running, cb, res, trq, created, exited, 
                            delivered, rhdone, closed, shutdown, stack, cv, mx, 
                            j, thr, isnew, myrq, t, r >>

p8(self) == /\ pc[self] = "p8"
            /\ thr[self] \in exited
            /\ hb' = Acc(Inherit(hb, thr[self], self), self, {}, ThrFields(thr[self]) \cup {<<"pcount",0>>})
            /\ pcount' = pcount - 1
            /\ pc' = [pc EXCEPT ![self] = "p2"]
            /\ UNCHANGED << owner, waiters, spurious, phead, rqueue, nthreads, 
                            finished, running, cb, res, trq, created, exited, 
                            delivered, rhdone, closed, shutdown, stack, cv, mx, 
                            j, thr, isnew, myrq, t, r >>

p9(self) == /\ pc[self] = "p9"
            /\ owner' = [owner EXCEPT ![(<<"pool",0>>)] = 0]
            /\ hb' = OnUnlock(hb, self, (<<"pool",0>>))
            /\ shutdown' = TRUE
            /\ pc' = [pc EXCEPT ![self] = "cend"]
            /\ UNCHANGED << waiters, spurious, phead, pcount, rqueue, nthreads, 
                            finished, running, cb, res, trq, created, exited, 
                            delivered, rhdone, closed, stack, cv, mx, j, thr, 
                            isnew, myrq, t, r >>

cend(self) == /\ pc[self] = "cend"
              /\ TRUE
              /\ pc' = [pc EXCEPT ![self] = "Done"]
              /\ UNCHANGED << owner, waiters, spurious, phead, pcount, rqueue, 
                              nthreads, finished, running, cb, res, trq, 
                              created, exited, delivered, hb, rhdone, closed, 
                              shutdown, stack, cv, mx, j, thr, isnew, myrq, t, 
                              r >>

caller(self) == m0(self) \/ n1(self) \/ n2(self) \/ n3(self) \/ n4(self)
                   \/ n5(self) \/ d1(self) \/ d2(self) \/ d3(self)
                   \/ d4(self) \/ d5(self) \/ d6(self) \/ f1(self)
                   \/ f2(self) \/ f3(self) \/ f4(self) \/ p0(self)
                   \/ p1(self) \/ p2(self) \/ p3(self) \/ p4(self)
                   \/ p5(self) \/ p6(self) \/ p7(self) \/ p8(self)
                   \/ p9(self) \/ cend(self)

w0(self) == /\ pc[self] = "w0"
            /\ self \in created \/ shutdown
            /\ IF self \notin created
                  THEN /\ pc' = [pc EXCEPT ![self] = "wend"]
                  ELSE /\ pc' = [pc EXCEPT ![self] = "w1"]
            /\ UNCHANGED << owner, waiters, spurious, phead, pcount, rqueue, 
                            nthreads, finished, running, cb, res, trq, created, 
                            exited, delivered, hb, rhdone, closed, shutdown, 
                            stack, cv, mx, j, thr, isnew, myrq, t, r >>

w1(self) == /\ pc[self] = "w1"
            /\ owner[(<<"thr",self>>)] = 0
            /\ owner' = [owner EXCEPT ![(<<"thr",self>>)] = self]
            /\ hb' = OnLock(hb, self, (<<"thr",self>>))
            /\ pc' = [pc EXCEPT ![self] = "w2"]
            /\ UNCHANGED << waiters, spurious, phead, pcount, rqueue, nthreads, 
                            finished, running, cb, res, trq, created, exited, 
                            delivered, rhdone, closed, shutdown, stack, cv, mx, 
                            j, thr, isnew, myrq, t, r >>

w2(self) == /\ pc[self] = "w2"
            /\ hb' = Acc(hb, self, {<<"running",self>>}, {})
            /\ pc' = [pc EXCEPT ![self] = "w2b"]
            /\ UNCHANGED << owner, waiters, spurious, phead, pcount, rqueue, 
                            nthreads, finished, running, cb, res, trq, created, 
                            exited, delivered, rhdone, closed, shutdown, stack, 
                            cv, mx, j, thr, isnew, myrq, t, r >>

w2b(self) == /\ pc[self] = "w2b"
             /\ IF ~running[self]
                   THEN /\ /\ cv' = [cv EXCEPT ![self] = <<"thr",self>>]
                           /\ mx' = [mx EXCEPT ![self] = <<"thr",self>>]
                           /\ stack' = [stack EXCEPT ![self] = << [ procedure |->  "wait",
                                                                    pc        |->  "w2c",
                                                                    cv        |->  cv[self],
                                                                    mx        |->  mx[self] ] >>
                                                                \o stack[self]]
                        /\ pc' = [pc EXCEPT ![self] = "cw1"]
                   ELSE /\ pc' = [pc EXCEPT ![self] = "w3"]
                        /\ UNCHANGED << stack, cv, mx >>
             /\ UNCHANGED << owner, waiters, spurious, phead, pcount, rqueue, 
                             nthreads, finished, running, cb, res, trq, 
                             created, exited, delivered, hb, rhdone, closed, 
                             shutdown, j, thr, isnew, myrq, t, r >>

w2c(self) == /\ pc[self] = "w2c"
             /\ hb' = Acc(hb, self, {<<"running",self>>}, {})
             /\ pc' = [pc EXCEPT ![self] = "w2b"]
             /\ UNCHANGED << owner, waiters, spurious, phead, pcount, rqueue, 
                             nthreads, finished, running, cb, res, trq, 
                             created, exited, delivered, rhdone, closed, 
                             shutdown, stack, cv, mx, j, thr, isnew, myrq, t, 
                             r >>

w3(self) == /\ pc[self] = "w3"
            /\ owner' = [owner EXCEPT ![(<<"thr",self>>)] = 0]
            /\ hb' = OnUnlock(hb, self, (<<"thr",self>>))
            /\ pc' = [pc EXCEPT ![self] = "w4"]
            /\ UNCHANGED << waiters, spurious, phead, pcount, rqueue, nthreads, 
                            finished, running, cb, res, trq, created, exited, 
                            delivered, rhdone, closed, shutdown, stack, cv, mx, 
                            j, thr, isnew, myrq, t, r >>

w4(self) == /\ pc[self] = "w4"
            /\ IF cb[self] = None
                  THEN /\ hb' = Acc(hb, self, {<<"cb",self>>}, {})
                       /\ exited' = (exited \cup {self})
                       /\ pc' = [pc EXCEPT ![self] = "wend"]
                       /\ UNCHANGED << running, cb, res, trq, myrq >>
                  ELSE /\ hb' = Acc(hb, self, {<<"cb",self>>, <<"trq",self>>}, {<<"res",self>>, <<"cb",self>>, <<"trq",self>>} \cup (IF trq[self] # None THEN {<<"running",self>>} ELSE {}))
                       /\ res' = [res EXCEPT ![self] = cb[self]]
                       /\ cb' = [cb EXCEPT ![self] = None]
                       /\ myrq' = [myrq EXCEPT ![self] = trq[self]]
                       /\ trq' = [trq EXCEPT ![self] = None]
                       /\ IF myrq'[self] # None
                             THEN /\ running' = [running EXCEPT ![self] = FALSE]
                             ELSE /\ TRUE
                                  /\ UNCHANGED running
                       /\ pc' = [pc EXCEPT ![self] = "w5"]
                       /\ UNCHANGED exited
            /\ UNCHANGED << owner, waiters, spurious, phead, pcount, rqueue, 
                            nthreads, finished, created, delivered, rhdone, 
                            closed, shutdown, stack, cv, mx, j, thr, isnew, t, 
                            r >>

w5(self) == /\ pc[self] = "w5"
            /\ IF myrq[self] # None
                  THEN /\ pc' = [pc EXCEPT ![self] = "w6"]
                  ELSE /\ pc' = [pc EXCEPT ![self] = "w9"]
            /\ UNCHANGED << owner, waiters, spurious, phead, pcount, rqueue, 
                            nthreads, finished, running, cb, res, trq, created, 
                            exited, delivered, hb, rhdone, closed, shutdown, 
                            stack, cv, mx, j, thr, isnew, myrq, t, r >>

w6(self) == /\ pc[self] = "w6"
            /\ owner[(<<"rq",myrq[self]>>)] = 0
            /\ owner' = [owner EXCEPT ![(<<"rq",myrq[self]>>)] = self]
            /\ hb' = OnLock(hb, self, (<<"rq",myrq[self]>>))
            /\ pc' = [pc EXCEPT ![self] = "w7"]
            /\ UNCHANGED << waiters, spurious, phead, pcount, rqueue, nthreads, 
                            finished, running, cb, res, trq, created, exited, 
                            delivered, rhdone, closed, shutdown, stack, cv, mx, 
                            j, thr, isnew, myrq, t, r >>

w7(self) == /\ pc[self] = "w7"
            /\ hb' = Acc(hb, self, {}, {<<"rqlist",myrq[self]>>} \cup LastNext(rqueue[myrq[self]]))
            /\ rqueue' = [rqueue EXCEPT ![myrq[self]] = Append(rqueue[myrq[self]], self)]
            /\ IF waiters[(<<"rq",myrq[self]>>)] # {}
                  THEN /\ \E wk \in waiters[(<<"rq",myrq[self]>>)]:
                            waiters' = [waiters EXCEPT ![(<<"rq",myrq[self]>>)] = waiters[(<<"rq",myrq[self]>>)] \ {wk}]
                  ELSE /\ TRUE
                       /\ UNCHANGED waiters
            /\ pc' = [pc EXCEPT ![self] = "w8"]
            /\ UNCHANGED << owner, spurious, phead, pcount, nthreads, finished, 
                            running, cb, res, trq, created, exited, delivered, 
                            rhdone, closed, shutdown, stack, cv, mx, j, thr, 
                            isnew, myrq, t, r >>

w8(self) == /\ pc[self] = "w8"
            /\ owner' = [owner EXCEPT ![(<<"rq",myrq[self]>>)] = 0]
            /\ hb' = OnUnlock(hb, self, (<<"rq",myrq[self]>>))
            /\ pc' = [pc EXCEPT ![self] = "w1"]
            /\ UNCHANGED << waiters, spurious, phead, pcount, rqueue, nthreads, 
                            finished, running, cb, res, trq, created, exited, 
                            delivered, rhdone, closed, shutdown, stack, cv, mx, 
                            j, thr, isnew, myrq, t, r >>

w9(self) == /\ pc[self] = "w9"
            /\ owner[(<<"thr",self>>)] = 0
            /\ owner' = [owner EXCEPT ![(<<"thr",self>>)] = self]
            /\ hb' = OnLock(hb, self, (<<"thr",self>>))
            /\ pc' = [pc EXCEPT ![self] = "w10"]
            /\ UNCHANGED << waiters, spurious, phead, pcount, rqueue, nthreads, 
                            finished, running, cb, res, trq, created, exited, 
                            delivered, rhdone, closed, shutdown, stack, cv, mx, 
                            j, thr, isnew, myrq, t, r >>

w10(self) == /\ pc[self] = "w10"
             /\ hb' = Acc(hb, self, {}, {<<"running",self>>})
             /\ running' = [running EXCEPT ![self] = FALSE]
             /\ IF waiters[(<<"thr",self>>)] # {}
                   THEN /\ \E wk \in waiters[(<<"thr",self>>)]:
                             waiters' = [waiters EXCEPT ![(<<"thr",self>>)] = waiters[(<<"thr",self>>)] \ {wk}]
                   ELSE /\ TRUE
                        /\ UNCHANGED waiters
             /\ pc' = [pc EXCEPT ![self] = "w11"]
             /\ UNCHANGED << owner, spurious, phead, pcount, rqueue, nthreads, 
                             finished, cb, res, trq, created, exited, 
                             delivered, rhdone, closed, shutdown, stack, cv, 
                             mx, j, thr, isnew, myrq, t, r >>

w11(self) == /\ pc[self] = "w11"
             /\ owner' = [owner EXCEPT ![(<<"thr",self>>)] = 0]
             /\ hb' = OnUnlock(hb, self, (<<"thr",self>>))
             /\ pc' = [pc EXCEPT ![self] = "w1"]
             /\ UNCHANGED << waiters, spurious, phead, pcount, rqueue, 
                             nthreads, finished, running, cb, res, trq, 
                             created, exited, delivered, rhdone, closed, 
                             shutdown, stack, cv, mx, j, thr, isnew, myrq, t, 
                             r >>

wend(self) == /\ pc[self] = "wend"
              /\ TRUE
              /\ pc' = [pc EXCEPT ![self] = "Done"]
              /\ UNCHANGED << owner, waiters, spurious, phead, pcount, rqueue, 
                              nthreads, finished, running, cb, res, trq, 
                              created, exited, delivered, hb, rhdone, closed, 
                              shutdown, stack, cv, mx, j, thr, isnew, myrq, t, 
                              r >>

worker(self) == w0(self) \/ w1(self) \/ w2(self) \/ w2b(self) \/ w2c(self)
                   \/ w3(self) \/ w4(self) \/ w5(self) \/ w6(self)
                   \/ w7(self) \/ w8(self) \/ w9(self) \/ w10(self)
                   \/ w11(self) \/ wend(self)

r1(self) == /\ pc[self] = "r1"
            /\ owner[(<<"rq",Cl(self)>>)] = 0
            /\ owner' = [owner EXCEPT ![(<<"rq",Cl(self)>>)] = self]
            /\ hb' = OnLock(hb, self, (<<"rq",Cl(self)>>))
            /\ pc' = [pc EXCEPT ![self] = "r2"]
            /\ UNCHANGED << waiters, spurious, phead, pcount, rqueue, nthreads, 
                            finished, running, cb, res, trq, created, exited, 
                            delivered, rhdone, closed, shutdown, stack, cv, mx, 
                            j, thr, isnew, myrq, t, r >>

r2(self) == /\ pc[self] = "r2"
            /\ IF rqueue[Cl(self)] = <<>> /\ ~(finished[Cl(self)] /\ nthreads[Cl(self)] = 0)
                  THEN /\ /\ cv' = [cv EXCEPT ![self] = <<"rq",Cl(self)>>]
                          /\ mx' = [mx EXCEPT ![self] = <<"rq",Cl(self)>>]
                          /\ stack' = [stack EXCEPT ![self] = << [ procedure |->  "wait",
                                                                   pc        |->  "r2",
                                                                   cv        |->  cv[self],
                                                                   mx        |->  mx[self] ] >>
                                                               \o stack[self]]
                       /\ pc' = [pc EXCEPT ![self] = "cw1"]
                  ELSE /\ pc' = [pc EXCEPT ![self] = "r3"]
                       /\ UNCHANGED << stack, cv, mx >>
            /\ UNCHANGED << owner, waiters, spurious, phead, pcount, rqueue, 
                            nthreads, finished, running, cb, res, trq, created, 
                            exited, delivered, hb, rhdone, closed, shutdown, j, 
                            thr, isnew, myrq, t, r >>

r3(self) == /\ pc[self] = "r3"
            /\ IF rqueue[Cl(self)] # <<>>
                  THEN /\ hb' = Acc(hb, self, {<<"rqlist",Cl(self)>>, <<"finished",Cl(self)>>, <<"nthreads",Cl(self)>>, <<"next",Head(rqueue[Cl(self)])>>}, {<<"rqlist",Cl(self)>>, <<"nthreads",Cl(self)>>, <<"next",Head(rqueue[Cl(self)])>>})
                       /\ t' = [t EXCEPT ![self] = Head(rqueue[Cl(self)])]
                       /\ rqueue' = [rqueue EXCEPT ![Cl(self)] = Tail(rqueue[Cl(self)])]
                       /\ nthreads' = [nthreads EXCEPT ![Cl(self)] = nthreads[Cl(self)] - 1]
                  ELSE /\ hb' = Acc(hb, self, {<<"rqlist",Cl(self)>>, <<"finished",Cl(self)>>, <<"nthreads",Cl(self)>>}, {})
                       /\ t' = [t EXCEPT ![self] = None]
                       /\ UNCHANGED << rqueue, nthreads >>
            /\ pc' = [pc EXCEPT ![self] = "r4"]
            /\ UNCHANGED << owner, waiters, spurious, phead, pcount, finished, 
                            running, cb, res, trq, created, exited, delivered, 
                            rhdone, closed, shutdown, stack, cv, mx, j, thr, 
                            isnew, myrq, r >>

r4(self) == /\ pc[self] = "r4"
            /\ owner' = [owner EXCEPT ![(<<"rq",Cl(self)>>)] = 0]
            /\ hb' = OnUnlock(hb, self, (<<"rq",Cl(self)>>))
            /\ pc' = [pc EXCEPT ![self] = "r5"]
            /\ UNCHANGED << waiters, spurious, phead, pcount, rqueue, nthreads, 
                            finished, running, cb, res, trq, created, exited, 
                            delivered, rhdone, closed, shutdown, stack, cv, mx, 
                            j, thr, isnew, myrq, t, r >>

r5(self) == /\ pc[self] = "r5"
            /\ IF t[self] = None
                  THEN /\ rhdone' = [rhdone EXCEPT ![Cl(self)] = TRUE]
                       /\ pc' = [pc EXCEPT ![self] = "rend"]
                  ELSE /\ pc' = [pc EXCEPT ![self] = "r6"]
                       /\ UNCHANGED rhdone
            /\ UNCHANGED << owner, waiters, spurious, phead, pcount, rqueue, 
                            nthreads, finished, running, cb, res, trq, created, 
                            exited, delivered, hb, closed, shutdown, stack, cv, 
                            mx, j, thr, isnew, myrq, t, r >>

r6(self) == /\ pc[self] = "r6"
            /\ owner[(<<"thr",t[self]>>)] = 0
            /\ owner' = [owner EXCEPT ![(<<"thr",t[self]>>)] = self]
            /\ hb' = OnLock(hb, self, (<<"thr",t[self]>>))
            /\ pc' = [pc EXCEPT ![self] = "r7"]
            /\ UNCHANGED << waiters, spurious, phead, pcount, rqueue, nthreads, 
                            finished, running, cb, res, trq, created, exited, 
                            delivered, rhdone, closed, shutdown, stack, cv, mx, 
                            j, thr, isnew, myrq, t, r >>

r7(self) == /\ pc[self] = "r7"
            /\ IF running[t[self]]
                  THEN /\ /\ cv' = [cv EXCEPT ![self] = <<"thr",t[self]>>]
                          /\ mx' = [mx EXCEPT ![self] = <<"thr",t[self]>>]
                          /\ stack' = [stack EXCEPT ![self] = << [ procedure |->  "wait",
                                                                   pc        |->  "r7",
                                                                   cv        |->  cv[self],
                                                                   mx        |->  mx[self] ] >>
                                                               \o stack[self]]
                       /\ pc' = [pc EXCEPT ![self] = "cw1"]
                  ELSE /\ pc' = [pc EXCEPT ![self] = "r8"]
                       /\ UNCHANGED << stack, cv, mx >>
            /\ UNCHANGED << owner, waiters, spurious, phead, pcount, rqueue, 
                            nthreads, finished, running, cb, res, trq, created, 
                            exited, delivered, hb, rhdone, closed, shutdown, j, 
                            thr, isnew, myrq, t, r >>

r8(self) == /\ pc[self] = "r8"
            /\ hb' = Acc(hb, self, {<<"running",t[self]>>, <<"res",t[self]>>}, {<<"res",t[self]>>})
            /\ r' = [r EXCEPT ![self] = res[t[self]]]
            /\ res' = [res EXCEPT ![t[self]] = None]
            /\ pc' = [pc EXCEPT ![self] = "r9"]
            /\ UNCHANGED << owner, waiters, spurious, phead, pcount, rqueue, 
                            nthreads, finished, running, cb, trq, created, 
                            exited, delivered, rhdone, closed, shutdown, stack, 
                            cv, mx, j, thr, isnew, myrq, t >>

r9(self) == /\ pc[self] = "r9"
            /\ owner' = [owner EXCEPT ![(<<"thr",t[self]>>)] = 0]
            /\ hb' = OnUnlock(hb, self, (<<"thr",t[self]>>))
            /\ pc' = [pc EXCEPT ![self] = "r10"]
            /\ UNCHANGED << waiters, spurious, phead, pcount, rqueue, nthreads, 
                            finished, running, cb, res, trq, created, exited, 
                            delivered, rhdone, closed, shutdown, stack, cv, mx, 
                            j, thr, isnew, myrq, t, r >>

r10(self) == /\ pc[self] = "r10"
             /\ owner[(<<"pool",0>>)] = 0
             /\ owner' = [owner EXCEPT ![(<<"pool",0>>)] = self]
             /\ hb' = OnLock(hb, self, (<<"pool",0>>))
             /\ pc' = [pc EXCEPT ![self] = "r11"]
             /\ UNCHANGED << waiters, spurious, phead, pcount, rqueue, 
                             nthreads, finished, running, cb, res, trq, 
                             created, exited, delivered, rhdone, closed, 
                             shutdown, stack, cv, mx, j, thr, isnew, myrq, t, 
                             r >>

r11(self) == /\ pc[self] = "r11"
             /\ hb' = Acc(hb, self, {<<"phead",0>>}, {<<"phead",0>>, <<"next",t[self]>>})
             /\ phead' = <<t[self]>> \o phead
             /\ IF waiters[(<<"pool",0>>)] # {}
                   THEN /\ \E wk \in waiters[(<<"pool",0>>)]:
                             waiters' = [waiters EXCEPT ![(<<"pool",0>>)] = waiters[(<<"pool",0>>)] \ {wk}]
                   ELSE /\ TRUE
                        /\ UNCHANGED waiters
             /\ pc' = [pc EXCEPT ![self] = "r12"]
             /\ UNCHANGED << owner, spurious, pcount, rqueue, nthreads, 
                             finished, running, cb, res, trq, created, exited, 
                             delivered, rhdone, closed, shutdown, stack, cv, 
                             mx, j, thr, isnew, myrq, t, r >>

r12(self) == /\ pc[self] = "r12"
             /\ owner' = [owner EXCEPT ![(<<"pool",0>>)] = 0]
             /\ hb' = OnUnlock(hb, self, (<<"pool",0>>))
             /\ pc' = [pc EXCEPT ![self] = "r13"]
             /\ UNCHANGED << waiters, spurious, phead, pcount, rqueue, 
                             nthreads, finished, running, cb, res, trq, 
                             created, exited, delivered, rhdone, closed, 
                             shutdown, stack, cv, mx, j, thr, isnew, myrq, t, 
                             r >>

r13(self) == /\ pc[self] = "r13"
             /\ hb' = Acc(hb, self, {<<"cbdata",Cl(self)>>}, {<<"cbdata",Cl(self)>>})
             /\ delivered' = [delivered EXCEPT ![Cl(self)] = Append(delivered[Cl(self)], r[self])]
             /\ pc' = [pc EXCEPT ![self] = "r1"]
             /\ UNCHANGED << owner, waiters, spurious, phead, pcount, rqueue, 
                             nthreads, finished, running, cb, res, trq, 
                             created, exited, rhdone, closed, shutdown, stack, 
                             cv, mx, j, thr, isnew, myrq, t, r >>

rend(self) == /\ pc[self] = "rend"
              /\ TRUE
              /\ pc' = [pc EXCEPT ![self] = "Done"]
              /\ UNCHANGED << owner, waiters, spurious, phead, pcount, rqueue, 
                              nthreads, finished, running, cb, res, trq, 
                              created, exited, delivered, hb, rhdone, closed, 
                              shutdown, stack, cv, mx, j, thr, isnew, myrq, t, 
                              r >>

rh(self) == r1(self) \/ r2(self) \/ r3(self) \/ r4(self) \/ r5(self)
               \/ r6(self) \/ r7(self) \/ r8(self) \/ r9(self) \/ r10(self)
               \/ r11(self) \/ r12(self) \/ r13(self) \/ rend(self)

s0 == /\ pc[SpurId] = "s0"
      /\ IF spurious < MaxSpurious
            THEN /\ \E o \in {x \in Objs : waiters[x] # {}}:
                      \E wk \in waiters[o]:
                        /\ waiters' = [waiters EXCEPT ![o] = waiters[o] \ {wk}]
                        /\ spurious' = spurious + 1
                 /\ pc' = [pc EXCEPT ![SpurId] = "s0"]
            ELSE /\ pc' = [pc EXCEPT ![SpurId] = "Done"]
                 /\ UNCHANGED << waiters, spurious >>
      /\ UNCHANGED << owner, phead, pcount, rqueue, nthreads, finished, 
                      running, cb, res, trq, created, exited, delivered, hb, 
                      rhdone, closed, shutdown, stack, cv, mx, j, thr, isnew, 
                      myrq, t, r >>

spur == s0

(* Allow infinite stuttering to prevent deadlock on termination. *)
Terminating == /\ \A self \in ProcSet: pc[self] = "Done"
               /\ UNCHANGED vars

Next == spur
           \/ (\E self \in ProcSet: wait(self))
           \/ (\E self \in Callers: caller(self))
           \/ (\E self \in Workers: worker(self))
           \/ (\E self \in Handlers: rh(self))
           \/ Terminating

Spec == Init /\ [][Next]_vars

Termination == <>(\A self \in ProcSet: pc[self] = "Done")

\* END TRANSLATION
Range(f) == {f[i] : i \in DOMAIN f}
AllDone == \A p \in Callers \cup Handlers \cup Workers : pc[p] = "Done"
ExactlyOnce == \A c \in Clients : closed[c] => (Len(delivered[c]) = Jobs /\ Range(delivered[c]) = {JobId(c, jj) : jj \in 1..Jobs})
NoDup == \A c \in Clients : Cardinality(Range(delivered[c])) = Len(delivered[c]) /\ Range(delivered[c]) \subseteq {JobId(c, jj) : jj \in 1..Jobs}
InOrder == \A c \in Clients : OrdOf(c) => \A i \in 1..Len(delivered[c]) : delivered[c][i] = JobId(c, i)
Bounded == pcount <= MaxThreads /\ Cardinality(created) <= MaxThreads
NoRace == hb.race = <<>>
NoDeadlock == AllDone \/ ENABLED (\E p \in Callers \cup Handlers \cup Workers : caller(p) \/ worker(p) \/ rh(p) \/ wait(p))
Live == <>AllDone
FairSpec == Spec /\ \A p \in Callers \cup Handlers \cup Workers : WF_vars((pc[p] # "Done") /\ ((IF p \in Callers THEN caller(p) ELSE IF p \in Handlers THEN rh(p) ELSE worker(p)) \/ wait(p)))
====
