---- MODULE Trace_Mtbl_TTrace_1790822476 ----
EXTENDS Sequences, TLCExt, Toolbox, Naturals, TLC, Trace_Mtbl

_expression ==
    LET Trace_Mtbl_TEExpression == INSTANCE Trace_Mtbl_TEExpression
    IN Trace_Mtbl_TEExpression!expression
----

_trace ==
    LET Trace_Mtbl_TETrace == INSTANCE Trace_Mtbl_TETrace
    IN Trace_Mtbl_TETrace!trace
----

_inv ==
    ~(
        TLCGet("level") = Len(_TETrace)
        /\
        disk = (("/tmp/sm2/a.mtbl" :> [kind |-> "table", t |-> <<[k |-> <<>>, v |-> <<107, 202, 233, 25, 27>>], [k |-> <<97>>, v |-> <<-1, 300, 46847, 3934, 36175, 18279>>], [k |-> <<97, 98>>, v |-> <<0, 1, 0, 2>>]>>]))
        /\
        rd = ((0 :> [path |-> "/tmp/sm2/a.mtbl", t |-> <<[k |-> <<>>, v |-> <<107, 202, 233, 25, 27>>], [k |-> <<97>>, v |-> <<-1, 300, 46847, 3934, 36175, 18279>>], [k |-> <<97, 98>>, v |-> <<0, 1, 0, 2>>]>>]))
        /\
        mg = (<<>>)
        /\
        it = ((0 :> [src |-> [t |-> "r", n |-> 0], null |-> FALSE, ft |-> -1, broken |-> FALSE, c |-> [b |-> [kind |-> "iter", k0 |-> <<>>, k1 |-> <<>>], t |-> <<[k |-> <<>>, v |-> <<107, 202, 233, 25, 27>>], [k |-> <<97>>, v |-> <<-1, 300, 46847, 3934, 36175, 18279>>], [k |-> <<97, 98>>, v |-> <<0, 1, 0, 2>>]>>, ord |-> TRUE, pos |-> 1, done |-> FALSE, em |-> {}]]))
        /\
        wr = (<<>>)
        /\
        l = (11)
        /\
        pl = (<<>>)
        /\
        so = (<<>>)
        /\
        fs = ([shared |-> <<>>, h |-> <<>>])
        /\
        us = (<<>>)
    )
----

_init ==
    /\ l = _TETrace[1].l
    /\ fs = _TETrace[1].fs
    /\ it = _TETrace[1].it
    /\ disk = _TETrace[1].disk
    /\ mg = _TETrace[1].mg
    /\ pl = _TETrace[1].pl
    /\ rd = _TETrace[1].rd
    /\ so = _TETrace[1].so
    /\ us = _TETrace[1].us
    /\ wr = _TETrace[1].wr
----

_next ==
    /\ \E i,j \in DOMAIN _TETrace:
        /\ \/ /\ j = i + 1
              /\ i = TLCGet("level")
        /\ l  = _TETrace[i].l
        /\ l' = _TETrace[j].l
        /\ fs  = _TETrace[i].fs
        /\ fs' = _TETrace[j].fs
        /\ it  = _TETrace[i].it
        /\ it' = _TETrace[j].it
        /\ disk  = _TETrace[i].disk
        /\ disk' = _TETrace[j].disk
        /\ mg  = _TETrace[i].mg
        /\ mg' = _TETrace[j].mg
        /\ pl  = _TETrace[i].pl
        /\ pl' = _TETrace[j].pl
        /\ rd  = _TETrace[i].rd
        /\ rd' = _TETrace[j].rd
        /\ so  = _TETrace[i].so
        /\ so' = _TETrace[j].so
        /\ us  = _TETrace[i].us
        /\ us' = _TETrace[j].us
        /\ wr  = _TETrace[i].wr
        /\ wr' = _TETrace[j].wr

\* Uncomment the ASSUME below to write the states of the error trace
\* to the given file in Json format. Note that you can pass any tuple
\* to `JsonSerialize`. For example, a sub-sequence of _TETrace.
    \* ASSUME
    \*     LET J == INSTANCE Json
    \*         IN J!JsonSerialize("Trace_Mtbl_TTrace_1790822476.json", _TETrace)

=============================================================================

 Note that you can extract this module `Trace_Mtbl_TEExpression`
  to a dedicated file to reuse `expression` (the module in the 
  dedicated `Trace_Mtbl_TEExpression.tla` file takes precedence 
  over the module `Trace_Mtbl_TEExpression` below).

---- MODULE Trace_Mtbl_TEExpression ----
EXTENDS Sequences, TLCExt, Toolbox, Naturals, TLC, Trace_Mtbl

expression == 
    [
        \* To hide variables of the `Trace_Mtbl` spec from the error trace,
        \* remove the variables below.  The trace will be written in the order
        \* of the fields of this record.
        l |-> l
        ,fs |-> fs
        ,it |-> it
        ,disk |-> disk
        ,mg |-> mg
        ,pl |-> pl
        ,rd |-> rd
        ,so |-> so
        ,us |-> us
        ,wr |-> wr
        
        \* Put additional constant-, state-, and action-level expressions here:
        \* ,_stateNumber |-> _TEPosition
        \* ,_lUnchanged |-> l = l'
        
        \* Format the `l` variable as Json value.
        \* ,_lJson |->
        \*     LET J == INSTANCE Json
        \*     IN J!ToJson(l)
        
        \* Lastly, you may build expressions over arbitrary sets of states by
        \* leveraging the _TETrace operator.  For example, this is how to
        \* count the number of times a spec variable changed up to the current
        \* state in the trace.
        \* ,_lModCount |->
        \*     LET F[s \in DOMAIN _TETrace] ==
        \*         IF s = 1 THEN 0
        \*         ELSE IF _TETrace[s].l # _TETrace[s-1].l
        \*             THEN 1 + F[s-1] ELSE F[s-1]
        \*     IN F[_TEPosition - 1]
    ]

=============================================================================



Parsing and semantic processing can take forever if the trace below is long.
 In this case, it is advised to uncomment the module below to deserialize the
 trace from a generated binary file.

\*
\*---- MODULE Trace_Mtbl_TETrace ----
\*EXTENDS IOUtils, TLC, Trace_Mtbl
\*
\*trace == IODeserialize("Trace_Mtbl_TTrace_1790822476.bin", TRUE)
\*
\*=============================================================================
\*

---- MODULE Trace_Mtbl_TETrace ----
EXTENDS TLC, Trace_Mtbl

trace == 
    <<
    ([disk |-> <<>>,rd |-> <<>>,mg |-> <<>>,it |-> <<>>,wr |-> <<>>,l |-> 1,pl |-> <<>>,so |-> <<>>,fs |-> [shared |-> <<>>, h |-> <<>>],us |-> <<>>]),
    ([disk |-> <<>>,rd |-> <<>>,mg |-> <<>>,it |-> <<>>,wr |-> <<>>,l |-> 2,pl |-> <<>>,so |-> <<>>,fs |-> [shared |-> <<>>, h |-> <<>>],us |-> <<>>]),
    ([disk |-> ("/tmp/sm2/a.mtbl" :> [kind |-> "writing"]),rd |-> <<>>,mg |-> <<>>,it |-> <<>>,wr |-> (0 :> [path |-> "/tmp/sm2/a.mtbl", pool |-> -1, t |-> <<>>]),l |-> 3,pl |-> <<>>,so |-> <<>>,fs |-> [shared |-> <<>>, h |-> <<>>],us |-> <<>>]),
    ([disk |-> ("/tmp/sm2/a.mtbl" :> [kind |-> "writing"]),rd |-> <<>>,mg |-> <<>>,it |-> <<>>,wr |-> (0 :> [path |-> "/tmp/sm2/a.mtbl", pool |-> -1, t |-> <<[k |-> <<>>, v |-> <<107, 202, 233, 25, 27>>]>>]),l |-> 4,pl |-> <<>>,so |-> <<>>,fs |-> [shared |-> <<>>, h |-> <<>>],us |-> <<>>]),
    ([disk |-> ("/tmp/sm2/a.mtbl" :> [kind |-> "writing"]),rd |-> <<>>,mg |-> <<>>,it |-> <<>>,wr |-> (0 :> [path |-> "/tmp/sm2/a.mtbl", pool |-> -1, t |-> <<[k |-> <<>>, v |-> <<107, 202, 233, 25, 27>>], [k |-> <<97>>, v |-> <<-1, 300, 46847, 3934, 36175, 18279>>]>>]),l |-> 5,pl |-> <<>>,so |-> <<>>,fs |-> [shared |-> <<>>, h |-> <<>>],us |-> <<>>]),
    ([disk |-> ("/tmp/sm2/a.mtbl" :> [kind |-> "writing"]),rd |-> <<>>,mg |-> <<>>,it |-> <<>>,wr |-> (0 :> [path |-> "/tmp/sm2/a.mtbl", pool |-> -1, t |-> <<[k |-> <<>>, v |-> <<107, 202, 233, 25, 27>>], [k |-> <<97>>, v |-> <<-1, 300, 46847, 3934, 36175, 18279>>], [k |-> <<97, 98>>, v |-> <<0, 1, 0, 2>>]>>]),l |-> 6,pl |-> <<>>,so |-> <<>>,fs |-> [shared |-> <<>>, h |-> <<>>],us |-> <<>>]),
    ([disk |-> ("/tmp/sm2/a.mtbl" :> [kind |-> "writing"]),rd |-> <<>>,mg |-> <<>>,it |-> <<>>,wr |-> (0 :> [path |-> "/tmp/sm2/a.mtbl", pool |-> -1, t |-> <<[k |-> <<>>, v |-> <<107, 202, 233, 25, 27>>], [k |-> <<97>>, v |-> <<-1, 300, 46847, 3934, 36175, 18279>>], [k |-> <<97, 98>>, v |-> <<0, 1, 0, 2>>]>>]),l |-> 7,pl |-> <<>>,so |-> <<>>,fs |-> [shared |-> <<>>, h |-> <<>>],us |-> <<>>]),
    ([disk |-> ("/tmp/sm2/a.mtbl" :> [kind |-> "table", t |-> <<[k |-> <<>>, v |-> <<107, 202, 233, 25, 27>>], [k |-> <<97>>, v |-> <<-1, 300, 46847, 3934, 36175, 18279>>], [k |-> <<97, 98>>, v |-> <<0, 1, 0, 2>>]>>]),rd |-> <<>>,mg |-> <<>>,it |-> <<>>,wr |-> <<>>,l |-> 8,pl |-> <<>>,so |-> <<>>,fs |-> [shared |-> <<>>, h |-> <<>>],us |-> <<>>]),
    ([disk |-> ("/tmp/sm2/a.mtbl" :> [kind |-> "table", t |-> <<[k |-> <<>>, v |-> <<107, 202, 233, 25, 27>>], [k |-> <<97>>, v |-> <<-1, 300, 46847, 3934, 36175, 18279>>], [k |-> <<97, 98>>, v |-> <<0, 1, 0, 2>>]>>]),rd |-> (0 :> [path |-> "/tmp/sm2/a.mtbl", t |-> <<[k |-> <<>>, v |-> <<107, 202, 233, 25, 27>>], [k |-> <<97>>, v |-> <<-1, 300, 46847, 3934, 36175, 18279>>], [k |-> <<97, 98>>, v |-> <<0, 1, 0, 2>>]>>]),mg |-> <<>>,it |-> <<>>,wr |-> <<>>,l |-> 9,pl |-> <<>>,so |-> <<>>,fs |-> [shared |-> <<>>, h |-> <<>>],us |-> <<>>]),
    ([disk |-> ("/tmp/sm2/a.mtbl" :> [kind |-> "table", t |-> <<[k |-> <<>>, v |-> <<107, 202, 233, 25, 27>>], [k |-> <<97>>, v |-> <<-1, 300, 46847, 3934, 36175, 18279>>], [k |-> <<97, 98>>, v |-> <<0, 1, 0, 2>>]>>]),rd |-> (0 :> [path |-> "/tmp/sm2/a.mtbl", t |-> <<[k |-> <<>>, v |-> <<107, 202, 233, 25, 27>>], [k |-> <<97>>, v |-> <<-1, 300, 46847, 3934, 36175, 18279>>], [k |-> <<97, 98>>, v |-> <<0, 1, 0, 2>>]>>]),mg |-> <<>>,it |-> <<>>,wr |-> <<>>,l |-> 10,pl |-> <<>>,so |-> <<>>,fs |-> [shared |-> <<>>, h |-> <<>>],us |-> <<>>]),
    ([disk |-> ("/tmp/sm2/a.mtbl" :> [kind |-> "table", t |-> <<[k |-> <<>>, v |-> <<107, 202, 233, 25, 27>>], [k |-> <<97>>, v |-> <<-1, 300, 46847, 3934, 36175, 18279>>], [k |-> <<97, 98>>, v |-> <<0, 1, 0, 2>>]>>]),rd |-> (0 :> [path |-> "/tmp/sm2/a.mtbl", t |-> <<[k |-> <<>>, v |-> <<107, 202, 233, 25, 27>>], [k |-> <<97>>, v |-> <<-1, 300, 46847, 3934, 36175, 18279>>], [k |-> <<97, 98>>, v |-> <<0, 1, 0, 2>>]>>]),mg |-> <<>>,it |-> (0 :> [src |-> [t |-> "r", n |-> 0], null |-> FALSE, ft |-> -1, broken |-> FALSE, c |-> [b |-> [kind |-> "iter", k0 |-> <<>>, k1 |-> <<>>], t |-> <<[k |-> <<>>, v |-> <<107, 202, 233, 25, 27>>], [k |-> <<97>>, v |-> <<-1, 300, 46847, 3934, 36175, 18279>>], [k |-> <<97, 98>>, v |-> <<0, 1, 0, 2>>]>>, ord |-> TRUE, pos |-> 1, done |-> FALSE, em |-> {}]]),wr |-> <<>>,l |-> 11,pl |-> <<>>,so |-> <<>>,fs |-> [shared |-> <<>>, h |-> <<>>],us |-> <<>>])
    >>
----


=============================================================================

---- CONFIG Trace_Mtbl_TTrace_1790822476 ----
CONSTANTS
    NEVER = 2147483647

INVARIANT
    _inv

CHECK_DEADLOCK
    \* CHECK_DEADLOCK off because of PROPERTY or INVARIANT above.
    FALSE

INIT
    _init

NEXT
    _next

CONSTANT
    _TETrace <- _trace

ALIAS
    _expression
=============================================================================
\* Generated on Thu Oct 01 02:41:18 UTC 2026