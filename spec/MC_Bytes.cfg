INIT Init
NEXT Next
CONSTANTS
 Alphabet = {0, 1, 97, 98, 254, 255}
 MaxLen = 3
INVARIANT Law
INVARIANT Antisym
INVARIANT PrefixFirst
CHECK_DEADLOCK FALSE
