SPECIFICATION Spec
CONSTANTS
 KeySeq <- mcKeys3
 Versions = {1, 2}
 Comps = {0}
 PrefixLens = {0}
 FixF1 = TRUE
INVARIANT Readable
CHECK_DEADLOCK FALSE
