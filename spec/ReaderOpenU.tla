---- MODULE ReaderOpenU ----
(* C19, unbounded: the byte ranges mtbl_reader_init_fd reads, at the real sizes (64-bit wrap-around arithmetic, 512-byte
   metadata block, minimum block lengths 16 / 13, 4-byte checksum, varint length of 1..10 bytes or over-long), for EVERY
   file size below 2^63 and EVERY value of the fields an adversary controls. One state per combination; Apalache proves
   SafeInv (every read inside the file) and OutcomeInv symbolically (--length=0).
   Fix = 2: the tree as repaired (F9, F9b). Fix = 1: the first repair of F9 (subtraction without checking that the header
   fits). Fix = 0: the pinned tree (no bound on the index length). Fix < 2 must be refuted. *)
EXTENDS Integers
CONSTANT
    \* @type: Int;
    Fix
VARIABLES
    \* @type: Int;
    size,
    \* @type: Bool;
    magicOk,
    \* @type: Int;
    version,
    \* @type: Int;
    ioff,
    \* @type: Int;
    rawlen,
    \* @type: Int;
    ll,
    \* @type: Bool;
    verify
CInit2 == Fix = 2
CInit1 == Fix = 1
CInit0 == Fix = 0
W64 == 65536 * 65536 * 65536 * 65536
W32 == 65536 * 65536
W63 == 32768 * 65536 * 65536 * 65536
TR == 512
MinBlk == IF version = 1 THEN 16 ELSE 13
Wrap(x) == x % W64
\* the fields: file size (off_t), trailer magic, format version, index block offset (64 bits in the trailer), the decoded
\* index length (v1: fixed 32 bits; v2: varint, any 64-bit value), the number of bytes the varint decoder consumed
\* (1..10, or 0 = over-long: it then read 10 bytes and reports length 0 and value 0)
Init == /\ size \in Int /\ size >= 0 /\ size < W63
        /\ magicOk \in BOOLEAN /\ version \in {1, 2} /\ verify \in BOOLEAN
        /\ ioff \in Int /\ ioff >= 0 /\ ioff < W64
        /\ rawlen \in Int /\ rawlen >= 0 /\ rawlen < W64
        /\ ll \in 0..10
Next == UNCHANGED <<size, magicOk, version, ioff, rawlen, ll, verify>>
LenLen == IF version = 1 THEN 4 ELSE ll
Len == IF version = 1 THEN rawlen % W32 ELSE IF ll = 0 THEN 0 ELSE rawlen
End == Wrap(ioff + TR + MinBlk)
PassEnd == ~(End > size \/ End < ioff)
Room == size - TR - ioff                          \* no wrap once PassEnd holds
PassRoom == CASE Fix = 2 -> ~(LenLen + 4 > Room \/ Len > Room - LenLen - 4)
              [] Fix = 1 -> ~(Len > Wrap(Room - LenLen - 4))
              [] OTHER -> TRUE
Data == ioff + LenLen + 4
In(lo, hi) == lo >= 0 /\ lo <= hi /\ hi <= size
\* the reads, in program order; each is guarded by the conditions under which the program reaches it
ReadsTrailer == size >= TR => In(size - TR, size)
Reached2 == size >= TR /\ magicOk /\ PassEnd
ReadsLenField == Reached2 => In(ioff, ioff + (IF version = 1 THEN 4 ELSE IF ll = 0 THEN 10 ELSE ll))
Reached3 == Reached2 /\ PassRoom
ReadsCrc == (Reached3 /\ verify) => (In(ioff + LenLen, ioff + LenLen + 4) /\ In(Data, Data + Len))
ReadsRestartCount == (Reached3 /\ Len >= 8) => In(Data + Len - 4, Data + Len)
SafeInv == ReadsTrailer /\ ReadsLenField /\ ReadsCrc /\ ReadsRestartCount
\* a length of 4..7 ends in block.c's assertion (an allowed outcome), everything else in NULL or a reader
Outcome == IF size < TR \/ ~magicOk \/ ~PassEnd \/ ~PassRoom THEN "NULL" ELSE IF Len >= 4 /\ Len < 8 THEN "ASSERT" ELSE "READER"
OutcomeInv == Outcome \in {"NULL", "READER", "ASSERT"}
====
