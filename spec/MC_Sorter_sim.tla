---- MODULE MC_Sorter_sim ----
(* Behaviours of Sorter.tla for replay on the real sorter: one HIST line per behaviour. *)
EXTENDS Sorter
mcKeyLens == <<0, 1, 2, 5>>
VARIABLE hist
SimInit == Init /\ hist = <<>>
SimNext == \/ \E ki \in 1..Len(KeyLens), vl \in VLens : Add(ki, vl) /\ hist' = Append(hist, <<ki, vl>>)
           \/ Iter /\ hist' = Append(hist, <<0, 0>>)
           \/ Land /\ UNCHANGED hist
SimSpec == SimInit /\ [][SimNext]_<<svars, hist>>
DumpHist == (Len(adds) = MaxAdds \/ (iterating /\ Len(hist) >= 4)) => PrintT(<<"HIST", maxmem, hist>>)
====
