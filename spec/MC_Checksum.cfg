SPECIFICATION Spec
CONSTANT NB = 4
INVARIANT NeverReturnsDamaged
INVARIANT ToolNeverOKWhenDamaged
INVARIANT IntactReadsAll
INVARIANT StopsWhenReached
CHECK_DEADLOCK FALSE
