SPECIFICATION FairSpec
CONSTANTS MaxThreads = 1 NC = 2 Jobs = 2 Ordered = TRUE MaxSpurious = 0 Mixed = FALSE defaultInitValue = defaultInitValue
INVARIANTS ExactlyOnce NoDup InOrder Bounded
PROPERTY Live
