SPECIFICATION Spec
CONSTANTS MaxThreads = 1 NC = 1 Jobs = 2 Ordered = FALSE MaxSpurious = 1 Mixed = FALSE defaultInitValue = defaultInitValue
INVARIANT NoRace
CHECK_DEADLOCK FALSE
