SPECIFICATION TSpec
CONSTANT NEVER = 2147483647
POSTCONDITION Accepted
CHECK_DEADLOCK FALSE
