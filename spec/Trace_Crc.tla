---- MODULE Trace_Crc ----
(* Trace validator for C17: the harness extends a buffer one byte at a time (Byte events) and after each byte logs the
   value returned by every implementation (dispatching mtbl_crc32c, table-driven, SSE4.2 when the CPU has it, and the
   harness's own bitwise reference) at every alignment 0..7 (Crc event, results as <<hi16, lo16>>). The specification
   runs the CRC-32C state machine of Crc32c.tla over the same bytes and every logged value must equal its output. The
   RFC 3720 test vectors are asserted on the specification itself. *)
EXTENDS Crc32c, TLC, Json, IOUtils
Tr == ndJsonDeserialize(IOEnv.TRACE)
VARIABLES l, c, n
tv == <<l, c, n>>
Ev == Tr[l]
Is(e) == l <= Len(Tr) /\ Ev.e = e /\ l' = l + 1
TInit == l = 1 /\ c = Start /\ n = 0
TStream == Is("Stream") /\ c' = Start /\ n' = 0
TByte == Is("Byte") /\ c' = Step(c, Ev.b) /\ n' = n + 1
TCrc == /\ Is("Crc") /\ Ev.len = n
        /\ \A i \in 1..Len(Ev.r) : <<Ev.r[i][1], Ev.r[i][2]>> = Out(c)
        /\ UNCHANGED <<c, n>>
TSpec == TInit /\ [][TStream \/ TByte \/ TCrc]_tv
Accepted == TLCGet("stats").diameter - 1 = Len(Tr)
\* RFC 3720 B.4 test vectors, evaluated on the specification (32 bytes each)
RECURSIVE Run(_,_,_)
Run(cc, f(_), k) == IF k = 32 THEN Out(cc) ELSE Run(Step(cc, f(k)), f, k + 1)
ASSUME Run(Start, LAMBDA k : 0, 0) = <<35473, 13994>>          \* 8A9136AA
ASSUME Run(Start, LAMBDA k : 255, 0) = <<25256, 43843>>        \* 62A8AB43
ASSUME Run(Start, LAMBDA k : k, 0) = <<18141, 31054>>          \* 46DD794E
ASSUME Run(Start, LAMBDA k : 31 - k, 0) = <<4415, 56156>>      \* 113FDB5C
====
