---- MODULE MC_Bytes ----
(* The separator law the writer's index relies on (C02 C09): for every pair of keys a < b,
   a <= Sep(a, b) < b and Sep(a, b) is no longer than a - so the index key of a block is at least the block's last key and
   below the next block's first key. Checked for every ordered pair of byte strings up to MaxLen over Alphabet (which
   contains 00 01, two middle values, FE FF: every branch of bytes_shortest_separator incl. the 16-bit increment with and
   without carry and its overflow guard). One initial state per pair; no transitions. *)
EXTENDS Bytes, FiniteSets, TLC
CONSTANTS Alphabet, MaxLen
Keys == UNION {[1..n -> Alphabet] : n \in 0..MaxLen}
VARIABLES a, b
Init == a \in Keys /\ b \in Keys
Next == UNCHANGED <<a, b>>
Law == SepLaw(a, b)
\* order sanity of Cmp itself
Antisym == Cmp(a, b) = -Cmp(b, a)
PrefixFirst == (a # b /\ HasPrefix(b, a)) => Lt(a, b)
====
