---- MODULE MC_Foreign_small ----
EXTENDS MC_Foreign
a == 97 b == 98
mcKeys3 == << <<>>, <<a, a>>, <<a, b, 0>>, <<b>> >>
mcKeys7 == << <<>>, <<0>>, <<a>>, <<a, a>>, <<a, a, 255>>, <<a, b>>, <<a, b, 0, 1>>, <<b, 255>>, <<255>>, <<255, 255>> >>
====
