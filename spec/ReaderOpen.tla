---- MODULE ReaderOpen ----
(* C19. mtbl_reader_init_fd as the list of byte ranges it reads, as a function of the fields an adversary controls.
   Arithmetic is modulo W (stands for 2^64) so that the overflow guard is exercised. FixF9 = FALSE is the pinned tree. *)
EXTENDS Integers, Sequences, FiniteSets, TLC
CONSTANTS W, Sizes, FixF9
TR == 12                                   \* stands for MTBL_METADATA_SIZE (512)
MinBlk(v) == IF v = 1 THEN 5 ELSE 4        \* stands for 16 / 13
Fields == [size : Sizes, magicOk : BOOLEAN, version : {1, 2}, ioff : 0..W-1, ilen : 0..W-1, ilenlen : {0, 1, 2, 3}, verify : BOOLEAN]
Wrap(x) == x % W
\* result: [outcome, reads]; a read is <<lo, hi>> meaning bytes lo..hi-1
Open(f) ==
  IF f.size < TR THEN [outcome |-> "NULL", reads |-> <<>>]
  ELSE LET r1 == << <<f.size - TR, f.size>> >> IN
  IF ~f.magicOk THEN [outcome |-> "NULL", reads |-> r1]
  ELSE LET end == Wrap(f.ioff + TR + MinBlk(f.version)) IN
  IF end > f.size \/ end < f.ioff THEN [outcome |-> "NULL", reads |-> r1]
  ELSE LET ll == IF f.version = 1 THEN 2 ELSE f.ilenlen            \* bytes occupied by the length (0 = over-long varint, decodes to 0)
           len == IF f.version = 2 /\ f.ilenlen = 0 THEN 0 ELSE f.ilen
           r2 == Append(r1, <<f.ioff, f.ioff + (IF f.version = 1 THEN 2 ELSE 3)>>)    \* decoding the length looks at up to 3 (10) bytes
           data == f.ioff + ll + 2                                   \* index_data (2 stands for the 4-byte checksum)
       IN IF FixF9 /\ len > f.size - TR - f.ioff - ll - 2 THEN [outcome |-> "NULL", reads |-> r2]
          ELSE LET r3 == IF f.verify THEN r2 \o << <<f.ioff + ll, f.ioff + ll + 2>>, <<data, data + len>> >> ELSE r2
                   \* block_init: size < 4 (here 2) -> empty; else num_restarts reads the last word and asserts size >= 8 (here 4)
                   r4 == IF len < 2 THEN r3 ELSE Append(r3, <<data + len - 2, data + len>>)
               IN [outcome |-> IF len >= 2 /\ len < 4 THEN "ASSERT" ELSE "READER", reads |-> r4]
InFile(f, rd) == rd[1] >= 0 /\ rd[2] <= f.size /\ rd[1] <= rd[2]
SafeFor(f) == LET o == Open(f) IN \A i \in 1..Len(o.reads) : InFile(f, o.reads[i])
\* one initial state per combination of the fields an adversary controls; no transitions
VARIABLES size, magicOk, version, ioff, ilen, ilenlen, verify
fvars == <<size, magicOk, version, ioff, ilen, ilenlen, verify>>
Init == /\ size \in Sizes /\ magicOk \in BOOLEAN /\ version \in {1, 2} /\ ioff \in 0..W-1 /\ ilen \in 0..W-1
        /\ ilenlen \in {0, 1, 2, 3} /\ verify \in BOOLEAN
Next == UNCHANGED fvars
Cur == [size |-> size, magicOk |-> magicOk, version |-> version, ioff |-> ioff, ilen |-> ilen, ilenlen |-> ilenlen, verify |-> verify]
\* every read mtbl_reader_init_fd performs lies inside the file
SafeInv == SafeFor(Cur)
OutcomeInv == Open(Cur).outcome \in {"NULL", "READER", "ASSERT"}
====
