"""Projection of real files and tool outputs to trace records (FileStruct, Dump, Info)."""
import os, re, subprocess
from . import core, refcodec as R


def vrec(b):
    """value bytes -> logged representation (same rule as the driver: hex up to 1024 bytes, else length + fnv64)"""
    if len(b) <= 1024:
        return list(b)
    h = "%016x" % fnv64(b)
    return [-1, len(b)] + [int(h[i:i + 4], 16) for i in range(0, 16, 4)]


def fnv64(b):
    h = 1469598103934665603
    for x in b:
        h ^= x
        h = (h * 1099511628211) & 0xFFFFFFFFFFFFFFFF
    return h


def xs_bytes(seed, n):
    x = (seed * 0x9E3779B97F4A7C15 + 0x2545F4914F6CDD1D) & 0xFFFFFFFFFFFFFFFF
    if x == 0:
        x = 1
    out = bytearray()
    for _ in range(n):
        x ^= (x << 13) & 0xFFFFFFFFFFFFFFFF
        x ^= x >> 7
        x ^= (x << 17) & 0xFFFFFFFFFFFFFFFF
        out.append((x >> 24) & 0xFF)
    return bytes(out)


BIG = 1 << 30


def file_struct(path, prefix_len=0, sparse=False):
    """FileStruct trace record for a file, from the independent decoder. TLC integers are 32-bit: when the table starts
    beyond 1 GiB every offset is reported relative to the start of the table (rel = prefix_len; the writer configuration
    logged for that file is shifted the same way by the caller), values that still do not fit are replaced by a
    sentinel that equals nothing legitimate."""
    rel = prefix_len if prefix_len >= BIG else 0

    def fit(x):
        y = x - rel
        return y if -2000000000 < y < 2000000000 else -1999999999
    try:
        s = R.decode(path)
    except (R.FormatError, Exception) as ex:
        return {"e": "FileStruct", "path": path, "S": {"undecodable": str(ex)[:200]}}
    if sparse or prefix_len >= BIG:
        with open(path, "rb") as f:
            pre_ok = True
            for pos in (0, prefix_len // 2, max(0, prefix_len - 4096)):
                f.seek(pos)
                chunk = f.read(min(4096, prefix_len - pos))
                pre_ok = pre_ok and chunk == bytes(len(chunk))
    else:
        with open(path, "rb") as f:
            pre_ok = f.read(prefix_len) == xs_bytes(77, prefix_len)

    def blk(b, index=False):
        ents = []
        for e in b["entries"]:
            d = {"off": e["off"], "shared": e["shared"], "ns": e["nonshared"], "vlen": e["vlen"], "k": list(e["key"])}
            if index:
                d["boff"] = fit(R.varint_dec(e["val"], 0, 10)[0])
            else:
                d["v"] = vrec(e["val"])
            ents.append(d)
        return {"off": fit(b["offset"]), "lenlen": b["len_prefix"], "stored": b["stored_len"], "crcok": b["stored_crc"] == b["calc_crc"],
                "clen": b["contents_len"], "restarts": b["restarts"], "entries": ents}
    tr = dict(s["meta"])
    tr["index_block_offset"] = fit(tr["index_block_offset"])
    tr["padzero"] = s["padding_zero"]
    tr["magic"] = "MTBL" if s["version"] == 2 else "v1"
    S = {"size": fit(s["size"]), "prefix_ok": pre_ok, "version": s["version"], "comp": s["meta"]["compression_algorithm"],
         "blocks": [blk(b) for b in s["blocks"]], "index": blk(s["index"], True), "trailer": tr}
    return {"e": "FileStruct", "path": path, "S": S}


_dump_re = re.compile(r"^([0-9a-f]{8}):(\S*) ([0-9a-f]{8}):(\S*)$")


def run_dump(tools, path, kp=b"", vp=b"", mink=None, minv=None):
    """mtbl_dump -x with options -> Dump trace record"""
    cmd = [tools["dump"], "-x"]
    if kp:
        cmd += ["-k", kp.hex()]
    if vp:
        cmd += ["-v", vp.hex()]
    # the lengths are decimal numbers: written with leading zeros in every other run (010 is ten)
    pad = "%03d" if (len(path) + (mink or 0) + (minv or 0)) % 2 else "%d"
    if mink is not None:
        cmd += ["-K", pad % mink]
    if minv is not None:
        cmd += ["-V", pad % minv]
    p = subprocess.run(cmd + [path], stdout=subprocess.PIPE, stderr=subprocess.PIPE, text=True, env=dict(os.environ, LC_ALL="C"), timeout=120)
    ents = []
    raw = []
    ok = p.returncode == 0
    for ln in p.stdout.splitlines():
        m = _dump_re.match(ln)
        if not m:
            ok = False
            continue
        k = bytes.fromhex(m.group(2).replace("-", ""))
        v = bytes.fromhex(m.group(4).replace("-", ""))
        if len(k) != int(m.group(1), 16) or len(v) != int(m.group(3), 16):
            ok = False
        ents.append({"k": list(k), "v": vrec(v)})
        raw.append((k, v))
    # the default (quoted) mode and the silent mode with the same options: the quoted text must be the manual's rendering of the same
    # entries (printable characters as they are, the double quote as \", every other byte as \xNN), -s must print nothing
    quoted = True
    if ok:
        cmd2 = [c for c in cmd if c != "-x"]
        q = subprocess.run(cmd2 + [path], stdout=subprocess.PIPE, stderr=subprocess.PIPE, env=dict(os.environ, LC_ALL="C"), timeout=120)
        want = b"".join(_quoted(k) + b" " + _quoted(v) + b"\n" for k, v in raw)
        sl = subprocess.run(cmd2 + ["-s", path], stdout=subprocess.PIPE, stderr=subprocess.PIPE, env=dict(os.environ, LC_ALL="C"), timeout=120)
        quoted = q.returncode == 0 and q.stdout == want and sl.returncode == 0 and sl.stdout == b""
    return {"e": "Dump", "path": path, "kp": list(kp), "vp": list(vp), "mink": mink or 0, "minv": minv or 0, "ents": ents, "toolok": ok,
            "quoted": quoted, "rc": p.returncode}


def _quoted(b):
    out = bytearray(b'"')
    for c in b:
        if c == 0x22:
            out += b'\\"'
        elif 0x20 <= c <= 0x7e:
            out.append(c)
        else:
            out += b"\\x%02x" % c
    out += b'"'
    return bytes(out)


_info_map = {"index block offset": "index_block_offset", "index bytes": "bytes_index_block", "data block bytes": "bytes_data_blocks",
             "data block size": "data_block_size", "data block count": "count_data_blocks", "entry count": "count_entries",
             "key bytes": "bytes_keys", "value bytes": "bytes_values", "compression algorithm": "compression", "file size": "file_size"}
_comp_ids = {"none": 0, "snappy": 1, "zlib": 2, "lz4": 3, "lz4hc": 4, "zstd": 5}


def run_info(tools, path, version=1):
    p = subprocess.run([tools["info"], path], stdout=subprocess.PIPE, stderr=subprocess.PIPE, text=True, env=dict(os.environ, LC_ALL="C"), timeout=60)
    rec = {"e": "Info", "path": path, "rc": p.returncode}
    for ln in p.stdout.splitlines():
        m = re.match(r"^([a-z ]+?):\s+(.*)$", ln) or re.match(r"^([a-z ]+?)\s{2,}(.*)$", ln)
        if not m:
            continue
        name, val = m.group(1).strip().rstrip(":"), m.group(2).strip()
        if name in _info_map:
            f = _info_map[name]
            if f == "compression":
                # the tool names the known algorithms; a bare number is what it prints for an algorithm it does not know
                tok0 = (val.split() or [""])[0].strip(",;()").lower()
                rec[f] = _comp_ids[tok0] if tok0 in _comp_ids else (int(tok0) if tok0.isdigit() and int(tok0) not in _comp_ids.values() else -1)
            else:
                rec[f] = int(val.split()[0].replace(",", ""))
    rec["complete"] = p.returncode == 0 and all(f in rec for f in _info_map.values())
    return rec
