"""Build libmtbl objects, tools and harness programs from the repository's current working tree.

Every check calls build(); objects are cached under /verif/out/build/<variant>-<hash> where the hash covers
the content of every source/header of the tree plus the flags, so an edited tree is always rebuilt and an
unchanged one is reused.
"""
import hashlib, os, subprocess, sys, shutil, glob
from concurrent.futures import ThreadPoolExecutor

VERIF = os.path.dirname(os.path.dirname(os.path.dirname(os.path.abspath(__file__))))
REPO = os.environ.get("VERIF_REPO", "/repo")
OUT = os.path.join(VERIF, "out")
HARNESS = os.path.join(VERIF, "harness")

LIB_SRCS = """libmy/crc32c.c libmy/crc32c-slicing.c libmy/crc32c-sse42.c libmy/heap.c libmy/my_fileset.c
mtbl/block.c mtbl/block_builder.c mtbl/compression.c mtbl/crc32c_wrap.c mtbl/fileset.c mtbl/fixed.c mtbl/iter.c
mtbl/merger.c mtbl/reader.c mtbl/sorter.c mtbl/source.c mtbl/threadpool.c mtbl/metadata.c mtbl/varint.c
mtbl/writer.c""".split()

SEAMS = {
    "mtbl/writer.c": ["-Dwrite=vs_write", "-Dwritev=vs_writev", "-Dpwrite=vs_pwrite", "-Dclose=vs_close"],
    "mtbl/fileset.c": ["-Dclock_gettime=vs_clock_gettime"],
    "mtbl/sorter.c": ["-Dmkstemp=vs_mkstemp", "-Dclose=vs_close"],
    "mtbl/reader.c": ["-Dmmap=vs_mmap", "-Dmunmap=vs_munmap", "-Dclose=vs_close"],
}

BASE = ["-g", "-O1", "-fno-omit-frame-pointer", "-DMTBL_VERIF", "-w"]
VARIANTS = {
    "plain": [],
    "asan": ["-fsanitize=address,undefined", "-fno-sanitize=alignment", "-fno-sanitize-recover=undefined"],
    "tsan": ["-fsanitize=thread"],
    "sched": [],          # threadpool.c under the deterministic scheduler
    "schedasan": ["-fsanitize=address,undefined", "-fno-sanitize=alignment", "-fno-sanitize-recover=undefined"],   # the same, with ASan
    "plain0": ["-O0"],    # no optimisation: every load the source asks for is made as wide as written
    "tools": [],          # no seams, no hook: the command line tools as shipped
}
LIBS = ["-lz", "-lsnappy", "-llz4", "-lzstd", "-lpthread", "-ldl"]


class BuildError(Exception):
    pass


def tree_hash(repo):
    h = hashlib.sha256()
    files = []
    for d in ("mtbl", "libmy", "src"):
        for ext in ("*.c", "*.h"):
            files += glob.glob(os.path.join(repo, d, ext))
    files.append(os.path.join(repo, "config.h"))
    for f in sorted(files):
        h.update(f[len(repo):].encode())
        try:
            with open(f, "rb") as fp:
                h.update(fp.read())
        except OSError:
            pass
    for f in sorted(glob.glob(os.path.join(HARNESS, "*.[ch]"))):
        h.update(os.path.basename(f).encode())
        with open(f, "rb") as fp:
            h.update(fp.read())
    return h.hexdigest()[:16]


def _run(cmd):
    p = subprocess.run(cmd, stdout=subprocess.PIPE, stderr=subprocess.STDOUT, text=True)
    if p.returncode != 0:
        raise BuildError("command failed: %s\n%s" % (" ".join(cmd), p.stdout[-4000:]))
    return p.stdout


def build(variant, repo=None):
    """Returns dict with 'dir', 'lib' (archive), and paths of programs built for that variant."""
    repo = repo or REPO
    th = tree_hash(repo)
    d = os.path.join(OUT, "build", "%s-%s" % (variant, th))
    stamp = os.path.join(d, ".done")
    res = {"dir": d, "lib": os.path.join(d, "libmtbl.a"), "hash": th,
           "drv": os.path.join(d, "mtbl_drv"),
           "dump": os.path.join(d, "mtbl_dump"), "info": os.path.join(d, "mtbl_info"),
           "verify": os.path.join(d, "mtbl_verify"), "merge": os.path.join(d, "mtbl_merge"),
           "cflags": None}
    flags = BASE + VARIANTS[variant]
    inc = ["-include", os.path.join(repo, "config.h"), "-I", repo, "-I", os.path.join(repo, "mtbl"), "-I", HARNESS]
    res["cflags"] = flags + inc
    res["ldflags"] = VARIANTS[variant] + LIBS
    if os.path.exists(stamp):
        return res
    # prune builds of other tree versions for this variant
    if "VERIF_REPO" not in os.environ:
        import time
        for old in glob.glob(os.path.join(OUT, "build", "%s-*" % variant)):
            try:
                if time.time() - os.path.getmtime(old) > 3600:
                    shutil.rmtree(old, ignore_errors=True)
            except OSError:
                pass
    os.makedirs(d, exist_ok=True)
    jobs = []
    objs = []
    for s in LIB_SRCS:
        o = os.path.join(d, s.replace("/", "_")[:-2] + ".o")
        objs.append(o)
        extra = []
        if variant != "tools":
            extra += SEAMS.get(s, [])
        fl = list(flags)
        if variant == "tools":
            fl = [x for x in fl if x != "-DMTBL_VERIF"]
        if variant in ("sched", "schedasan") and s == "mtbl/threadpool.c":
            extra += ["-include", os.path.join(HARNESS, "vs_sched.h")]
        jobs.append(["gcc", "-c"] + fl + inc + extra + [os.path.join(repo, s), "-o", o])
    with ThreadPoolExecutor(max_workers=16) as ex:
        list(ex.map(_run, jobs))
    if os.path.exists(res["lib"]):
        os.unlink(res["lib"])
    _run(["ar", "rcs", res["lib"]] + objs)
    ld = VARIANTS[variant] + LIBS
    if variant == "tools":
        jobs = []
        for t in ("dump", "info", "verify", "merge"):
            jobs.append(["gcc"] + flags + inc + [os.path.join(repo, "src", "mtbl_%s.c" % t), res["lib"], "-o", res[t]] + ld)
        with ThreadPoolExecutor(max_workers=4) as ex:
            list(ex.map(_run, jobs))
    else:
        drv_src = [os.path.join(HARNESS, "mtbl_drv.c")]
        extra = []
        if variant in ("sched", "schedasan"):
            drv_src.append(os.path.join(HARNESS, "vs_sched.c"))
            extra = ["-DVS_SCHED"]
        _run(["gcc"] + flags + inc + extra + drv_src + [res["lib"], "-o", res["drv"]] + ld)
    open(stamp, "w").write("ok\n")
    return res


def compile_prog(variant, name, sources, extra_flags=(), repo=None, link_lib=True):
    """Compile an additional harness program against a built variant; cached alongside it."""
    b = build(variant, repo)
    out = os.path.join(b["dir"], name)
    if os.path.exists(out):
        return out
    srcs = [s if os.path.isabs(s) else os.path.join(HARNESS, s) for s in sources]
    _run(["gcc"] + b["cflags"] + list(extra_flags) + srcs + ([b["lib"]] if link_lib else []) + ["-o", out] + b["ldflags"])
    return out


if __name__ == "__main__":
    for v in sys.argv[1:] or ["plain", "asan", "tools"]:
        print(v, build(v)["dir"])
