"""C16 Varint and fixed-width integer codecs are exact inverses in standard form.

Specification: Varint.tla (LEB128 over base-128 digit sequences, PackedLen, little-endian fixed width); Trace_Varint.tla
judges every logged call. Binding: harness/codec_drv.c logs encode/decode/length/length_packed for every bit-length
boundary (2^k-2 .. 2^k+2 for k = 0..64, hence all 2^7k-1, 2^7k, 2^7k+1), walking ones and zeros, random values, at
alignments 0..7, truncated and over-long byte strings, fixed 32/64 - all validated by TLC, including the harness's own C
reference encoder. The exhaustive 2^32 sweep of the 32-bit functions then runs against that validated reference in a
harness loop (16 threads); that breadth is not TLC's work."""
import os, subprocess, json
from .. import core, build
from .c17 import replay  # same replay format

LEVEL = "exploration"


def run(ctx):
    b = build.build("plain")
    prog = build.compile_prog("plain", "codec_drv", ["codec_drv.c"])
    wd = ctx.sub("varint")
    out = os.path.join(wd, "varint.ndjson")
    p = subprocess.run([prog, "varint", out], stdout=subprocess.PIPE, stderr=subprocess.PIPE, text=True, timeout=600)
    if p.returncode != 0:
        if p.returncode < 0:
            # the harness only calls the functions under test on valid buffers: a signal is the functions' doing
            core.report(ctx, "the varint / fixed-width functions ended the process with signal %d while being called on valid buffers (after %d logged calls): %s" % (
                -p.returncode, sum(1 for _ in open(out)) if os.path.exists(out) else 0, p.stderr[-300:]), {"kind": "output", "stdout": p.stderr[-2000:]})
            return core.finish(ctx, LEVEL, {"evaluations": 0, "distinct_nontrivial": 0}, rule="the run ended abnormally")
        raise core.Infra("codec_drv varint failed: " + p.stderr[-500:])
    recs = [json.loads(l) for l in open(out)]
    ok, depth, r = core.validate_trace(out, "Trace_Varint", timeout=1800)
    ctx.add("vectors", len(recs))
    ctx.sample(recs[10])
    ctx.sample(next(x for x in recs if x["e"] == "Packed"))
    if not ok:
        ev = recs[depth - 1] if depth and depth <= len(recs) else {}
        core.report(ctx, "codec call differs from the standard form at trace line %s: %s" % (depth, json.dumps(ev)[:400]),
                    {"kind": "trace", "module": "Trace_Varint", "trace": [ev], "line": 1})
    else:
        ctx.add("traces_validated_against_impl", 1)
    stride = 16 if ctx.quick() else 1
    p = subprocess.run([prog, "sweep", str(stride)], stdout=subprocess.PIPE, stderr=subprocess.PIPE, text=True, timeout=3000)
    ctx.cov["sweep_values"] = (1 << 32) // stride
    # the strided sweep always includes the boundary values through the vector file; make sure the boundaries are swept too
    if p.returncode != 0:
        core.report(ctx, "2^32 sweep: implementation differs from the validated reference encoder: " + p.stdout[-600:], {"kind": "output", "stdout": p.stdout[-3000:]})
    distinct = len(set(json.dumps(x.get("v")) + str(x.get("w")) for x in recs if x["e"] in ("Var", "Fixed")))
    cov = {"evaluations": len(recs) + (1 << 32) // stride, "distinct_nontrivial": distinct, "traces_validated_against_impl": ctx.cov.get("traces_validated_against_impl", 0),
           "exhaustive": stride == 1}
    return core.finish(ctx, LEVEL, cov, rule="vectors judged by TLC: boundaries 2^k-2..2^k+2 (k=0..64), walking ones/zeros, random, alignments 0..7, truncated/over-long strings, fixed 32/64; "
                       "then the 32-bit sweep (all 2^32 values in the thorough tier, every 16th in quick) against the validated reference; distinct_nontrivial = distinct (value, width) vectors")
