"""C01 Round trip: a written table reads back exactly what was added (reader and mtbl_dump).

Specification: MC_Writer (TLC, exhaustive over bounded add sequences) shows the writer's rules lose nothing
(ContentOk of the predicted file); Mtbl.tla states the round trip at the API: ROpen binds the reader to the
accepted entries, Next must return them in order, DumpOk gives mtbl_dump's output with its four options.
Binding: TLC behaviours of MC_Writer and byte-level random tables are written by the real writer under all
configurations, read back by the real reader and mtbl_dump, and every call is validated by TLC (Trace_Mtbl)."""
from .. import core, build, writerside as W

JUDGE = ["C01"]
LEVEL = "model_checking"


def run(ctx):
    b = build.build("asan")
    tools = build.build("tools")
    W.tlc_writer_model(ctx, ctx.quick())
    items = W.tlc_behaviours(ctx, 120 if ctx.quick() else 3000, depth=8)
    items += W.random_items(ctx, 70 if ctx.quick() else 1500, pools=True)
    rej, abn = W.run_items(ctx, b, tools, items, JUDGE)
    W.report_all(ctx, rej, abn)
    ctx.sample({"item": items[0]["name"], "cfg": items[0]["cfg"], "adds": [[k.hex(), v] for k, v in items[0]["adds"]][:8]})
    ctx.sample({"item": items[-1]["name"], "cfg": items[-1]["cfg"], "class": items[-1].get("klass"), "n_adds": len(items[-1]["adds"])})
    ctx.assumptions += ["value bytes longer than 1024 are compared by length and 64-bit FNV hash", "TLC, refcodec, driver logging"]
    cov = {"states": ctx.cov.get("states", 0), "transitions": ctx.cov.get("transitions", 0),
           "traces_validated_against_impl": ctx.cov.get("traces_validated_against_impl", 0),
           "evaluations": ctx.cov.get("trace_events", 0), "distinct_nontrivial": ctx.cov.get("files", 0), "exhaustive": False}
    return core.finish(ctx, LEVEL, cov, rule="one execution per table: write (real writer, any configuration), full iteration, mtbl_dump with options; "
                       "tables from TLC -simulate behaviours of MC_Writer and from a seeded byte-level generator (corner classes: empty key, 127/128/16383/16384 lengths, "
                       "entries larger than a block, long shared prefixes, pools); distinct_nontrivial = files written")


def replay(ctx, path):
    return W.replay(ctx, path)
