"""C19 Opening arbitrary bytes as a table never reads outside the file.

Specification: ReaderOpen.tla - mtbl_reader_init_fd as the list of byte ranges it reads, as a function of the fields an
adversary controls (file size, magic, version, index offset, index length and its encoding, verify flag), arithmetic
modulo a scaled word size so the overflow guard is exercised; TLC evaluates SafeInv (every read inside the file) and
OutcomeInv for all 1.3 million field combinations; FixF9 = FALSE must fail.
Binding: each field class is materialised on real bytes (valid v1/v2 files from the independent encoder with the trailer
or index header patched to boundary values around every bound, all truncations of small files, the 512..530-byte sizes
with either magic, random bytes) and opened through the guard-page mmap seam (image flush against a PROT_NONE region on
the right, then on the left), with and without verify_checksums, each in its own child. Outcome NULL / reader / SIGABRT
is accepted; SIGSEGV, SIGBUS or a sanitizer report is a violation. Judged by TLC (Trace_Open)."""
import os, struct, json
from .. import core, build, gen, refcodec as R, projection as P

LEVEL = "fault_enumeration"


def base_files(rng):
    out = []
    ents1 = [(b"a", b"x" * 5), (b"ab", b""), (b"b", b"y" * 40)]
    ents2 = [(("k%03d" % i).encode(), P.xs_bytes(i, 30)) for i in range(40)]
    for ver in (1, 2):
        for comp in ("none", "zlib"):
            blocks = [{"entries": ents1, "restarts": {0}, "sep": b"b"}]
            out.append(("small_v%d_%s" % (ver, comp), R.encode(blocks, version=ver, compression=comp)))
        blocks = [{"entries": ents2[i:i + 10], "restarts": {0, 5}, "sep": ents2[min(i + 9, 39)][0]} for i in range(0, 40, 10)]
        out.append(("four_v%d" % ver, R.encode(blocks, version=ver, compression="none")))
        out.append(("empty_v%d" % ver, R.encode([], version=ver)))
    return out


def u64(x):
    return struct.pack("<Q", x & 0xFFFFFFFFFFFFFFFF)


def cases(ctx):
    rng = ctx.rng
    quick = ctx.quick()
    out = []          # (label, bytes)
    for name, data in base_files(rng):
        size = len(data)
        tr = size - 512
        ver = 2 if data[-4:] == struct.pack("<I", R.MAGIC_V2) else 1
        ioff = struct.unpack_from("<Q", data, tr)[0]
        minb = 13 if ver == 2 else 16
        offs = [0, 1, ioff - 1, ioff + 1, tr - minb - 1, tr - minb, tr - minb + 1, tr - 1, tr, tr + 1, size - 1, size, size + 4096,
                2 ** 31 - 1, 2 ** 32 - 1, 2 ** 32, 2 ** 63, 2 ** 64 - 512 - minb, 2 ** 64 - 512, 2 ** 64 - 13, 2 ** 64 - 1]
        for o in offs:
            if o < 0:
                continue
            out.append(("%s:ioff=%d" % (name, o), data[:tr] + u64(o) + data[tr + 8:]))
        for mg in (R.MAGIC_V1, R.MAGIC_V2, 0, 0xFFFFFFFF, R.MAGIC_V2 ^ 1):
            out.append(("%s:magic=%08x" % (name, mg), data[:-4] + struct.pack("<I", mg)))
        # index length field
        remaining = tr - ioff - (1 if ver == 2 else 4) - 4
        lens = [0, 1, 3, 4, 7, 8, remaining - 1, remaining, remaining + 1, remaining + 512, size, 2 ** 31 - 1, 2 ** 31, 2 ** 32 - 1]
        big = [2 ** 32, 2 ** 35, 2 ** 63, 2 ** 64 - 1]
        for n in lens + (big if ver == 2 else []):
            if n < 0:
                continue
            if ver == 2:
                enc = R.varint_enc(n)
            else:
                enc = struct.pack("<I", n & 0xFFFFFFFF)
            patched = data[:ioff] + enc + data[ioff + len(enc):]
            patched = patched[:size]
            if len(patched) == size:
                out.append(("%s:ilen=%d" % (name, n), patched))
        if ver == 2:
            for raw in (b"\x80" * 9 + b"\x01", b"\xff" * 10, b"\x80\x80\x80\x80\x80\x80\x80\x80\x80\x80", b"\xff\xff\xff\xff\x0f", b"\x80\x00"):
                patched = (data[:ioff] + raw + data[ioff + len(raw):])[:size]
                if len(patched) == size:
                    out.append(("%s:ilenraw=%s" % (name, raw.hex()), patched))
        # truncations
        step = 1 if (size < 700 and not quick) else 7
        for n in list(range(0, size, step)) + [511, 512, 513, 524, 525, 526, 527, 528, 529]:
            if n < size:
                out.append(("%s:trunc=%d" % (name, n), data[:n]))
    # boundary sizes with a valid magic and adversarial trailer
    for n in range(508, 532):
        for mg in (R.MAGIC_V1, R.MAGIC_V2):
            for o in (0, 1, 4096, 2 ** 20, 2 ** 44, 2 ** 63, 2 ** 64 - 8, 2 ** 64 - 525, 2 ** 64 - 1):
                body = bytearray(P.xs_bytes(n * 7 + (o & 0xff), n))
                if n >= 512:
                    body[n - 512:n - 504] = u64(o)
                if n >= 4:
                    body[-4:] = struct.pack("<I", mg)
                out.append(("size=%d:magic=%08x:ioff=%d" % (n, mg, o), bytes(body)))
    # random bytes
    for i in range(40 if quick else 600):
        n = rng.choice([0, 1, 100, 512, 513, 600, 1500, 5000])
        body = bytearray(P.xs_bytes(1000 + i, n))
        if n >= 512 and i % 2 == 0:
            body[-4:] = struct.pack("<I", rng.choice([R.MAGIC_V1, R.MAGIC_V2]))
            if i % 4 == 0:
                body[n - 512:n - 504] = u64(rng.choice([0, 1, n - 530, n - 525, rng.randint(0, max(1, n))]) if n > 530 else 0)
        out.append(("random%d:n=%d" % (i, n), bytes(body)))
    return out


def run(ctx):
    b = build.build("asan")
    r = core.tlc("ReaderOpen", "MC_ReaderOpen.cfg", workers=8, timeout=900)
    if not r.ok:
        raise core.Infra("ReaderOpen model failed (specification problem):\n" + r.out[-3000:])
    ctx.add("states", r.distinct)
    ctx.add("transitions", r.generated)
    wd0 = ctx.sub("regr")
    open(os.path.join(wd0, "R9.cfg"), "w").write(open(os.path.join(core.SPEC, "MC_ReaderOpen.cfg")).read().replace("FixF9 = TRUE", "FixF9 = FALSE"))
    open(os.path.join(wd0, "R9.tla"), "w").write(open(os.path.join(core.SPEC, "ReaderOpen.tla")).read().replace("MODULE ReaderOpen", "MODULE R9"))
    r9 = core.tlc("R9", "R9.cfg", workers=4, cwd=wd0, timeout=600)
    ctx.cov["regression_FixF9_FALSE_fails"] = bool(r9.inv_violated)
    # unbounded: the same reads at the real sizes with 64-bit wrap-around arithmetic, every file size and field value (Apalache)
    od = ctx.sub("apalache")
    res = {}
    for tag, cinit, want in [("repaired_tree", "CInit2", "ok"), ("first_F9_repair", "CInit1", "violated"), ("pinned_tree", "CInit0", "violated")]:
        r_ = core.apalache("ReaderOpenU", cinit, "Init", "SafeInv", 0, os.path.join(od, tag))
        res[tag] = r_
        if r_.startswith("unavailable"):
            ctx.notes.append("Apalache run %s of ReaderOpenU not available: %s" % (tag, r_))
        elif r_ != want:
            raise core.Infra("ReaderOpenU: Apalache run %s gave %s, expected %s (specification problem)" % (tag, r_, want))
    ctx.cov["unbounded_all_sizes_and_fields"] = res
    cs = cases(ctx)
    wd = ctx.sub("files")
    lines, meta = [], []
    for n, (label, data) in enumerate(cs):
        path = os.path.join(wd, "c%d" % n)
        open(path, "wb").write(data)
        for guard in (1, 2):
            for verify in (0, 1):
                lines += ["guard %d" % guard, "r_init 0 %s %d 0 fd" % (path, verify), "r_destroy 0", "---"]
                meta.append((label, len(data), guard, verify))
    # files of 4 GiB and more (sparse): sizes just above a multiple of 2^32, so that any 32-bit view of the size lies below
    # the size of the trailer; zero bytes, the trailer of a valid small table at the end, and a valid table written by the real
    # writer behind a sparse prefix that ends 300 bytes below 2^32. Opened through plain mmap (the guard seam copies the image).
    big = []
    valid = dict(cs)["small_v2_none"] if "small_v2_none" in dict(cs) else cs[0][1]
    for base in ((1 << 32), (1 << 33)) if not ctx.quick() else ((1 << 32),):
        for extra in (0, 1, 100, 300, 511, 512, 600):
            for kind in ("zeros", "trailer"):
                if kind == "trailer" and extra < 4:
                    continue
                path = os.path.join(wd, "big_%d_%d_%s" % (base >> 30, extra, kind))
                with open(path, "wb") as f:
                    f.truncate(base + extra)
                    if kind == "trailer":
                        tail = valid[-min(512, extra):]
                        f.seek(base + extra - len(tail))
                        f.write(tail)
                big.append(("%s:%dGiB+%d" % (kind, base >> 30, extra), path))
    vpath = os.path.join(wd, "big_valid.mtbl")
    evs, rc, err = core.run_drv(b, "\n".join(["scratch " + wd, "w_init 0 %s none default 1024 2 -1 %d sparse" % (vpath, (1 << 32) - 300),
                                              "w_add 0 61 G5x40", "w_add 0 62 G6x40", "w_close 0"]) + "\n", wd, "bigw")
    if rc == 0 and os.path.exists(vpath):
        big.append(("valid table across 4GiB (size %d)" % os.path.getsize(vpath), vpath))
    for (label, path) in big:
        for verify in (0, 1):
            for fd in ("", " fd"):
                lines += ["guard 0", "r_init 0 %s %d 0%s" % (path, verify, fd), "r_destroy 0", "---"]
                meta.append((label, 1 << 30, 0, verify))
    recs = []
    B = 4000 * 4
    # every open twice: the sanitizer build, and a build without optimisation (a copy or load written wider than the bytes a field
    # owns is really made that wide there; the optimiser may narrow it again)
    b0 = build.build("plain0")
    n_guarded = len(lines)
    for (bb, i) in [(b, i) for i in range(0, len(lines), B)] + [(b0, i) for i in range(0, n_guarded, B)]:
        evs, rc, err = core.run_drv(bb, "\n".join(lines[i:i + B]) + "\n", wd, "o%d" % i, fork=True, timeout=1800)
        x0 = i // 4
        cur = {}
        for e in evs:
            if e["e"] == "Reset":
                cur = {"x": x0 + e["x"], "opened": None}
            elif e["e"] == "ROpen":
                cur["opened"] = e["ok"]
            elif e["e"] == "Exit":
                label, size, guard, verify = meta[cur["x"]]
                if e["sig"] == 6:
                    outcome = "assert"
                elif e["sig"] != 0:
                    outcome = "signal%d" % e["sig"]
                elif e["code"] != 0:
                    outcome = "sanitizer_or_exit%d" % e["code"]
                elif cur["opened"] is None:
                    outcome = "no_return"
                else:
                    outcome = "reader" if cur["opened"] else "null"
                recs.append({"e": "OpenArb", "case": label, "size": size, "guard": guard, "verify": verify, "outcome": outcome})
                ctx.add("opens", 1)
                ctx.add("outcome_" + outcome, 1)
    ctx.sample(recs[5])
    ctx.sample(next((r for r in recs if r["outcome"] == "assert"), recs[-1]))
    d = ctx.sub("traces")
    bad = [r for r in recs if r["outcome"] not in ("null", "reader", "assert")]
    tp = os.path.join(d, "open.ndjson")
    core.write_trace(tp, recs)
    ok, depth, rr = core.validate_trace(tp, "Trace_Open")
    ctx.add("traces_validated_against_impl", 1 if ok else 0)
    if not ok:
        seen = set()
        for r0 in bad:
            key = r0["case"].split(":")[-1].split("=")[0] + r0["outcome"]
            if key in seen:
                continue
            seen.add(key)
            one = os.path.join(d, "one.ndjson")
            core.write_trace(one, [r0])
            ok1, _, _ = core.validate_trace(one, "Trace_Open")
            if not ok1:
                core.report(ctx, "opening %s (size %d, guard %d, verify %d) ended with %s: an access outside the file's bytes" % (
                    r0["case"], r0["size"], r0["guard"], r0["verify"], r0["outcome"]), {"kind": "trace", "module": "Trace_Open", "trace": [r0], "line": 1})
    cov = {"evaluations": ctx.cov.get("opens", 0), "distinct_nontrivial": len(cs), "states": ctx.cov.get("states", 0), "transitions": ctx.cov.get("transitions", 0),
           "outcomes": {k[8:]: v for k, v in ctx.cov.items() if k.startswith("outcome_")}, "exhaustive": False}
    return core.finish(ctx, LEVEL, cov, rule="cases = single-field mutations of valid v1/v2 files (index offset, magic, index length incl. over-long varints), truncations, "
                       "boundary sizes 508..531 with a valid magic and adversarial offsets, random bytes; each opened 4 times (guard side x verify); distinct_nontrivial = distinct file images")


def replay(ctx, path):
    obj = json.load(open(path))
    p = os.path.join(ctx.sub("replay"), "t.ndjson")
    core.write_trace(p, obj["trace"])
    ok, depth, r = core.validate_trace(p, "Trace_Open")
    print("replay: %s" % ("accepted" if ok else "rejected: " + json.dumps(obj["trace"][0])))
    ctx.cleanup()
    return 0 if ok else 1
