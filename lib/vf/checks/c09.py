"""C09 Written files are well-formed MTBL v2 as judged by an independent decoder (translation validation).

Specification: FileFormat!WellFormed (contiguity, framing, checksums, restart cadence, full-prefix sharing, index
interval rule, the two block-size clauses, content, trailer form); MC_Writer checks that the writer's rules satisfy
it for all bounded inputs. Binding: every file the real writer emits in the corpus is decoded by lib/vf/refcodec.py
and the decoded structure is judged by TLC against WellFormed together with the logged adds."""
from .. import core, build, writerside as W

JUDGE = ["C09"]
LEVEL = "translation_validation"


def run(ctx):
    b = build.build("asan")
    tools = build.build("tools")
    W.tlc_writer_model(ctx, ctx.quick())
    items = W.tlc_behaviours(ctx, 160 if ctx.quick() else 4000, depth=9)
    items += W.random_items(ctx, 140 if ctx.quick() else 4000, pools=True)
    rej, abn = W.run_items(ctx, b, tools, items, JUDGE, with_tools=False)
    W.report_all(ctx, rej, abn)
    ctx.sample({"item": items[-1]["name"], "cfg": items[-1]["cfg"], "class": items[-1].get("klass"), "n_adds": len(items[-1]["adds"])})
    cov = {"programs": ctx.cov.get("files", 0), "disagreements_checked": len(rej) + len(abn),
           "states": ctx.cov.get("states", 0), "transitions": ctx.cov.get("transitions", 0),
           "traces_validated_against_impl": ctx.cov.get("traces_validated_against_impl", 0),
           "evaluations": ctx.cov.get("trace_events", 0), "distinct_nontrivial": ctx.cov.get("files", 0)}
    ctx.assumptions += ["refcodec.py is an independent decoder (own CRC-32C, varints; zlib/lz4/zstd/snappy called directly)"]
    return core.finish(ctx, "translation_validation", cov, rule="programs = files emitted by the real writer, each decoded independently and judged by FileFormat!WellFormed in TLC")


def replay(ctx, path):
    return W.replay(ctx, path)
