"""C20 Writer output does not depend on how write(2) fragments the I/O.

Specification: WriteAll.tla (the _write_all retry loop against a nondeterministic write(2): Full, Partial(n), Eintr,
HardError) - TLC checks PrefixInv, DoneComplete and termination under weak fairness, exhaustively for the buffer
sequence of a real small file with up to MaxFaults faults; the regressions Advance = FALSE and EintrKeeps = FALSE must
be rejected. Trace_WriteAll.tla is the abstract contract used for validation.
Binding: mtbl/writer.c is compiled with -Dwrite=vs_write; the shim applies a fault script and records every call.
Fault scripts: every single fault (Partial 1 / n-1 / mid, EINTR x1..3, zero return, EIO, ENOSPC) at every call of a
small file's write sequence, all-calls-one-byte, and multi-fault behaviours printed by tlc -simulate of WriteAll
instantiated with that file's real buffer lengths. Each run's calls and ending (file bytes vs the fault-free file, exit
status) are validated by TLC."""
import os, re, json, filecmp
from .. import core, build, gen, shapes

LEVEL = "fault_enumeration"


def table_lines(path, comp, n=14):
    vg = gen.VGen(42)
    L = ["w_init 0 %s %s default 1024 2 -1 0" % (path, comp)]
    for i in range(n):
        L.append("w_add 0 %s %s" % (("k%03d" % i).encode().hex(), vg.val(150 + i)))
    L.append("w_close 0")
    return L


def run_case(b, wd, name, comp, faults, allone=False):
    path = os.path.join(wd, name + ".mtbl")
    if os.path.exists(path):
        os.unlink(path)
    L = ["scratch " + wd, "wopts 1 %d" % (1 if allone else 0)]
    for (call, kind, n) in faults:
        L.append("wfault %d %s %d" % (call, kind, n))
    L += table_lines(path, comp)
    evs, rc, err = core.run_drv(b, "\n".join(L) + "\n", wd, name, fork=True, timeout=120)
    return path, evs


def run_two(b, wd, name, comp, faults):
    """two tables written one after the other by the same thread of one process; the faults hit the first"""
    paths = [os.path.join(wd, name + "_%d.mtbl" % i) for i in (0, 1)]
    for p in paths:
        if os.path.exists(p):
            os.unlink(p)
    L = ["scratch " + wd, "wopts 1 0"]
    for (call, kind, n) in faults:
        L.append("wfault %d %s %d" % (call, kind, n))
    for i, p in enumerate(paths):
        L += [x.replace("w_init 0 ", "w_init %d " % i).replace("w_add 0 ", "w_add %d " % i).replace("w_close 0", "w_close %d" % i) for x in table_lines(p, comp)]
    evs, rc, err = core.run_drv(b, "\n".join(L) + "\n", wd, name, fork=True, timeout=120)
    return paths, evs


def unbounded(ctx):
    """WriteAllU.tla with Apalache: the inductive invariant of one _write_all call for every buffer length and every sequence of
    write(2) outcomes (unbounded), and the two regression loops refuted"""
    od = ctx.sub("apalache")
    res = {}
    for tag, cinit, init, inv, length, want in [("base", "ConstInitGood", "Init", "IndInv", 0, "ok"), ("step", "ConstInitGood", "IndInit", "IndInv", 1, "ok"),
                                                ("implies", "ConstInitGood", "IndInit", "DoneComplete", 0, "ok"),
                                                ("no_advance", "ConstInitNoAdvance", "IndInit", "IndInv", 1, "violated"),
                                                ("eintr_moves", "ConstInitEintrMoves", "IndInit", "IndInv", 1, "violated")]:
        r = core.apalache("WriteAllU", cinit, init, inv, length, os.path.join(od, tag))
        res[tag] = r
        if r.startswith("unavailable"):
            ctx.notes.append("Apalache step %s of WriteAllU not available: %s" % (tag, r))
        elif r != want:
            raise core.Infra("WriteAllU: Apalache step %s gave %s, expected %s (specification problem)" % (tag, r, want))
    ctx.cov["unbounded_inductive_argument"] = res


def run(ctx):
    b = build.build("asan")
    rng = ctx.rng
    unbounded(ctx)
    wd = ctx.sub("w")
    comps = ["snappy"] if ctx.quick() else ["none", "snappy", "zlib", "lz4", "lz4hc", "zstd"]
    recs = []
    nrun = 0
    for comp in comps:
        ref, evs0 = run_case(b, wd, "ref_" + comp, comp, [])
        writes = [e for e in evs0 if e["e"] == "Write"]
        bufs = [e["req"] for e in writes]
        total = os.path.getsize(ref)
        if sum(bufs) != total:
            raise core.Infra("fault-free run: write calls do not add up to the file size")
        # design level: the loop over this file's real buffer lengths (scaled down to keep Partial(n) enumerable)
        scaled = [min(x, 6) for x in bufs]
        mwd = ctx.sub("mc_" + comp)
        open(os.path.join(mwd, "W.tla"), "w").write("---- MODULE W ----\nEXTENDS WriteAll\nmcBufs == %s\n====\n" % shapes.tla_seq([str(x) for x in scaled]))
        base = "SPECIFICATION Spec\nCONSTANTS\n Bufs <- mcBufs\n MaxFaults = %d\n Advance = %s\n EintrKeeps = %s\nINVARIANT PrefixInv\nINVARIANT DoneComplete\nPROPERTY Terminates\nVIEW NoHist\nCHECK_DEADLOCK FALSE\n"
        open(os.path.join(mwd, "W.cfg"), "w").write(base % (2 if ctx.quick() else 3, "TRUE", "TRUE"))
        r = core.tlc("W", "W.cfg", workers=8, cwd=mwd, timeout=900, java_opts=["-DTLA-Library=" + core.SPEC])
        if not r.ok:
            raise core.Infra("WriteAll model failed (specification problem):\n" + r.out[-3000:])
        ctx.add("states", r.distinct)
        ctx.add("transitions", r.generated)
        if comp == comps[0]:
            for nm, a, k in (("RA", "FALSE", "TRUE"), ("RE", "TRUE", "FALSE")):
                open(os.path.join(mwd, nm + ".cfg"), "w").write(base % (2, a, k))
                open(os.path.join(mwd, nm + ".tla"), "w").write("---- MODULE %s ----\nEXTENDS WriteAll\nmcBufs == <<1, 4, 3, 5, 2>>\n====\n" % nm)
                rr = core.tlc(nm, nm + ".cfg", workers=2, cwd=mwd, timeout=300, java_opts=["-DTLA-Library=" + core.SPEC])
                ctx.cov["regression_%s_fails" % ("Advance_FALSE" if nm == "RA" else "EintrKeeps_FALSE")] = bool(rr.inv_violated)
        # fault scripts
        scripts = []
        ncalls = len(bufs)
        for c in range(1, ncalls + 1):
            n = bufs[c - 1]
            cand = [[(c, "eintr", 0)], [(c, "zero", 0)], [(c, "error", 5)], [(c, "error", 28)]]
            if n > 1:
                cand += [[(c, "partial", 1)], [(c, "partial", n - 1)], [(c, "partial", max(1, n // 2))]]
            cand.append([(c, "eintr", 0), (c + 1, "eintr", 0), (c + 2, "eintr", 0)])
            scripts += cand
        scripts.append("allone")
        # "EINTR any number of times": long runs of interruptions inside one _write_all, in a row and alternating with one byte of
        # progress, at the first, the last and a few other calls (the per-call loop has no state that could count them)
        sites = sorted(set([1, 2, 3, ncalls - 1, ncalls] + [rng.randrange(1, ncalls + 1) for _ in range(2 if ctx.quick() else 8)]))
        for c in sites:
            for run_len in ((16, 200) if ctx.quick() else (8, 15, 16, 17, 64, 200, 1000)):
                scripts.append([(c + i, "eintr", 0) for i in range(run_len)])
                if bufs[c - 1] > run_len:
                    scripts.append([(c + i, "eintr", 0) if i % 2 == 0 else (c + i, "partial", 1) for i in range(2 * run_len)])
        # multi-fault behaviours from TLC -simulate on the scaled model: map (call k -> outcome)
        open(os.path.join(mwd, "S.cfg"), "w").write(base.replace("VIEW NoHist\n", "INVARIANT DumpHist\n") % (4, "TRUE", "TRUE"))
        open(os.path.join(mwd, "S.tla"), "w").write(open(os.path.join(mwd, "W.tla")).read().replace("MODULE W", "MODULE S"))
        rs = core.tlc("S", "S.cfg", workers=2, cwd=mwd, simulate="num=%d" % (40 if ctx.quick() else 600), timeout=600,
                      extra=["-depth", str(ncalls + 8), "-seed", str(ctx.seed)], java_opts=["-DTLA-Library=" + core.SPEC])
        seen = set()
        for m in re.finditer(r'<<\s*"HIST",(.*?)>>\s*>>\s*>>', rs.out, re.S):
            nums = tuple(int(x) for x in re.findall(r"-?\d+", m.group(1)))
            if nums in seen:
                continue
            seen.add(nums)
            fl = []
            for i in range(0, len(nums) - 1, 2):
                kind, n = nums[i], nums[i + 1]
                call = i // 2 + 1
                if kind == 1:
                    fl.append((call, "partial", n))
                elif kind == 2:
                    fl.append((call, "eintr", 0))
                elif kind == 4:
                    fl.append((call, "error", 5))
            if fl:
                scripts.append(fl)
        if ctx.quick() and len(scripts) > 260:
            keep = [x for x in scripts if x == "allone" or len(x) < 16]
            rng.shuffle(keep)
            scripts = keep[:260] + [x for x in scripts if x != "allone" and len(x) >= 16]
        for si, sc in enumerate(scripts):
            name = "f%s_%d" % (comp, si)
            path, evs = run_case(b, wd, name, comp, [] if sc == "allone" else sc, allone=(sc == "allone"))
            ext = [e for e in evs if e["e"] == "Exit"]
            exit_ok = bool(ext) and ext[0]["code"] == 0 and ext[0]["sig"] == 0
            closed = any(e["e"] == "WClose" for e in evs)
            same = os.path.exists(path) and filecmp.cmp(path, ref, shallow=False)
            size = os.path.getsize(path) if os.path.exists(path) else 0
            recs.append({"e": "Reset", "x": nrun})
            for e in evs:
                if e["e"] == "Write":
                    recs.append(e)
            recs.append({"e": "Final", "exit": "ok" if (exit_ok and closed) else "abort", "same": same, "size": size, "total": total,
                         "script": "allone" if sc == "allone" else [list(x) for x in sc], "comp": comp})
            nrun += 1
            ctx.add("fault_scripts", 1)
            if sc != "allone" and len(sc) >= 1:
                ctx.add("faulted_runs", 1)
            if os.path.exists(path):
                os.unlink(path)
            if nrun <= 2:
                ctx.sample({"comp": comp, "script": recs[-1]["script"], "write_calls": sum(1 for e in evs if e["e"] == "Write"), "exit": recs[-1]["exit"], "same": same})
        # what an interrupted write leaves behind in the thread (errno) must not matter to the next table written by it
        if comp == comps[0]:
            calls = list(range(1, ncalls + 1))
            if ctx.quick():
                calls = sorted(set([1, 2, 3, ncalls] + rng.sample(calls, min(len(calls), 6))))
            for c in calls:
                for sc in ([(c, "eintr", 0)], [(c, "partial", 1)] if bufs[c - 1] > 1 else [(c, "eintr", 0), (c + 1, "eintr", 0)]):
                    paths, evs = run_two(b, wd, "two%s_%d" % (comp, nrun), comp, sc)
                    ext = [e for e in evs if e["e"] == "Exit"]
                    exit_ok = bool(ext) and ext[0]["code"] == 0 and ext[0]["sig"] == 0
                    closed = sum(1 for e in evs if e["e"] == "WClose") == 2
                    same = all(os.path.exists(p) and filecmp.cmp(p, ref, shallow=False) for p in paths)
                    recs.append({"e": "Reset", "x": nrun})
                    recs += [e for e in evs if e["e"] == "Write"]
                    recs.append({"e": "Final", "exit": "ok" if (exit_ok and closed) else "abort", "same": same, "size": sum(os.path.getsize(p) for p in paths if os.path.exists(p)),
                                 "total": 2 * total, "script": [list(x) for x in sc] + [["two tables"]], "comp": comp})
                    nrun += 1
                    ctx.add("fault_scripts", 1)
                    ctx.add("faulted_runs", 1)
                    ctx.add("two_table_runs", 1)
                    for p in paths:
                        if os.path.exists(p):
                            os.unlink(p)
    for ex, line in core.validate_batch(ctx, recs, "wa", module="Trace_WriteAll"):
        fin = next((e for e in ex if e["e"] == "Final"), {})
        core.report(ctx, "write(2) fault script %s (%s): run not explained by the contract at trace line %d: %s" % (
            json.dumps(fin.get("script")), fin.get("comp"), line, json.dumps(ex[line - 1])[:200]),
            {"kind": "trace", "module": "Trace_WriteAll", "trace": ex, "line": line})
    cov = {"evaluations": ctx.cov.get("fault_scripts", 0), "distinct_nontrivial": ctx.cov.get("faulted_runs", 0),
           "states": ctx.cov.get("states", 0), "transitions": ctx.cov.get("transitions", 0),
           "traces_validated_against_impl": ctx.cov.get("traces_validated_against_impl", 0), "exhaustive": False}
    return core.finish(ctx, LEVEL, cov, rule="fault scripts = every single fault of 8 kinds at every write(2) call of a small file + all-calls-one-byte + TLC -simulate multi-fault behaviours; "
                       "verdict per run: bytes identical to the fault-free file and normal return, or loud stop after a hard error")


def replay(ctx, path):
    obj = json.load(open(path))
    p = os.path.join(ctx.sub("replay"), "t.ndjson")
    core.write_trace(p, obj["trace"])
    ok, depth, r = core.validate_trace(p, obj.get("module", "Trace_WriteAll"))
    print("replay: trace %s (depth %s of %d lines)" % ("accepted" if ok else "rejected", depth, len(obj["trace"])))
    ctx.cleanup()
    return 0 if ok else 1
