"""C10 Trailer statistics equal the truth about the file.

Specification: Mtbl!Truth (the ten statistics as functions of the decoded file structure and the writer's
configuration) and StatsOk; MC_Writer checks TruthInv on the implementation-shaped writer's counters for all bounded
add sequences (refused adds excluded, foreign prefix excluded). Binding: mtbl_metadata_* (through the reader) and the
parsed output of mtbl_info for every corpus file compared with the independently decoded truth, in TLC."""
from .. import core, build, writerside as W

JUDGE = ["C10"]


def run(ctx):
    b = build.build("asan")
    tools = build.build("tools")
    W.tlc_writer_model(ctx, ctx.quick())
    items = W.tlc_behaviours(ctx, 120 if ctx.quick() else 3000, depth=9)
    items += W.random_items(ctx, 120 if ctx.quick() else 3000, pools=True)
    rej, abn = W.run_items(ctx, b, tools, items, JUDGE)
    W.report_all(ctx, rej, abn)
    ctx.sample({"item": items[-1]["name"], "cfg": items[-1]["cfg"], "class": items[-1].get("klass"), "pool": items[-1].get("poolsize")})
    cov = {"states": ctx.cov.get("states", 0), "transitions": ctx.cov.get("transitions", 0),
           "traces_validated_against_impl": ctx.cov.get("traces_validated_against_impl", 0),
           "evaluations": ctx.cov.get("trace_events", 0), "distinct_nontrivial": ctx.cov.get("files", 0), "exhaustive": False}
    return core.finish(ctx, "model_checking", cov, rule="per file: ten statistics via mtbl_metadata_* and mtbl_info vs the decoded truth; files incl. empty table, foreign prefix, refused adds, pooled writers")


def replay(ctx, path):
    return W.replay(ctx, path)
