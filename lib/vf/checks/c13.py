"""C13 Pooled writers and sorters: same result under every interleaving, no hangs.

Specification: ThreadPool.tla (PlusCal, one label per pthread call of mtbl/threadpool.c: mutexes, condition variables
with nondeterministic wake choice and bounded spurious wake-ups, create/join; several clients sharing one pool) - TLC
checks ExactlyOnce, NoDup, InOrder, Bounded, deadlock freedom and <>AllDone under weak fairness over all interleavings of
small configurations. PoolAbs.tla is the abstract contract; Trace_Pool.tla judges executions.
Binding: threadpool.c is compiled with its ten pthread calls renamed to the deterministic scheduler harness/vs_sched.c
(one thread runs at a time; every pthread call and the point after every unlock is a scheduling point; the scheduler
knows the enabled set, so "no thread enabled" is a deadlock verdict, not a timeout; seeded uniform and preemption-bounded
schedules, spurious wake-ups). Ring 1: the pool alone with synthetic jobs, events validated against PoolAbs. Ring 2:
pooled writers - file byte-identical to the pool-less file under every explored schedule. Ring 3: pooled sorters (kilobyte
limits) - output validated against the abstract sorter. Real-thread runs with larger pools under a watchdog complete the
picture."""
import os, json, subprocess, filecmp
from .. import core, build, gen, shapes, mergerside as M

LEVEL = "model_checking"


def tlc_models(ctx):
    cfgs = ["MC_ThreadPool_q1.cfg", "MC_ThreadPool_q2.cfg"] if ctx.quick() else ["MC_ThreadPool_q1.cfg", "MC_ThreadPool_q2.cfg", "MC_ThreadPool_t1.cfg", "MC_ThreadPool_t2.cfg", "MC_ThreadPool_t3.cfg", "MC_ThreadPool_qm.cfg"]
    for c in cfgs:
        r = core.tlc("ThreadPool", c, workers=8 if ctx.quick() else 12, timeout=3000)
        if not r.ok:
            raise core.Infra("ThreadPool model failed on %s (specification problem):\n%s" % (c, r.out[-3000:]))
        ctx.add("states", r.distinct)
        ctx.add("transitions", r.generated)


def _complete_lines(path):
    """drop a last line cut short by a crash of the run (the run's status is judged separately)"""
    if not os.path.exists(path):
        open(path, "w").close()
    data = open(path, "rb").read()
    if data and not data.endswith(b"\n"):
        data = data[:data.rfind(b"\n") + 1]
        open(path, "wb").write(data)
    if not data.strip():
        open(path, "w").write('{"e":"Reset","x":0}\n')


def ring1(ctx, b):
    prog = build.compile_prog("sched", "pool_drv", ["pool_drv.c", "vs_sched.c"], extra_flags=["-I", os.path.join(build.REPO, "mtbl")])
    wd = ctx.sub("ring1")
    runs = 150 if ctx.quick() else 1500
    n = 0
    base = [(P, J, NC, ordered, mode, npre, sp, None)
            for (P, J, NC) in [(1, 3, 1), (2, 3, 1), (2, 4, 1), (3, 5, 1), (1, 2, 2), (2, 3, 2)] + ([] if ctx.quick() else [(3, 6, 2), (4, 8, 1), (2, 0, 1)])
            for ordered in ((1, 0, 2) if NC > 1 else (1, 0))        # 2: client 1 ordered (a writer), the others unordered (sorters)
            for (mode, npre, sp) in [(0, 0, 0), (0, 0, 20), (1, 2, 0), (1, 3, 10)]]
    # several caller threads waiting for a pool thread at the same time (a pool smaller than the number of callers, few jobs each, so
    # that one caller is done while another still waits)
    base += [(P, J, NC, ordered, mode, npre, 0, 1)
             for (P, J, NC) in [(2, 2, 2), (2, 3, 3)] + ([] if ctx.quick() else [(2, 3, 2), (3, 3, 3), (2, 2, 3)])
             for ordered in (1, 0, 2)
             for (mode, npre) in [(0, 0), (1, 3)]]
    # phase 1: run every configuration; phase 2: one TLC run over all logs (an execution starts with its own Cfg event), the
    # rejected line is mapped back to its configuration
    done = []            # (cfgd, out, nlines, returncode, stderr, runs)
    for (P, J, NC, ordered, mode, npre, sp, fconc) in base:
        out = os.path.join(wd, "p%d.ndjson" % n)
        seed0 = ctx.seed % 100000 + n * 7919
        conc = fconc if fconc is not None else (1 if (NC > 1 and n % 2 == 1) else 0)        # every client with a caller thread of its own / one caller thread
        nr = (300 if ctx.quick() else 1200) if fconc else runs
        p = subprocess.run([prog, out, str(P), str(J), str(ordered), str(NC), str(nr), str(seed0), str(sp), str(mode), str(npre), str(conc)],
                           stdout=subprocess.PIPE, stderr=subprocess.PIPE, text=True, timeout=600)
        ctx.add("schedules", nr)
        ctx.add("pool_configs", 1)
        _complete_lines(out)
        cfgd = {"max": P, "jobs": J, "clients": NC, "ordered": ["no", "yes", "client 1 only"][ordered], "mode": mode, "npreempt": npre, "spurious_pct": sp, "seed0": seed0, "caller_threads": NC if conc else 1}
        if n == 0:
            ctx.sample({"ring": 1, "cfg": cfgd, "events": [json.loads(x) for x in open(out).readlines()[:12]]})
        done.append((cfgd, out, sum(1 for _ in open(out)), p.returncode, p.stderr, nr))
        n += 1

    def complain(cfgd, out, why, depth=None):
        recs = [json.loads(x) for x in open(out)]
        ex = core.split_execs(recs)
        last = ex[-1] if ex else []
        if depth is not None:
            acc = 0
            for e in ex:
                if acc + len(e) >= depth:
                    last = e
                    break
                acc += len(e)
        core.report(ctx, "thread pool %s: %s" % (json.dumps(cfgd), why), {"kind": "trace", "module": "Trace_Pool", "trace": last, "line": len(last), "cfg": cfgd})

    for (cfgd, out, nl, rc, err, nr) in done:
        if rc != 0:
            complain(cfgd, out, "scheduler verdict: deadlock (no thread enabled)" if rc == 3 else "pool run ended with status %s: %s" % (rc, err[-300:]))
    good = [d for d in done if d[3] == 0]
    while good:
        allp = os.path.join(wd, "all.ndjson")
        with open(allp, "w") as f:
            for d in good:
                f.write(open(d[1]).read())
        ok, depth, r = core.validate_trace(allp, "Trace_Pool", timeout=1800)
        ctx.add("trace_events", sum(d[2] for d in good))
        if ok:
            ctx.add("traces_validated_against_impl", sum(d[5] for d in good))
            break
        acc = 0
        for k, d in enumerate(good):
            if acc + d[2] >= (depth or 1):
                complain(d[0], d[1], "events not explained by PoolAbs at line %s" % ((depth or 1) - acc), (depth or 1) - acc)
                ctx.add("traces_validated_against_impl", sum(x[5] for x in good[:k]))
                good = good[k + 1:]          # the configurations behind the rejected one are judged in another run
                break
            acc += d[2]
        else:
            break
    for d in done:
        if os.path.exists(d[1]):
            os.unlink(d[1])


def ring1_wide(ctx, b):
    """a pool of 260 threads with 260 jobs outstanding at once (counters and queues beyond 255 / 256 elements): the dispatcher runs
    ahead of the workers (preemption-bounded schedules keep the running thread), ordered and unordered"""
    prog = build.compile_prog("sched", "pool_drv", ["pool_drv.c", "vs_sched.c"], extra_flags=["-I", os.path.join(build.REPO, "mtbl")])
    wd = ctx.sub("ring1w")
    runs = 4 if ctx.quick() else 40
    for n, (P, J, ordered, mode, npre) in enumerate([(260, 260, 0, 2, 0), (260, 260, 1, 2, 0), (260, 260, 0, 1, 1), (260, 300, 0, 0, 0)]):
        out = os.path.join(wd, "w%d.ndjson" % n)
        seed0 = ctx.seed % 100000 + 977 * n
        if mode == 2:
            # no preemption at all, three fixed policies at blocking points (lowest thread first = the result handler before the
            # workers: it empties its queue as soon as anything is in it)
            p = subprocess.run([prog, out, "systematic", str(P), str(J), str(ordered), "1", "0", "0"], stdout=subprocess.PIPE, stderr=subprocess.PIPE, text=True, timeout=1200)
        else:
            p = subprocess.run([prog, out, str(P), str(J), str(ordered), "1", str(runs), str(seed0), "0", str(mode), str(npre), "0"],
                               stdout=subprocess.PIPE, stderr=subprocess.PIPE, text=True, timeout=1200)
        ctx.add("schedules", runs if mode != 2 else 3)
        ok, depth = False, 0
        if p.returncode == 0 and os.path.exists(out) and os.path.getsize(out) > 0:
            ok, depth, r = core.validate_trace(out, "Trace_Pool", timeout=900)
        cfgd = {"max": P, "jobs": J, "clients": 1, "ordered": ["no", "yes"][ordered], "mode": mode, "npreempt": npre, "seed0": seed0}
        if p.returncode != 0 or not ok:
            recs = []
            for x in (open(out) if os.path.exists(out) else []):
                try:
                    recs.append(json.loads(x))
                except ValueError:
                    pass
            ex = core.split_execs(recs)
            last = ex[-1] if ex else []
            if p.returncode == 0 and not ok:
                acc = 0
                for e in ex:
                    if acc + len(e) >= depth:
                        last = e
                        break
                    acc += len(e)
            why = "scheduler verdict: deadlock (no thread enabled)" if p.returncode == 3 else ("pool run ended with status %s: %s" % (p.returncode, p.stderr[-300:]) if p.returncode != 0 else "events not explained by PoolAbs at line %s" % depth)
            core.report(ctx, "thread pool %s: %s" % (json.dumps(cfgd), why), {"kind": "trace", "module": "Trace_Pool", "trace": last[-400:], "line": len(last[-400:]), "cfg": cfgd})
        else:
            ctx.add("traces_validated_against_impl", runs)
        if os.path.exists(out):
            os.unlink(out)


def ring1_systematic(ctx, b):
    """every schedule with at most `bound` preemptions (under three fixed policies for the choices at blocking points)"""
    prog = build.compile_prog("sched", "pool_drv", ["pool_drv.c", "vs_sched.c"], extra_flags=["-I", os.path.join(build.REPO, "mtbl")])
    wd = ctx.sub("ring1s")
    plan = [(1, 2, 1, 1, 2), (2, 2, 0, 1, 2), (2, 3, 1, 1, 1), (2, 3, 0, 1, 1), (1, 2, 1, 2, 1), (2, 2, 0, 2, 1), (2, 2, 2, 2, 1)]
    if not ctx.quick():
        plan += [(2, 2, 1, 1, 2), (1, 2, 2, 2, 1), (2, 3, 1, 1, 2), (2, 3, 0, 1, 2), (3, 3, 0, 1, 2), (2, 2, 1, 2, 2), (3, 4, 1, 1, 1)]
    for n, (P, J, ordered, NC, bound) in enumerate(plan):
        out = os.path.join(wd, "s%d.ndjson" % n)
        conc = 1 if (NC > 1 and n % 2 == 1) else 0
        p = subprocess.run([prog, out, "systematic", str(P), str(J), str(ordered), str(NC), str(bound), str(conc)], stdout=subprocess.PIPE, stderr=subprocess.PIPE, text=True, timeout=3000)
        m = __import__("re").search(r"systematic: (\d+) schedules", p.stderr)
        nsch = int(m.group(1)) if m else 0
        ctx.add("schedules", nsch)
        ctx.add("systematic_schedules", nsch)
        cfgd = {"max": P, "jobs": J, "clients": NC, "ordered": ["no", "yes", "client 1 only"][ordered], "preemption_bound": bound, "caller_threads": NC if conc else 1}
        _complete_lines(out)
        ok, depth, r = core.validate_trace(out, "Trace_Pool", timeout=3000)
        if p.returncode != 0 or not ok:
            recs = [json.loads(x) for x in open(out)]
            ex = core.split_execs(recs)
            last = ex[-1] if ex else []
            if p.returncode == 0 and not ok:
                acc = 0
                for e in ex:
                    if acc + len(e) >= depth:
                        last = e
                        break
                    acc += len(e)
            why = "scheduler verdict: deadlock (no thread enabled)" if p.returncode == 3 else ("ended with status %s: %s" % (p.returncode, p.stderr[-300:]) if p.returncode != 0 else "events not explained by PoolAbs at line %s" % depth)
            core.report(ctx, "thread pool, systematic schedules %s: %s" % (json.dumps(cfgd), why), {"kind": "trace", "module": "Trace_Pool", "trace": last, "line": len(last), "cfg": cfgd})
        else:
            ctx.add("traces_validated_against_impl", nsch)
        os.unlink(out)


def ring1_model_replay(ctx, b):
    """TLC -> implementation at lock granularity: behaviours of ThreadPool.tla (ThreadPoolH = the same model with a history of
    mutex acquisitions) are replayed on the real threadpool.c - the scheduler admits a lock / re-acquire only in the model's
    order. A behaviour the real code cannot follow, or a different delivery order, is recorded as model_drift (not a verdict);
    the abstract events of every replayed behaviour are judged by PoolAbs as usual."""
    import re
    prog = build.compile_prog("sched", "pool_drv", ["pool_drv.c", "vs_sched.c"], extra_flags=["-I", os.path.join(build.REPO, "mtbl")])
    wd = ctx.sub("replay")
    cap = 1500 if ctx.quick() else 20000
    for (MT, J, ordered) in [(2, 3, False), (2, 3, True)] + ([] if ctx.quick() else [(3, 3, False), (1, 3, True)]):
        cfgp = os.path.join(wd, "H.cfg")
        open(cfgp, "w").write("SPECIFICATION Spec\nCONSTANTS MaxThreads = %d NC = 1 Jobs = %d Ordered = %s MaxSpurious = 0 Mixed = FALSE defaultInitValue = defaultInitValue\nINVARIANT DumpHist\nCHECK_DEADLOCK FALSE\n" % (MT, J, "TRUE" if ordered else "FALSE"))
        r = core.tlc("ThreadPoolH", cfgp, workers=2, simulate="num=%d" % (40 if ctx.quick() else 400), extra=["-depth", "500", "-seed", str(ctx.seed)], timeout=1200)
        if r.inv_violated or r.error:
            raise core.Infra("ThreadPoolH simulation failed:\n" + r.out[-2000:])
        seen, beh = set(), []
        for m in re.finditer(r'<<\s*"HIST",(.*?)>>\s*>>\s*\n(?=\S|$)', r.out, re.S):
            txt = re.sub(r"\s+", "", m.group(1))
            if txt in seen:
                continue
            seen.add(txt)
            acq = re.findall(r'<<(\d+),<<"(\w+)",(\d+)>>>>', txt)
            tail = txt[txt.rfind(">>>>") + 4:]
            deliv = [int(x) for x in re.findall(r"\d+", tail)]
            beh.append((acq, deliv))
            if len(beh) >= cap:
                break

        def tid(p):
            p = int(p)
            return 0 if p == MT + 1 else 1 if p == MT + 2 else 1 + p

        def mid(k, i):
            return 0 if k == "pool" else 1 if k == "rq" else 1 + int(i)
        bf = os.path.join(wd, "lo.txt")
        with open(bf, "w") as f:
            for acq, _ in beh:
                f.write("%d %d %d %d %s\n" % (MT, J, 1 if ordered else 0, len(acq), " ".join("%d %d" % (tid(p), mid(k, i)) for p, k, i in acq)))
        out = os.path.join(wd, "lo.ndjson")
        p = subprocess.run([prog, out, "lockorder", bf], stdout=subprocess.PIPE, stderr=subprocess.PIPE, text=True, timeout=1200)
        recs = [json.loads(x) for x in open(out)]
        execs = core.split_execs(recs)
        drift = 0
        for ex, (acq, deliv) in zip(execs, beh):
            lo = [e for e in ex if e["e"] == "LockOrder"]
            real = [e["j"] for e in ex if e["e"] == "Deliver"]
            if not lo or lo[0]["left"] != 0 or (deliv and real != deliv):
                drift += 1
        if p.returncode == 4:
            drift += 1
        ctx.add("model_behaviours_replayed", len(execs))
        ctx.add("model_drift", drift)
        ctx.add("schedules", len(execs))
        if p.returncode not in (0, 4):
            core.report(ctx, "thread pool under a model behaviour's lock order (pool %d, jobs %d, ordered %s) ended with status %s: %s" % (MT, J, ordered, p.returncode, p.stderr[-300:]),
                        {"kind": "abnormal", "why": "status %s" % p.returncode, "stderr": p.stderr[-1500:]})
        _complete_lines(out)
        ok, depth, rr = core.validate_trace(out, "Trace_Pool", timeout=1800)
        if not ok:
            acc, last = 0, []
            for e in execs:
                if acc + len(e) >= depth:
                    last = e
                    break
                acc += len(e)
            core.report(ctx, "thread pool under a model behaviour's lock order: events not explained by PoolAbs at line %s" % depth, {"kind": "trace", "module": "Trace_Pool", "trace": last, "line": len(last)})
        else:
            ctx.add("traces_validated_against_impl", len(execs))
    ctx.cov.setdefault("model_drift", 0)


STEP_OPS = {1: "start", 2: "lock", 3: "unlock", 4: "cwrel", 5: "cwacq", 6: "signal", 7: "create", 8: "join"}


def convert_steps(path):
    """scheduler step log -> executions of pthread-call events (the post-unlock scheduling point is not a call)"""
    execs, cur = [], None
    for line in open(path):
        try:
            e = json.loads(line)
        except ValueError:
            continue
        if e["e"] == "begin":
            cur = []
            execs.append(cur)
        elif cur is None:
            continue
        elif e["e"] == "step":
            if e["op"] in STEP_OPS:
                cur.append({"e": STEP_OPS[e["op"]], "t": e["t"], "o1": e.get("o1", 0), "o2": e.get("o2", 0), "w": 99})
        elif e["e"] == "wake":
            if cur and cur[-1]["e"] == "signal" and cur[-1]["o1"] == e["c"] and cur[-1]["w"] == 99:
                cur[-1]["w"] = e["t"]
            else:       # a second thread woken by one call (broadcast): no counterpart in the model
                cur.append({"e": "signal", "t": cur[-1]["t"] if cur else 0, "o1": e["c"], "o2": 0, "w": e["t"]})
        elif e["e"] == "exit":
            cur.append({"e": "exit", "t": e["t"], "o1": 0, "o2": 0, "w": 99})
        elif e["e"] == "spurious":
            cur.append({"e": "spurious", "t": 0, "o1": e["c"], "o2": 0, "w": e["t"]})
    return execs


def validate_steps(ctx, wd, execs, MT, J, ordered, tag):
    """-> (number of executions that are behaviours of ThreadPool.tla, list of (index, furthest line) of the others)"""
    if not execs:
        return 0, []
    tp = os.path.join(wd, "steps_%s.ndjson" % tag)
    with open(tp, "w") as f:
        for i, ev in enumerate(execs):
            f.write(json.dumps({"x": i + 1, "ev": ev}, separators=(",", ":")) + "\n")
    cfgp = os.path.join(wd, "steps_%s.cfg" % tag)
    tmpl = open(os.path.join(core.SPEC, "Trace_TPSteps.cfg.tmpl")).read()
    open(cfgp, "w").write(tmpl.replace("@MT@", str(MT)).replace("@J@", str(J)).replace("@ORD@", "TRUE" if ordered else "FALSE"))
    r = core.tlc("Trace_TPSteps", cfgp, workers=1, timeout=1800, env={"TRACE": tp}, extra=["-nowarning"])
    os.unlink(tp)
    import re
    m = re.search(r'"REJECTED",\s*\{(.*?)\}\s*>>', r.out, re.S)
    if r.ok and not m:
        return len(execs), []
    if not m:
        raise core.Infra("Trace_TPSteps run failed:\n" + r.out[-2500:])
    bad = [(int(a), int(b_)) for a, b_ in re.findall(r"<<(\d+),\s*(\d+)>>", m.group(1))]
    return len(execs) - len(bad), bad


def ring1_steps(ctx, b):
    """code -> TLC at pthread-call granularity: the scheduler's log of every pthread call the real threadpool.c made
    (with the thread each signal woke) must be a behaviour of ThreadPool.tla (Trace_TPSteps). A rejected execution means the
    model no longer describes the code (model_drift, reported in the evidence; the verdicts rest on PoolAbs)."""
    prog = build.compile_prog("sched", "pool_drv", ["pool_drv.c", "vs_sched.c"], extra_flags=["-I", os.path.join(build.REPO, "mtbl")])
    wd = ctx.sub("steps")
    runs = 25 if ctx.quick() else 250
    n = 0
    for (P, J) in [(1, 2), (2, 3), (3, 4)] + ([] if ctx.quick() else [(2, 6), (4, 5), (1, 0)]):
        for ordered in (1, 0):
            for (mode, npre, sp) in [(0, 0, 0), (0, 0, 20), (1, 3, 0)]:
                out = os.path.join(wd, "e.ndjson")
                lg = os.path.join(wd, "steps.log")
                if os.path.exists(lg):
                    os.unlink(lg)
                seed0 = ctx.seed % 100000 + 31 * n
                p = subprocess.run([prog, out, str(P), str(J), str(ordered), "1", str(runs), str(seed0), str(sp), str(mode), str(npre)],
                                   stdout=subprocess.PIPE, stderr=subprocess.PIPE, text=True, timeout=600, env=dict(os.environ, VS_LOG=lg))
                n += 1
                if p.returncode != 0:
                    continue            # deadlocks / crashes are judged by ring 1
                execs = convert_steps(lg)
                good, bad = validate_steps(ctx, wd, execs, P, J, ordered, "r1")
                ctx.add("step_traces_conforming", good)
                ctx.add("step_trace_events", sum(len(e) for e in execs))
                ctx.add("model_drift_steps", len(bad))
                if bad and len(ctx.notes) < 6:
                    x, ln = bad[0]
                    ctx.notes.append("ThreadPool.tla does not explain pthread call %d of an execution (pool %d, jobs %d, ordered %d, seed %d+%d): %s" % (
                        ln, P, J, ordered, seed0, x - 1, json.dumps(execs[x - 1][ln - 1]) if ln - 1 < len(execs[x - 1]) else "end"))
    ctx.cov.setdefault("model_drift_steps", 0)


def steps_of_run(ctx, wd, lg, MT, ordered, tag, every=1):
    """pthread-call traces of pooled writers / sorters (one pool, one client) against ThreadPool.tla; Jobs = number of dispatches"""
    if not os.path.exists(lg):
        return
    execs = convert_steps(lg)[::every]
    os.unlink(lg)
    groups = {}
    for e in execs:
        if not any(x["e"] == "exit" and x["t"] == 1 for x in e):
            continue                    # the run did not complete (judged elsewhere)
        J = sum(1 for x in e if x["e"] == "lock" and x["t"] == 0 and x["o1"] == 1) - 1
        groups.setdefault(J, []).append(e)
    for J, es in sorted(groups.items()):
        if J < 0:
            continue
        good, bad = validate_steps(ctx, wd, es, MT, J, ordered, tag)
        ctx.add("step_traces_conforming", good)
        ctx.add("step_trace_events", sum(len(e) for e in es))
        ctx.add("model_drift_steps", len(bad))
        if bad and len(ctx.notes) < 6:
            x, ln = bad[0]
            ctx.notes.append("ThreadPool.tla does not explain pthread call %d of a pooled %s execution (pool %d, %d dispatches): %s" % (
                ln, "writer" if ordered else "sorter", MT, J, json.dumps(es[x - 1][ln - 1]) if ln - 1 < len(es[x - 1]) else "end"))


def ring2(ctx, b):
    """pooled writers under the scheduler: file identical to the pool-less file"""
    rng = ctx.rng
    wd = ctx.sub("ring2")
    plain = build.build("asan")
    comps = ["zlib", "none"] if ctx.quick() else gen.COMPS
    nsched = 30 if ctx.quick() else 130
    recs = []
    for comp in comps:
        vg = gen.VGen(31000)
        entries = [(("k%04d" % i).encode(), vg.val(rng.choice([100, 300, 500]))) for i in range(24)]
        ref = os.path.join(wd, "ref_%s.mtbl" % comp)
        if os.path.exists(ref):
            os.unlink(ref)
        evs, rc, err = core.run_drv(plain, "\n".join(["scratch " + wd] + gen.write_table_lines(0, ref, gen.writer_cfg(comp=comp), entries)) + "\n", wd, "ref")
        if rc != 0:
            raise core.Infra("reference writer run failed: " + err[-500:])
        for P in (1, 2, 3):
            for (mode, npre, sp) in [(0, 0, 10), (1, 3, 0)]:
                lines = []
                paths = []
                for k in range(nsched):
                    pth = os.path.join(wd, "w_%s_%d_%d_%d.mtbl" % (comp, P, mode, k))
                    if os.path.exists(pth):
                        os.unlink(pth)
                    paths.append(pth)
                    cfg = gen.writer_cfg(comp=comp, pool=0)
                    lines += ["scratch " + wd, "pool_init 0 %d" % P] + gen.write_table_lines(0, pth, cfg, entries) + ["pool_destroy 0", "---"]
                seed0 = ctx.seed % 100000 + P * 1000 + mode * 100
                lg = os.path.join(wd, "steps.log")
                if os.path.exists(lg):
                    os.unlink(lg)
                evs, rc, err = core.run_drv(b, "\n".join(lines) + "\n", wd, "s", fork=True, timeout=1200,
                                            env={"VS_SEED": str(seed0), "VS_SPUR": str(sp), "VS_MODE": str(mode), "VS_NPRE": str(npre), "VS_LOG": lg})
                steps_of_run(ctx, wd, lg, P, True, "w")
                cur = None
                k = -1
                for e in evs:
                    if e["e"] == "Reset":
                        k = e["x"]
                        cur = {"maxlive": 0, "deadlock": False}
                    elif e["e"] == "Sched":
                        cur["maxlive"] = e["maxlive"]
                    elif e["e"] == "Deadlock":
                        cur["deadlock"] = True
                    elif e["e"] == "Exit":
                        ex = "ok" if (e["code"] == 0 and e["sig"] == 0) else ("deadlock" if (cur["deadlock"] or e["code"] == 3) else "abort")
                        same = os.path.exists(paths[k]) and filecmp.cmp(paths[k], ref, shallow=False)
                        recs.append({"e": "Reset", "x": len(recs)})
                        recs.append({"e": "FileSame", "same": bool(same), "exit": ex, "maxlive": cur["maxlive"], "max": P, "comp": comp, "seed": seed0 + k, "mode": mode, "npre": npre, "spur": sp})
                        ctx.add("schedules", 1)
                        ctx.add("writer_schedules", 1)
                        if os.path.exists(paths[k]):
                            os.unlink(paths[k])
    ctx.sample({"ring": 2, "example": recs[1]})
    for ex, line in core.validate_batch(ctx, recs, "ring2", module="Trace_Pool"):
        core.report(ctx, "pooled writer under schedule %s: %s" % (json.dumps({k: v for k, v in ex[-1].items() if k != "e"}), "file differs from the pool-less file" if ex[-1].get("exit") == "ok" else "run ended with " + str(ex[-1].get("exit"))),
                    {"kind": "trace", "module": "Trace_Pool", "trace": ex, "line": line})


def systematic_clients(ctx, b):
    """pooled writers and pooled sorters under every schedule with at most one preemption (thorough: two, for the smallest
    cases): the run is preemption-free except at chosen scheduling steps, where another enabled thread is taken; the choices
    at blocking points follow three fixed policies. Writers: file identical to the pool-less file; sorters: abstract sorter."""
    rng = ctx.rng
    wd = ctx.sub("sysc")
    plain = build.build("asan")
    vg = gen.VGen(33000)
    cases = []
    for P in ((2,) if ctx.quick() else (1, 2, 3)):
        entries = [(("k%02d" % i).encode(), vg.val(450)) for i in range(4 if ctx.quick() else 5)]
        for comp in (["zlib"] if ctx.quick() else ["zlib", "none"]):
            ref = os.path.join(wd, "ref_%s_%d.mtbl" % (comp, P))
            if os.path.exists(ref):
                os.unlink(ref)
            evs, rc, err = core.run_drv(plain, "\n".join(["scratch " + wd] + gen.write_table_lines(0, ref, gen.writer_cfg(comp=comp), entries)) + "\n", wd, "ref")
            if rc != 0:
                raise core.Infra("reference writer run failed: " + err[-500:])
            cases.append(("writer", P, comp, entries, ref))
        adds = [(rng.choice([b"", b"a", b"ab", b"b"]), 2 * i + 1) for i in range(4 if ctx.quick() else 5)]
        cases.append(("sorter", P, None, adds, None))

    def body(kind, P, comp, data, pth, tmp):
        if kind == "writer":
            return ["scratch " + wd, "pool_init 0 %d" % P] + gen.write_table_lines(0, pth, gen.writer_cfg(comp=comp, pool=0), data) + ["pool_destroy 0"]
        L = ["scratch " + wd, "pool_init 0 %d" % P, "s_init 0 40 %s 1 -1 0" % tmp]
        for k, tok in data:
            L.append("s_add 0 %s T%d,%d" % (shapes.hexs(k), tok, tok + 1))
        return L + ["s_iter 0 1", "it_drain 1", "it_destroy 1", "s_destroy 0", "pool_destroy 0"]

    for ci, (kind, P, comp, data, ref) in enumerate(cases):
        tmp = os.path.join(wd, "t%d" % ci)
        os.makedirs(tmp, exist_ok=True)
        # base runs: one per policy, to learn the number of scheduling steps
        plans = []
        for policy in ((0, 2) if ctx.quick() else (0, 1, 2)):
            pth = os.path.join(wd, "c%d_base%d.mtbl" % (ci, policy))
            if os.path.exists(pth):
                os.unlink(pth)
            evs, rc, err = core.run_drv(b, "\n".join(["sched_dec %d" % policy] + body(kind, P, comp, data, pth, tmp) + ["---"]) + "\n", wd, "base", fork=True, timeout=300)
            st = [e for e in evs if e["e"] == "Sched"]
            nsteps = st[0]["steps"] if st else 0
            plans.append((policy, [], pth))
            for s_ in range(nsteps):
                for c_ in range(3):
                    plans.append((policy, [(s_, c_)], None))
            if not ctx.quick() and P == 1 and kind == "writer" and comp == "zlib":
                for s_ in range(0, nsteps, 4):
                    for s2 in range(s_ + 1, min(nsteps, s_ + 30), 2):
                        plans.append((policy, [(s_, 0), (s2, 0)], None))
        lines, paths = [], []
        for k, (policy, decs, pth0) in enumerate(plans):
            pth = os.path.join(wd, "c%d_%d.mtbl" % (ci, k))
            if os.path.exists(pth):
                os.unlink(pth)
            paths.append(pth)
            lines += ["sched_dec %d %s" % (policy, " ".join("%d:%d" % d for d in decs))] + body(kind, P, comp, data, pth, tmp) + ["---"]
        lg = os.path.join(wd, "steps.log")
        if os.path.exists(lg):
            os.unlink(lg)
        evs, rc, err = core.run_drv(b, "\n".join(lines) + "\n", wd, "sys%d" % ci, fork=True, timeout=3000, env={"VS_LOG": lg})
        steps_of_run(ctx, wd, lg, P, kind == "writer", "y", every=5 if ctx.quick() else 3)
        recs = core.convert_events(evs)
        out = []
        for ex in core.split_execs(recs):
            k = ex[0].get("x", 0)
            policy, decs, _ = plans[k]
            sch = [e for e in ex if e["e"] == "Sched"]
            ext = [e for e in ex if e["e"] == "Exit"]
            if sch and sch[0].get("invalid"):
                if os.path.exists(paths[k]):
                    os.unlink(paths[k])
                continue                # no such alternative at that step: the schedule equals one already explored
            ctx.add("schedules", 1)
            ctx.add("systematic_client_schedules", 1)
            bad = ext and (ext[0]["code"] != 0 or ext[0]["sig"] != 0)
            if bad:
                dl = any(e["e"] == "Deadlock" for e in ex) or ext[0]["code"] == 3
                core.report(ctx, "pooled %s (pool %d) under the schedule with preemptions %s, policy %d: %s" % (kind, P, decs, policy, "scheduler verdict: deadlock" if dl else "ended with code %s signal %s" % (ext[0]["code"], ext[0]["sig"])),
                            {"kind": "abnormal", "why": "deadlock" if dl else "abnormal end", "pool": P, "decisions": decs, "policy": policy})
            elif kind == "writer":
                same = os.path.exists(paths[k]) and filecmp.cmp(paths[k], ref, shallow=False)
                if not same:
                    core.report(ctx, "pooled writer (pool %d, %s) under the schedule with preemptions %s, policy %d: file differs from the pool-less file" % (P, comp, decs, policy),
                                {"kind": "abnormal", "why": "file differs", "pool": P, "decisions": decs, "policy": policy})
            else:
                out += [e for e in ex if e["e"] not in ("Sched", "Deadlock")]
            if os.path.exists(paths[k]):
                os.unlink(paths[k])
        if out:
            for ex, line in core.validate_batch(ctx, out, "sysc%d" % ci):
                core.report(ctx, "pooled sorter under a systematic schedule: output differs from the abstract sorter at trace line %d: %s" % (line, json.dumps(ex[line - 1])[:300]), {"kind": "trace", "trace": ex, "line": line})


def ring3(ctx, b):
    """pooled sorters under the scheduler, judged by the abstract sorter (Trace_Mtbl)"""
    rng = ctx.rng
    wd = ctx.sub("ring3")
    nsched = 25 if ctx.quick() else 300
    for P in (1, 2, 3):
        lines = []
        for k in range(nsched):
            tmp = os.path.join(wd, "t%d_%d" % (P, k))
            os.makedirs(tmp, exist_ok=True)
            L = ["scratch " + wd, "pool_init 0 %d" % P, "s_init 0 %d %s 1 -1 0" % (rng.choice([30, 60, 100]), tmp)]
            tok = 1
            for a in range(rng.choice([4, 8, 14])):
                key = rng.choice([b"", b"a", b"ab", b"b", b"c"])
                L.append("s_add 0 %s T%d,%d" % (shapes.hexs(key), tok, tok + 1))
                tok += 2
            if k % 3 == 2:
                # destroyed without ever being iterated or written, chunk jobs possibly still in flight: must return as well
                L += ["s_destroy 0", "pool_destroy 0", "---"]
            elif k % 3 == 1:
                # written into a writer right after the last add (chunk jobs possibly still in flight), then read back
                outp = os.path.join(tmp, "out.mtbl")
                L += ["w_init 5 %s none default 1024 2 -1 0" % outp, "s_write 0 5", "w_close 5", "r_init 5 %s 1 0" % outp, "it_iter 2 r:5", "it_drain 2", "it_destroy 2", "r_destroy 5",
                      "s_destroy 0", "pool_destroy 0", "---"]
            else:
                L += ["s_iter 0 1", "it_drain 1", "it_destroy 1", "s_destroy 0", "pool_destroy 0", "---"]
            lines += L
        seed0 = ctx.seed % 100000 + 50000 + P
        lg = os.path.join(wd, "steps.log")
        if os.path.exists(lg):
            os.unlink(lg)
        evs, rc, err = core.run_drv(b, "\n".join(lines) + "\n", wd, "s%d" % P, fork=True, timeout=1200,
                                    env={"VS_SEED": str(seed0), "VS_SPUR": "10", "VS_MODE": str(P % 2), "VS_NPRE": "3", "VS_LOG": lg})
        steps_of_run(ctx, wd, lg, P, False, "s")
        recs = core.convert_events(evs)
        out = []
        for ex in core.split_execs(recs):
            ext = [e for e in ex if e["e"] == "Exit"]
            ctx.add("schedules", 1)
            ctx.add("sorter_schedules", 1)
            if ext and (ext[0]["code"] != 0 or ext[0]["sig"] != 0):
                dl = any(e["e"] == "Deadlock" for e in ex) or ext[0]["code"] == 3
                core.report(ctx, "pooled sorter (pool %d, seed %d+%d): %s" % (P, seed0, ex[0].get("x", 0), "scheduler verdict: deadlock" if dl else "ended with code %s signal %s" % (ext[0]["code"], ext[0]["sig"])),
                            {"kind": "abnormal", "why": "deadlock" if dl else "abnormal end", "pool": P, "seed": seed0 + ex[0].get("x", 0)})
                continue
            out += [e for e in ex if e["e"] not in ("Sched", "Deadlock")]
        for ex, line in core.validate_batch(ctx, out, "ring3_%d" % P):
            core.report(ctx, "pooled sorter output differs from the abstract sorter at trace line %d: %s" % (line, json.dumps(ex[line - 1])[:300]), {"kind": "trace", "trace": ex, "line": line})


def real_threads(ctx):
    """pools 1..8 with real threads (true parallelism: several job callbacks run at once, which the deterministic scheduler
    never does) under a watchdog: close/destroy must return and the file must be the pool-less file, every compression type"""
    b = build.build("asan")
    rng = ctx.rng
    wd = ctx.sub("real")
    lines, meta = [], []
    vg = gen.VGen(77000)
    entries = [(("r%04d" % i).encode(), vg.val(400)) for i in range(60)]
    refs = {}
    for comp in gen.COMPS:
        ref = os.path.join(wd, "ref_%s.mtbl" % comp)
        if os.path.exists(ref):
            os.unlink(ref)
        evs, rc, err = core.run_drv(b, "\n".join(["scratch " + wd] + gen.write_table_lines(0, ref, gen.writer_cfg(comp=comp), entries)) + "\n", wd, "ref")
        if rc != 0:
            raise core.Infra("reference writer run failed: " + err[-500:])
        refs[comp] = ref
    for comp in gen.COMPS:
        for P in ([2, 8] if ctx.quick() else [1, 2, 3, 4, 5, 6, 7, 8]):
            for rep in range(3 if ctx.quick() else 12):
                pth = os.path.join(wd, "r_%s_%d_%d.mtbl" % (comp, P, rep))
                if os.path.exists(pth):
                    os.unlink(pth)
                lines += ["scratch " + wd, "pool_init 0 %d" % P] + gen.write_table_lines(0, pth, gen.writer_cfg(comp=comp, pool=0), entries) + ["pool_destroy 0", "---"]
                meta.append((comp, P, pth))
    evs, rc, err = core.run_drv(b, "\n".join(lines) + "\n", wd, "real", fork=True, timeout=1200, env={"VS_EXEC_TIMEOUT": "60"})
    if rc == -999:
        core.report(ctx, "pooled writer with real threads did not return within the watchdog time (hang)", {"kind": "abnormal", "why": "timeout"})
    k = -1
    for e in evs:
        if e["e"] == "Reset":
            k = e["x"]
        elif e["e"] == "Exit":
            comp, P, pth = meta[k]
            ctx.add("real_thread_runs", 1)
            if e["code"] != 0 or e["sig"] != 0:
                core.report(ctx, "pooled writer (%s, pool %d) with real threads %s" % (comp, P, "did not return within the watchdog time" if e["sig"] == 14 else "ended with code %s signal %s" % (e["code"], e["sig"])),
                            {"kind": "abnormal", "why": "code %s sig %s" % (e["code"], e["sig"]), "comp": comp, "pool": P})
            elif not (os.path.exists(pth) and filecmp.cmp(pth, refs[comp], shallow=False)):
                core.report(ctx, "pooled writer (%s, pool %d) with real threads: file differs from the pool-less file" % (comp, P),
                            {"kind": "abnormal", "why": "file differs", "comp": comp, "pool": P})
            if os.path.exists(pth):
                os.unlink(pth)


def run(ctx):
    b = build.build("sched")
    import time
    phases = {}
    for name, fn in (("tlc_models", lambda: tlc_models(ctx)), ("ring1", lambda: ring1(ctx, b)), ("ring1_wide", lambda: ring1_wide(ctx, b)),
                     ("ring1_systematic", lambda: ring1_systematic(ctx, b)), ("ring1_model_replay", lambda: ring1_model_replay(ctx, b)),
                     ("ring1_steps", lambda: ring1_steps(ctx, b)), ("ring2", lambda: ring2(ctx, b)), ("ring3", lambda: ring3(ctx, b)),
                     ("systematic_clients", lambda: systematic_clients(ctx, b)), ("real_threads", lambda: real_threads(ctx))):
        t0 = time.time()
        fn()
        phases[name] = round(time.time() - t0)
        core.dbg("C13 phase %s %ds" % (name, phases[name]))
    ctx.cov["phase_seconds"] = phases
    cov = {"states": ctx.cov.get("states", 0), "transitions": ctx.cov.get("transitions", 0),
           "traces_validated_against_impl": ctx.cov.get("traces_validated_against_impl", 0),
           "evaluations": ctx.cov.get("schedules", 0), "distinct_nontrivial": ctx.cov.get("schedules", 0), "exhaustive": False}
    ctx.assumptions += ["interleavings are explored at pthread-call granularity plus the points after each unlock and after each create; complete only if the code between two such points is race-free (C14)",
                        "pool alone: every schedule with at most 1-2 preemptions is enumerated for the small configurations (three fixed policies at blocking points); otherwise schedules are seeded (uniform, and with up to 3 forced preemptions)"]
    return core.finish(ctx, LEVEL, cov, rule="schedules = complete pool life cycles under the deterministic scheduler (pool alone: PoolAbs events; pooled writers: file identity; pooled sorters: abstract sorter), distinct seeds")


def replay(ctx, path):
    obj = json.load(open(path))
    if obj.get("kind") != "trace":
        print("replay: %s" % json.dumps(obj)[:500]); ctx.cleanup(); return 1
    p = os.path.join(ctx.sub("replay"), "t.ndjson")
    core.write_trace(p, obj["trace"])
    ok, depth, r = core.validate_trace(p, obj.get("module", "Trace_Mtbl"))
    print("replay: trace %s (depth %s of %d lines)" % ("accepted" if ok else "rejected", depth, len(obj["trace"])))
    ctx.cleanup()
    return 0 if ok else 1
