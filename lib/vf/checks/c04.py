"""C04 Merger output is the sorted union of its sources, folded by the merge function.

Specification: Table!MergeFold (one entry per distinct key, value = bag union of all values for the key, n values
folded) and AllSorted (no merge function: every source entry, equal keys in dupsort order when set); Mtbl!CallsOk
(producing an entry folded from n values takes exactly n-1 calls of the merge function, all for that key);
EntryFails (a failing merge function makes the call that would have produced the key fail). MC_Merger checks that the
implementation-shaped merger (heap, pending, cur_key) produces exactly this for every family within bounds, in the
four modes, including the number of merge calls.
Binding: families (empty tables, identical, disjoint, interleaved, empty key, up to 8 sources) are materialised as real
tables / user-defined sources / mergers of mergers; full iteration, mtbl_source_write into a writer, and the operands
seen by the merge callback are logged and validated by TLC."""
import os, json
from .. import core, build, gen, shapes, mergerside as M, projection as P


def one_family(ctx, b, n, fam, merge, dupsort, variant, failtok=-1, srcwrite=False):
    rng = ctx.rng
    wd = ctx.sub("f%d" % n)
    L = M.setup_lines(wd, fam, variant, merge, dupsort, failtok=failtok, comp=rng.choice(gen.COMPS), twice=(n % 8 == 6))
    L += ["it_iter 1 m:0", "it_drain 1", "it_destroy 1"]
    if failtok < 0 and n % 3 == 1:
        # several iterators of one merger alive at once, advanced in turn (each keeps its own position and its own buffers)
        L += ["it_iter 1 m:0", "it_iter 2 m:0", "it_next 1 %d" % rng.randint(0, 3), "it_iter 3 m:0"]
        for _ in range(rng.randint(2, 6)):
            L += ["it_next %d %d" % (rng.choice([1, 2, 3]), rng.randint(1, 3))]
        order = [1, 2, 3]
        rng.shuffle(order)
        for i in order:
            L += ["it_drain %d" % i, "it_destroy %d" % i]
    if failtok < 0:
        L += ["it_iter 1 m:0", "it_next 1 3", "it_destroy 1"]            # abandoned iterator
    out = os.path.join(wd, "out.mtbl")
    if srcwrite and failtok < 0 and (merge or True):
        if os.path.exists(out):
            os.unlink(out)
        L += ["w_init 9 %s none default 1024 2 -1 0" % out, "src_write m:0 9", "w_close 9", "r_init 9 %s 1 0" % out,
              "it_iter 2 r:9", "it_drain 2", "it_destroy 2", "r_destroy 9"]
    L += M.teardown_lines(fam, variant)
    recs, rc, err = M.run_script(ctx, b, wd, L, "f")
    ctx.add("families", 1)
    keys = set(k for src in fam for k, _ in src)
    occ = sum(len(src) for src in fam)
    if occ > len(keys):
        ctx.add("families_with_shared_keys", 1)
    if rc != 0:
        core.report(ctx, "driver ended abnormally (rc=%s): %s" % (rc, err[-1500:]), {"kind": "script", "script": L, "stderr": err[-3000:]})
        return None
    return recs


def run(ctx):
    b = build.build("asan")
    rng = ctx.rng
    # design level: the four modes on a fixed small family, exhaustive; plus regression F2
    wd = ctx.sub("mc")
    fam0 = [[(b"", [1]), (b"a", [2]), (b"ab", [3]), (b"ba", [4])], [(b"a", [5]), (b"aa", [6]), (b"ba", [7]), (b"bb", [8])], [(b"ab", [9])], []]
    targets = M.fam_targets(fam0, rng, cap=9)
    bounds = M.fam_bounds(fam0, targets, rng)
    for (mg, ds) in M.MODES:
        r, _ = M.model_graph(ctx, wd, fam0, targets, bounds, mg, ds, dump=False, name="MC%d%d" % (mg, ds))
        if not r.ok:
            raise core.Infra("MC_Merger does not hold (specification problem):\n" + r.out[-3000:])
        ctx.add("states", r.distinct)
        ctx.add("transitions", r.generated)
    r2, _ = M.model_graph(ctx, wd, fam0, targets, bounds, 1, 0, dump=False, fixf2=False, name="R2")
    ctx.cov["regression_FixF2_FALSE_fails"] = bool(r2.inv_violated)
    nfam = 120 if ctx.quick() else 1500
    allrecs = []
    meta = []
    variants = ["readers", "user", "nested", "mixed"]
    for n in range(nfam):
        big = rng.random() < 0.2
        fam = M.rand_family(rng, nsrc=rng.choice([0, 1, 2, 3, 5, 8]) if big else None, nkeys=rng.choice([30, 150]) if big else None,
                            alpha=list(range(256)) if big else None, tokbase=1 + 50 * n if n < 1000 else 1, maxlen=4)
        merge, dupsort = M.MODES[n % 4]
        if dupsort and n % 2:
            fam = M.shuffle_tokens(fam, rng)
        if dupsort and not merge:
            fam = M.prefix_related_values(fam, rng)
        failtok = -1
        if merge and n % 5 == 3:
            fam = M.cancelling(fam, rng)            # merged values that shrink and vanish
        elif merge and n % 9 == 5:
            toks = [t for src in fam for _, ts in src for t in ts]
            if toks:
                failtok = rng.choice(toks)
        recs = one_family(ctx, b, n, fam, merge, dupsort, variants[(n // 4) % 4], failtok=failtok, srcwrite=(n % 3 == 0))
        if recs is None:
            continue
        allrecs += recs
        meta.append((n, fam, merge, dupsort, failtok))
        if n < 2:
            ctx.sample({"family": [[(k.hex(), t) for k, t in src] for src in fam], "merge": merge, "dupsort": dupsort, "failtok": failtok})
        if len(allrecs) > 30000:
            flush(ctx, allrecs, meta)
            allrecs, meta = [], []
    # nothing to merge: no sources, or only empty tables - iterated and written out with mtbl_source_write (success, an empty table)
    for j, fam in enumerate([[], [[]], [[], [], []], [[], [(b"k", [1])], []]]):
        for (mg, ds) in M.MODES:
            recs = one_family(ctx, b, 6000 + 4 * j + 2 * mg + ds, fam, mg, ds, variants[(j + mg) % 4], srcwrite=True)
            if recs is not None:
                allrecs += recs
                ctx.add("empty_unions", 1)
    # a merge function that gives up late: one key held by 3..5 sources, the failing token in each of them in turn (the fold has
    # already produced intermediate values when the failure comes), keys before and after it
    for j in range(10 if ctx.quick() else 40):
        nsrc = 3 + j % 3
        shared = rng.choice([b"k", b"kk", b"kkk", b""])
        fam = []
        for si in range(nsrc):
            src = [(shared, [100 + si])]
            if rng.random() < 0.6:
                src.append((shared + b"z" + bytes([si]), [200 + si]))
            if shared and rng.random() < 0.5:
                src.insert(0, (b"", [300 + si]) if si == 0 else (bytes([si]), [300 + si]))
            fam.append(sorted(src))
        recs = one_family(ctx, b, 5000 + j, fam, 1, 0, variants[j % 4], failtok=100 + j % nsrc)
        if recs is not None:
            allrecs += recs
            ctx.add("late_failing_merges", 1)
    flush(ctx, allrecs, meta)
    wide_families(ctx, b)
    merge_tool(ctx, b)
    cov = {"states": ctx.cov.get("states", 0), "transitions": ctx.cov.get("transitions", 0),
           "traces_validated_against_impl": ctx.cov.get("traces_validated_against_impl", 0),
           "evaluations": ctx.cov.get("families", 0), "distinct_nontrivial": ctx.cov.get("families_with_shared_keys", 0), "exhaustive": False}
    return core.finish(ctx, "model_checking", cov, rule="families of 0..8 sources (identical, disjoint, interleaved, with empty tables, empty key) x 4 modes x source variants; "
                       "non-trivial = families in which some key occurs in more than one source entry")


def wide_families(ctx, b):
    """many sources (7..16) whose first keys arrive in every kind of order: the merger's heap is an array, and which
    slots are compared depends on the number of sources and on the order in which their first entries are inserted.
    Sources of 1..3 entries, mostly in memory (user-defined sources); thorough: every insertion order of 7 distinct
    first keys."""
    import itertools
    rng = ctx.rng
    fams = []
    nrand = 160 if ctx.quick() else 1500
    for n in range(nrand):
        nsrc = rng.choice([7, 7, 8, 9, 10, 12, 16])
        universe = [bytes([0x41 + i]) for i in range(26)] + [bytes([0x61 + i, 0x61 + j]) for i in range(4) for j in range(4)]
        firsts = rng.sample(universe, nsrc) if rng.random() < 0.8 else [rng.choice(universe[:6]) for _ in range(nsrc)]
        fam, tok = [], 1
        for f in firsts:
            later = sorted(set(k for k in rng.sample(universe, rng.choice([0, 1, 1, 2])) if k > f))
            src = []
            for k in [f] + later:
                src.append((k, [tok])); tok += 1
            fam.append(src)
        fams.append(fam)
    if not ctx.quick():
        base = [bytes([0x41 + 2 * i]) for i in range(7)]
        for perm in itertools.permutations(range(7)):
            fam, tok = [], 1
            for i in perm:
                src = [(base[i], [tok]), (base[i] + b"x", [tok + 1])]
                tok += 2
                fam.append(src)
            fams.append(fam)
    allrecs = []
    for n, fam in enumerate(fams):
        merge, dupsort = M.MODES[n % 4] if n < nrand else (0, 0)
        variant = "user" if (n % 5 or n >= nrand) else rng.choice(["readers", "mixed", "nested"])
        wd = ctx.sub("wide")
        L = M.setup_lines(wd, fam, variant, merge, dupsort)
        L += ["it_iter 1 m:0", "it_drain 1", "it_destroy 1"]
        if n < nrand and rng.random() < 0.5:
            keys = sorted(set(k for src in fam for k, _ in src))
            L += ["it_iter 1 m:0", "it_next 1 %d" % rng.randint(0, 4), "it_seek 1 %s" % shapes.hexs(rng.choice(keys)), "it_drain 1", "it_destroy 1"]
        L += M.teardown_lines(fam, variant)
        recs, rc, err = M.run_script(ctx, b, wd, L, "wf")
        ctx.add("families", 1)
        ctx.add("wide_families", 1)
        if rc != 0:
            core.report(ctx, "driver ended abnormally on a family of %d sources (rc=%s): %s" % (len(fam), rc, err[-1500:]), {"kind": "script", "script": L, "stderr": err[-3000:]})
            continue
        allrecs += recs
        if len(allrecs) > 30000:
            flush(ctx, allrecs, [])
            allrecs = []
    flush(ctx, allrecs, [])


def merge_tool(ctx, b):
    """the mtbl_merge tool with a bag-union DSO built by the harness: its output file read back and judged"""
    import subprocess
    tools = build.build("tools")
    dso = os.path.join(tools["dir"], "merge_bag_dso.so")
    if not os.path.exists(dso):
        build._run(["gcc", "-shared", "-fPIC", "-O1", os.path.join(build.HARNESS, "merge_bag_dso.c"), "-o", dso])
    rng = ctx.rng
    recs = []
    for n in range(6 if ctx.quick() else 60):
        wd = ctx.sub("tool%d" % n)
        fam = [src for src in M.rand_family(rng, nsrc=rng.choice([1, 2, 3, 5]), nkeys=rng.choice([6, 40]), tokbase=1) if True]
        L = ["scratch " + wd]
        paths = []
        for s_, src in enumerate(fam):
            pth = os.path.join(wd, "in%d.mtbl" % s_)
            if os.path.exists(pth):
                os.unlink(pth)
            paths.append(pth)
            L.append("w_init %d %s %s default 1024 2 -1 0" % (s_, pth, rng.choice(gen.COMPS)))
            for k, toks in src:
                L.append("w_add %d %s T%s" % (s_, shapes.hexs(k), ",".join(map(str, sorted(toks)))))
            L.append("w_close %d" % s_)
        r1, rc, err = M.run_script(ctx, b, wd, L, "w")
        outp = os.path.join(wd, "out.mtbl")
        if os.path.exists(outp):
            os.unlink(outp)
        threads = rng.choice([0, 0, 2])
        cmd = [tools["merge"], "-c", rng.choice(gen.COMPS), "-b", str(rng.choice([1024, 8192]))] + (["-t", str(threads)] if threads else []) + paths + [outp]
        p = subprocess.run(cmd, stdout=subprocess.PIPE, stderr=subprocess.PIPE, text=True, timeout=120,
                           env=dict(os.environ, MTBL_MERGE_DSO=dso, MTBL_MERGE_FUNC_PREFIX=("vsbag" if n % 3 else "vsplain"), LC_ALL="C"))
        r2, rc2, err2 = M.run_script(ctx, b, wd, ["scratch " + wd, "r_init 0 %s 1 0" % outp, "it_iter 1 r:0", "it_drain 1", "it_destroy 1", "r_destroy 0"], "r")
        recs += r1 + [{"e": "MergeTool", "inputs": paths, "out": outp, "rc": p.returncode, "stderr": p.stderr[-200:]}] + [e for e in r2 if e["e"] != "Reset"]
        ctx.add("merge_tool_runs", 1)
    for ex, line in core.validate_batch(ctx, recs, "tool"):
        core.report(ctx, "mtbl_merge output not explained by the fold of its inputs at trace line %d: %s" % (line, json.dumps(ex[line - 1])[:300]), {"kind": "trace", "trace": ex, "line": line})


_batch = [0]


def flush(ctx, recs, meta):
    if not recs:
        return
    _batch[0] += 1
    for ex, line in core.validate_batch(ctx, recs, "b%d" % _batch[0]):
        x = ex[0].get("x")
        core.report(ctx, "merger output not explained by the fold of its sources at trace line %d: %s" % (line, json.dumps(ex[line - 1])[:300]),
                    {"kind": "trace", "trace": ex, "line": line})


def replay(ctx, path):
    return M.replay(ctx, path)
