"""C07 Fileset view follows the setfile; open iterators pin their snapshot.

Specification: Fileset.tla (implementation-shaped: shared loaded readers, setfile identity, fs_last, reload_needed,
n_iters; per handle generation stamp and merger source list with the readers that have since been unloaded) - TLC checks
NoBad (no dangling reader in a merger when used, view = loaded set, owed reload honoured, interval honoured, reload picks up
the setfile), Pinned and the action property NoReloadWhileOpen over the complete bounded state space; FixF3 = FALSE must
fail. Mtbl.tla states the property at the API (FsOpen: the owed reload has happened, the iterator's content is the merge
of the files of the most recent reload restricted by the handle's filters; FsReloadNow / FsClose never reload while an
iterator is open).
Binding: TLC -simulate behaviours (setfile rewrites, clock ticks, reload, reload_now, dup, destroy, open, close) and
seeded random histories run against the real fileset under the clock seam in a scratch directory (ASan build, so a use
of an unloaded reader is a process-level observation); every iterator's content is validated by TLC."""
import os, re, json
from .. import core, build, gen, shapes, mergerside as M

FILES = {"x": [(b"", [1]), (b"a", [2]), (b"c", [3])], "y": [(b"a", [11]), (b"b", [12])], "z": [(b"b", [21]), (b"c", [22]), (b"d", [23, 24])]}
# a dozen small tables for the histories that name many files at once (the shared set keeps its entries sorted and
# searches them; the merger over >= 7 files uses deeper heap slots)
FILES_MANY = dict(FILES)
for _i, _n in enumerate(["x0", "x1", "x2", "y0", "y1", "y2", "z0", "z1", "z2"]):
    FILES_MANY[_n] = [(bytes([0x61 + (_i * 2 + j) % 5]) + (b"" if j == 0 else b"q"), [30 + 3 * _i + j]) for j in range(1 + _i % 3)]
    FILES_MANY[_n] = sorted(FILES_MANY[_n])


def tlc_models(ctx):
    r = core.tlc("MC_Fileset_bfs", "MC_Fileset.cfg", workers=8, timeout=1200)
    if not r.ok:
        raise core.Infra("Fileset model failed (specification problem):\n" + r.out[-3000:])
    ctx.add("states", r.distinct)
    ctx.add("transitions", r.generated)
    if not ctx.quick():
        wd = ctx.sub("mc")
        txt = open(os.path.join(core.SPEC, "MC_Fileset.cfg")).read().replace("MaxH = 2", "MaxH = 3")
        open(os.path.join(wd, "F3.cfg"), "w").write(txt)
        open(os.path.join(wd, "F3.tla"), "w").write("---- MODULE F3 ----\nEXTENDS Fileset\n====\n")
        r = core.tlc("F3", "F3.cfg", workers=12, cwd=wd, timeout=3000, java_opts=["-DTLA-Library=" + core.SPEC])
        if not r.ok:
            raise core.Infra("Fileset model (3 handles) failed:\n" + r.out[-3000:])
        ctx.add("states", r.distinct)
        ctx.add("transitions", r.generated)
    wd = ctx.sub("regr")
    open(os.path.join(wd, "R3.cfg"), "w").write(open(os.path.join(core.SPEC, "MC_Fileset.cfg")).read().replace("FixF3 = TRUE", "FixF3 = FALSE"))
    open(os.path.join(wd, "R3.tla"), "w").write("---- MODULE R3 ----\nEXTENDS Fileset\n====\n")
    r3 = core.tlc("R3", "R3.cfg", workers=8, cwd=wd, timeout=900, java_opts=["-DTLA-Library=" + core.SPEC])
    ctx.cov["regression_FixF3_FALSE_fails"] = bool(r3.inv_violated)


def tlc_behaviours(ctx, num):
    r = core.tlc("MC_Fileset", "MC_Fileset_sim.cfg", workers=2, simulate="num=%d" % max(1, num // 2), timeout=900,
                 extra=["-depth", "40", "-seed", str(ctx.seed)])
    if r.inv_violated or r.error:
        raise core.Infra("MC_Fileset simulation failed:\n" + r.out[-3000:])
    out, seen = [], set()
    for m in re.finditer(r'<<\s*"HIST",\s*(<<.*?>>)\s*>>\s*\n(?=\S|$)', r.out, re.S):
        txt = m.group(1)
        if txt in seen:
            continue
        seen.add(txt)
        ops = []
        for t in re.finditer(r'<<\s*"(\w+)"((?:[^<>]|\{[^}]*\})*)>>', txt):
            name = t.group(1)
            rest = t.group(2)
            sets = re.findall(r"\{([^}]*)\}", rest)
            nums = [int(x) for x in re.findall(r"(?<![\"\w])-?\d+", re.sub(r"\{[^}]*\}", "", rest))]
            names = re.findall(r'"(\w+)"', sets[0]) if sets else []
            ops.append((name, nums, names))
        out.append(ops)
    ctx.add("tlc_behaviours", len(out))
    return out


def iv(x):
    return "never" if x == 99 else str(x)


def script_for(wd, n, ops, rng, FILES=FILES):
    d = os.path.join(wd, "h%d" % n)
    os.makedirs(d, exist_ok=True)
    # the library's clock runs at an offset: small values, or values that cross 2^31 / 2^32 seconds during the history
    L = ["scratch " + d, "clockbase %d" % rng.choice([0, 0, (1 << 31) - 1003, (1 << 32) - 1004, 1 << 33]), "clock 1000"]
    for name, ents in FILES.items():
        p = os.path.join(d, name)
        L.append("w_init 0 %s none default 1024 2 -1 0" % p)
        for k, toks in ents:
            L.append("w_add 0 %s T%s" % (shapes.hexs(k), ",".join(map(str, toks))))
        L.append("w_close 0")
    L.append("mkfile %s 6e6f742061207461626c65" % os.path.join(d, "g"))
    # tables of the same names with other contents in a sibling directory: named by absolute path or through ".."
    od = os.path.join(wd, "o%d" % n)
    os.makedirs(od, exist_ok=True)
    for name, ents in FILES.items():
        p = os.path.join(od, name)
        L.append("w_init 0 %s none default 1024 2 -1 0" % p)
        for k, toks in ents:
            L.append("w_add 0 %s T%s" % (shapes.hexs(k), ",".join(str(t + 100) for t in toks)))
        L.append("w_close 0")
    setf = os.path.join(d, "set.txt")
    mtime = [5000]
    now = [1000]
    opened = {}

    def names_arg(ns):
        out = []
        for x in sorted(ns):
            u = rng.random()           # relative to the setfile; absolute in its directory; absolute elsewhere; relative through ".."
            out.append(x if u < 0.45 else os.path.join(d, x) if u < 0.65 else os.path.join(od, x) if u < 0.88 else os.path.join("..", "o%d" % n, x))
        rng.shuffle(out)
        return " ".join(out)

    def hopts():
        return "%d %d %s %d" % (rng.choice([1, 1, 0]), 0, rng.choice(["-", "-", "xy", "yz", "xz"]), rng.choice([0, 0, 0, 1, 2]))

    alive = set()
    for (name, nums, names) in ops:
        if name == "init":
            L.append("setfile %s %d %s" % (setf, mtime[0], names_arg(names)))
            L.append("fs_init 1 %s %s %s" % (setf, iv(nums[0]), hopts()))
            alive.add(1)
        elif name == "tick":
            now[0] += 1
            L.append("clock %d" % now[0])
        elif name == "rewrite":
            mtime[0] += 1
            L.append("setfile %s %d %s" % (setf, mtime[0], names_arg(names)))
        elif name == "dup":
            L.append("fs_dup %d %d %s %s" % (nums[0], nums[1], iv(nums[2]), hopts()))
            alive.add(nums[0])
        elif name == "destroy":
            L.append("fs_destroy %d" % nums[0])
            alive.discard(nums[0])
        elif name == "reload":
            L.append("fs_reload %d" % nums[0])
        elif name == "reload_now":
            L.append("fs_reload_now %d" % nums[0])
        elif name == "open":
            h, i = nums
            kind = rng.choice(["iter", "iter", "get", "prefix", "range"])
            k0, k1 = rng.choice([b"", b"a", b"b", b"c"]), rng.choice([b"b", b"c", b"d"])
            L.append(gen.open_line(i, "f:%d" % h, (kind, k0 if kind != "iter" else b"", k1 if kind == "range" else b"")))
            L.append("it_next %d %d" % (i, rng.randint(0, 2))) if rng.random() < 0.7 else None
            opened[i] = h
        elif name == "close":
            i = nums[0]
            L.append("it_drain %d" % i)
            L.append("it_destroy %d" % i)
            opened.pop(i, None)
        for i in list(opened):
            if rng.random() < 0.25:
                L.append("it_next %d" % i)
    for i in list(opened):
        L += ["it_drain %d" % i, "it_destroy %d" % i]
    for h in sorted(alive):
        L.append("fs_destroy %d" % h)
    return [x for x in L if x]


def random_history(rng, nops, universe=("x", "y", "z", "m", "g")):
    """histories with the operations the model alphabet lacks: file creation/deletion together with a setfile rewrite"""
    universe = list(universe)
    _sample = rng.sample
    class _R:            # subsets of the universe of names (up to all of them when it is large)
        pass
    def pick():
        return _sample(universe, rng.randint(0, 4 if len(universe) <= 5 else len(universe)))
    ops = [("init", [rng.choice([0, 2, 5, 99])], pick())]
    alive, opened = {1}, {}
    for _ in range(nops):
        x = rng.random()
        if x < 0.15:
            ops.append(("tick", [], []))
        elif x < 0.3:
            ops.append(("rewrite", [], pick()))
        elif x < 0.38 and len(alive) < 3:
            h = min(set([1, 2, 3]) - alive)
            ops.append(("dup", [h, rng.choice(sorted(alive)), rng.choice([0, 2, 5, 99])], []))
            alive.add(h)
        elif x < 0.43 and len(alive) > 1:
            cand = [h for h in alive if h not in opened.values()]
            if cand:
                h = rng.choice(cand)
                ops.append(("destroy", [h], []))
                alive.discard(h)
        elif x < 0.55:
            ops.append(("reload", [rng.choice(sorted(alive))], []))
        elif x < 0.67:
            ops.append(("reload_now", [rng.choice(sorted(alive))], []))
        elif x < 0.85 and len(opened) < 3:
            i = min(set([1, 2, 3]) - set(opened))
            h = rng.choice(sorted(alive))
            ops.append(("open", [h, i], []))
            opened[i] = h
        elif opened:
            i = rng.choice(sorted(opened))
            ops.append(("close", [i], []))
            del opened[i]
    return ops


def chain_history(rng, universe=("x", "y", "z", "m", "g")):
    """the set of named files grows one file per reload and then shrinks one file per reload (reloads that only add, reloads that only
    drop; every file carried over several times before it goes), read after every reload through the reloading handle and a dup"""
    names = list(universe)
    rng.shuffle(names)
    cur = names[:rng.randint(1, 2)]
    ops = [("init", [99], list(cur)), ("dup", [2, 1, 99], [])]
    def read(h):
        return [("open", [h, 1], []), ("close", [1], [])]
    ops += read(1)
    for nm in names[len(cur):]:
        cur.append(nm)
        ops += [("rewrite", [], list(cur)), ("reload_now", [1], [])] + read(1) + (read(2) if rng.random() < 0.5 else [])
    while len(cur) > 1:
        cur.pop(rng.randrange(len(cur)))
        h = rng.choice([1, 1, 2])
        ops += [("rewrite", [], list(cur)), ("reload_now", [h], [])] + read(h) + read(3 - h)
    return ops


def partition_histories(ctx, b):
    """mtbl_fileset_partition (deprecated, still public): after any sequence of setfile rewrites and reloads, the two mergers
    hold exactly the files of the current view split by the callback - all files of the shared set, whatever the handle's
    own filters - merged with the handle's merge options; they are used while the setfile stays as it is, then destroyed."""
    rng = ctx.rng
    wd = ctx.sub("part")
    lines = []
    nh = 30 if ctx.quick() else 400
    for n in range(nh):
        d = os.path.join(wd, "p%d" % n)
        os.makedirs(d, exist_ok=True)
        L = ["scratch " + d, "clock 1000"]
        for name, ents in FILES_MANY.items():
            L.append("w_init 0 %s none default 1024 2 -1 0" % os.path.join(d, name))
            for k, toks in ents:
                L.append("w_add 0 %s T%s" % (shapes.hexs(k), ",".join(map(str, toks))))
            L.append("w_close 0")
        L.append("mkfile %s 6e6f742061207461626c65" % os.path.join(d, "g"))
        setf = os.path.join(d, "set.txt")
        universe = list(FILES_MANY) + ["m", "g"]
        mtime = 5000
        L.append("setfile %s %d %s" % (setf, mtime, " ".join(rng.sample(universe, rng.randint(0, len(universe))))))
        L.append("fs_init 1 %s %s %d %d %s %d" % (setf, rng.choice(["0", "5", "never"]), rng.choice([1, 1, 0]), rng.choice([0, 1]),
                                                  rng.choice(["-", "-", "xy", "z"]), rng.choice([0, 0, 1, 2])))
        handle = 1
        if rng.random() < 0.4:
            L.append("fs_dup 2 1 never %d 0 %s 0" % (rng.choice([1, 0]), rng.choice(["-", "x"])))
            handle = rng.choice([1, 2])
        for _ in range(rng.randint(0, 2)):
            mtime += 1
            L.append("setfile %s %d %s" % (setf, mtime, " ".join(rng.sample(universe, rng.randint(0, len(universe))))))
            L.append(rng.choice(["fs_reload_now %d" % handle, "fs_reload %d" % handle, "clock %d" % (1000 + mtime - 4990)]))
        if rng.random() < 0.5:
            L += [gen.open_line(3, "f:%d" % handle, ("iter", b"", b"")), "it_next 3 2", "it_destroy 3"]
        L.append("fs_partition %d %s 5 6" % (handle, rng.choice(["x", "xy", "z", "yz", "q"])))
        for m in (5, 6):
            L += [gen.open_line(1, "m:%d" % m, ("iter", b"", b"")), "it_drain 1", "it_destroy 1"]
            k = rng.choice([b"a", b"b", b"c", b"aq"])
            L += [gen.open_line(1, "m:%d" % m, (rng.choice(["get", "prefix"]), k, b"")), "it_drain 1", "it_destroy 1"]
        L += ["m_destroy 5", "m_destroy 6"]
        if handle == 2 or rng.random() < 0.5:
            L.append("fs_destroy 1") if handle == 1 else L.extend(["fs_destroy 2", "fs_destroy 1"])
            if handle == 1 and "fs_dup 2" in "\n".join(L):
                L.append("fs_destroy 2")
        else:
            L.append("fs_destroy 1")
            if "fs_dup 2" in "\n".join(L):
                L.append("fs_destroy 2")
        lines += L + ["---"]
    evs, rc, err = core.run_drv(b, "\n".join(lines) + "\n", wd, "part", fork=True, timeout=900)
    recs = core.convert_events(evs)
    out = []
    for ex in core.split_execs(recs):
        ext = [e for e in ex if e["e"] == "Exit"]
        if ext and (ext[0]["code"] != 0 or ext[0]["sig"] != 0):
            core.report(ctx, "fileset partition history ended abnormally (code %s signal %s)" % (ext[0]["code"], ext[0]["sig"]), {"kind": "abnormal", "why": "code %s signal %s" % (ext[0]["code"], ext[0]["sig"])})
            continue
        out += ex
        ctx.add("partition_histories", 1)
    for ex, line in core.validate_batch(ctx, out, "part"):
        core.report(ctx, "fileset partition not explained by the specification at trace line %d: %s" % (line, json.dumps(ex[line - 1])[:300]), {"kind": "trace", "trace": ex, "line": line})


def run(ctx):
    b = build.build("asan")
    rng = ctx.rng
    tlc_models(ctx)
    partition_histories(ctx, b)
    hs = tlc_behaviours(ctx, 150 if ctx.quick() else 3500)
    hs += [random_history(rng, rng.choice([10, 25, 60])) for _ in range(100 if ctx.quick() else 2500)]
    hs += [chain_history(rng) for _ in range(25 if ctx.quick() else 300)]
    nmany = 40 if ctx.quick() else 500
    many0 = len(hs)
    hs += [random_history(rng, rng.choice([10, 25]), universe=list(FILES_MANY) + ["m", "g"]) for _ in range(nmany)]
    wd = ctx.sub("run")
    for bi in range(0, len(hs), 50):
        chunk = hs[bi:bi + 50]
        lines = []
        for n, ops in enumerate(chunk):
            lines += script_for(wd, bi + n, ops, rng, FILES_MANY if bi + n >= many0 else FILES) + ["---"]
        evs, rc, err = core.run_drv(b, "\n".join(lines) + "\n", wd, "b%d" % bi, fork=True, timeout=900)
        recs = core.convert_events(evs)
        out = []
        for ex, ops in zip(core.split_execs(recs), chunk):
            ext = [e for e in ex if e["e"] == "Exit"]
            if ext and (ext[0]["code"] != 0 or ext[0]["sig"] != 0):
                core.report(ctx, "fileset history ended abnormally (code %s signal %s; an AddressSanitizer report ends the process with code 99): %s" % (
                    ext[0]["code"], ext[0]["sig"], json.dumps(ops)[:400]), {"kind": "abnormal", "why": "code %s signal %s" % (ext[0]["code"], ext[0]["sig"]), "history": ops})
                continue
            out += ex
            ctx.add("histories", 1)
            if sum(1 for o in ops if o[0] in ("open",)) >= 2 and any(o[0] == "rewrite" for o in ops):
                ctx.add("histories_nontrivial", 1)
        if bi == 0 and chunk:
            ctx.sample(chunk[0][:14])
        for ex, line in core.validate_batch(ctx, out, "b%d" % bi):
            core.report(ctx, "fileset behaviour not explained by the specification at trace line %d: %s" % (line, json.dumps(ex[line - 1])[:300]),
                        {"kind": "trace", "trace": ex, "line": line})
    cov = {"states": ctx.cov.get("states", 0), "transitions": ctx.cov.get("transitions", 0),
           "traces_validated_against_impl": ctx.cov.get("traces_validated_against_impl", 0),
           "evaluations": ctx.cov.get("histories", 0), "distinct_nontrivial": ctx.cov.get("histories_nontrivial", 0), "exhaustive": False}
    ctx.assumptions += ["the clock moves in whole seconds (no ambiguous sub-second window); table files are created/deleted only together with a setfile rewrite",
                        "no duplicate setfile lines (outside the quantifier)", "an implementation performing additional unobservable reloads that postpone an owed one would be flagged (the pinned code does not)"]
    return core.finish(ctx, "model_checking", cov, rule="histories = TLC -simulate behaviours of the bounded fileset model + seeded random histories; non-trivial = at least two iterator opens and a setfile rewrite")


def replay(ctx, path):
    return M.replay(ctx, path)
