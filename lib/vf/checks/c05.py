"""C05 Merger lookups and seeks behave like one table holding the merged content.

Specification: Merger.tla (implementation-shaped: heap of per-source heads, cur_key as last returned or last
forward target, pending, finished, backward = reseek all + heapify, forward = advance laggards) refines the abstract
cursor over Table!MergeFold / AllSorted (MC_Merger: Refines, NullOk, HeapOk) for every next/seek history, four
constructor kinds, four modes; regression configs FixF2 / FixF8 = FALSE must fail.
Binding: per family the model is instantiated with exactly the family's tables; every edge of its state graph is
replayed on the real merger (sources: real readers, user-defined sources that poison their buffers, a merger of
mergers); random histories on larger families; every call validated by TLC against the abstract specification."""
import os, json
from .. import core, build, gen, shapes, tablecheck as TC, mergerside as M


def graph_family(ctx, b, n, fam, merge, dupsort, variant):
    rng = ctx.rng
    wd = ctx.sub("fam%d" % n)
    targets = M.fam_targets(fam, rng, cap=10 if ctx.quick() else 14)
    bounds = M.fam_bounds(fam, targets, rng)
    r, dot = M.model_graph(ctx, wd, fam, targets, bounds, merge, dupsort)
    if not r.ok:
        raise core.Infra("MC_Merger does not hold (specification problem, not a verdict on the code):\n" + r.out[-3000:])
    ctx.add("states", r.distinct)
    ctx.add("transitions", r.generated)
    inits, edges, nn, ne = shapes.parse_dot(dot)
    os.unlink(dot)
    walks = shapes.covering_walks(inits, edges, rng)
    L = M.setup_lines(wd, fam, variant, merge, dupsort)
    L += TC.walks_script(rng, "m:0", walks, inits, bounds, targets)
    L += M.teardown_lines(fam, variant)
    recs, rc, err = M.run_script(ctx, b, wd, L, "g")
    ctx.add("edges_replayed", ne)
    ctx.add("nontrivial_edges", sum(1 for u, es in edges.items() for (lab, v) in es if lab != "DoNext" and v != u))
    ctx.sample({"family": [[(k.hex(), t) for k, t in src] for src in fam], "merge": merge, "dupsort": dupsort, "variant": variant,
                "walk": walks[0][1][:10] if walks else []})
    if rc != 0:
        core.report(ctx, "driver ended abnormally (rc=%s): %s" % (rc, err[-1500:]), {"kind": "script", "script": L, "stderr": err[-3000:]})
        return
    for ex, line in core.validate_batch(ctx, recs, "fam%d" % n):
        core.report(ctx, "merger iterator result not explained by the merged table at trace line %d: %s" % (line, json.dumps(ex[line - 1])[:300]),
                    {"kind": "trace", "trace": ex, "line": line, "family": [[(k.hex(), t) for k, t in src] for src in fam], "merge": merge, "dupsort": dupsort, "variant": variant})


def random_histories(ctx, b):
    rng = ctx.rng
    n = 6 if ctx.quick() else 150
    for t in range(n):
        wd = ctx.sub("rh%d" % t)
        fam = M.rand_family(rng, nsrc=rng.choice([2, 3, 5, 8]), nkeys=rng.choice([10, 40, 120]), alpha=rng.choice([list(range(256)), gen.ALPHA6]), maxlen=4)
        merge, dupsort = rng.choice(M.MODES)
        if dupsort:
            fam = M.shuffle_tokens(fam, rng)
        variant = rng.choice(["readers", "user", "nested", "mixed"])
        keys = sorted(set(k for src in fam for k, _ in src)) or [b"a"]
        cand = sorted(set(k2 for k in keys for k2 in shapes.neighbours(k)) | {b""})
        L = M.setup_lines(wd, fam, variant, merge, dupsort, comp=rng.choice(gen.COMPS))
        slots = {}
        for op in range(250 if ctx.quick() else 800):
            i = rng.randint(1, 3)
            if i not in slots:
                kind = rng.choice(["iter", "get", "prefix", "range"])
                k0, k1 = rng.choice(cand), rng.choice(cand)
                if kind == "range" and k0 > k1 and rng.random() < 0.8:
                    k0, k1 = k1, k0
                if kind == "prefix":
                    k0 = k0[:rng.randint(0, len(k0))]
                bd = (kind, k0 if kind != "iter" else b"", k1 if kind == "range" else b"")
                slots[i] = bd
                L.append(gen.open_line(i, "m:0", bd))
                continue
            x = rng.random()
            if x < 0.5:
                L.append("it_next %d" % i)
            elif x < 0.95:
                start = slots[i][1] if slots[i][0] != "iter" else b""
                ts = [c for c in cand if c >= start]
                if ts:
                    L.append("it_seek %d %s" % (i, shapes.hexs(rng.choice(ts))))
            else:
                L.append("it_destroy %d" % i)
                del slots[i]
        for i in list(slots):
            L.append("it_destroy %d" % i)
        L += M.teardown_lines(fam, variant)
        recs, rc, err = M.run_script(ctx, b, wd, L, "h")
        ctx.add("random_histories", 1)
        if rc != 0:
            core.report(ctx, "driver ended abnormally (rc=%s): %s" % (rc, err[-1500:]), {"kind": "script", "script": L[:200], "stderr": err[-3000:]})
            continue
        for ex, line in core.validate_batch(ctx, recs, "rh%d" % t):
            core.report(ctx, "random merger history rejected at line %d: %s" % (line, json.dumps(ex[line - 1])[:300]),
                        {"kind": "trace", "trace": ex, "line": line, "merge": merge, "dupsort": dupsort, "variant": variant})


def dupsort_lookups(ctx, b):
    """dupsort mergers (no merge function): for every key, a fresh iterator of each kind is drained - equal keys must come in
    dupsort order whichever source holds the smallest value, whatever the constructor; plus the same after a seek"""
    rng = ctx.rng
    allrecs = []
    for t in range(30 if ctx.quick() else 400):
        wd = ctx.sub("ds")
        fam = M.rand_family(rng, nsrc=rng.choice([2, 3, 4, 6]), nkeys=rng.choice([3, 5, 8]), tokbase=1)
        fam = M.shuffle_tokens(fam, rng)
        if rng.random() < 0.4:
            fam = M.prefix_related_values(fam, rng)
        variant = rng.choice(["readers", "user", "user", "nested", "mixed"])
        merge = 1 if t % 5 == 4 else 0
        L = M.setup_lines(wd, fam, variant, merge, 1)
        keys = sorted(set(k for src in fam for k, _ in src))
        for k in keys:
            for bd in (("get", k, b""), ("prefix", k, b""), ("range", k, k), ("prefix", k[:1], b"")):
                L += [gen.open_line(1, "m:0", bd), "it_drain 1", "it_destroy 1"]
            L += [gen.open_line(1, "m:0", ("get", k, b"")), "it_next 1", "it_seek 1 %s" % shapes.hexs(k), "it_drain 1", "it_destroy 1"]
        L += M.teardown_lines(fam, variant)
        recs, rc, err = M.run_script(ctx, b, wd, L, "ds")
        ctx.add("dupsort_families", 1)
        if rc != 0:
            core.report(ctx, "driver ended abnormally (rc=%s): %s" % (rc, err[-1500:]), {"kind": "script", "script": L[:200], "stderr": err[-3000:]})
            continue
        allrecs += recs
    for ex, line in core.validate_batch(ctx, allrecs, "ds"):
        core.report(ctx, "dupsort merger lookup not explained by the merged table at trace line %d: %s" % (line, json.dumps(ex[line - 1])[:300]),
                    {"kind": "trace", "trace": ex, "line": line})


def shrinking_merges(ctx, b):
    """merge functions whose result is shorter than what was accumulated, down to the empty value (cancelling tokens): every key looked up
    and sought in every way, the iterator re-sought onto the key it just returned and back to an earlier one"""
    rng = ctx.rng
    allrecs = []
    for t in range(10 if ctx.quick() else 150):
        wd = ctx.sub("sm")
        fam = M.cancelling(M.rand_family(rng, nsrc=rng.choice([2, 3, 4, 5]), nkeys=rng.choice([3, 5, 8]), tokbase=1), rng)
        variant = ["readers", "user", "nested", "mixed"][t % 4]
        L = M.setup_lines(wd, fam, variant, 1, t % 2)
        keys = sorted(set(k for src in fam for k, _ in src))
        L += ["it_iter 1 m:0", "it_drain 1", "it_destroy 1"]
        for k in keys:
            for bd in (("get", k, b""), ("prefix", k[:1], b""), ("range", k, keys[-1])):
                L += [gen.open_line(1, "m:0", bd), "it_drain 1", "it_destroy 1"]
            L += ["it_iter 1 m:0", "it_seek 1 %s" % shapes.hexs(k), "it_next 1", "it_seek 1 %s" % shapes.hexs(k), "it_next 1 2",
                  "it_seek 1 %s" % shapes.hexs(keys[0]), "it_drain 1", "it_destroy 1"]
        L += M.teardown_lines(fam, variant)
        recs, rc, err = M.run_script(ctx, b, wd, L, "sm")
        ctx.add("shrinking_merge_families", 1)
        if rc != 0:
            core.report(ctx, "driver ended abnormally (rc=%s): %s" % (rc, err[-1500:]), {"kind": "script", "script": L[:200], "stderr": err[-3000:]})
            continue
        allrecs += recs
    for ex, line in core.validate_batch(ctx, allrecs, "sm"):
        core.report(ctx, "merger lookup under a shrinking merge function not explained by the merged table at trace line %d: %s" % (line, json.dumps(ex[line - 1])[:300]),
                    {"kind": "trace", "trace": ex, "line": line})


def wide_seeks(ctx, b):
    """seek histories on mergers over 7..12 sources (mostly in memory) whose first keys arrive in arbitrary order: every seek that
    re-seeks all sources rebuilds the heap over that many live sources"""
    rng = ctx.rng
    allrecs = []
    for t in range(40 if ctx.quick() else 600):
        wd = ctx.sub("ws")
        nsrc = rng.choice([7, 7, 8, 9, 12])
        universe = [bytes([0x41 + i]) for i in range(26)] + [bytes([0x61 + i, 0x61 + j]) for i in range(3) for j in range(4)]
        fam, tok = [], 1
        for f in rng.sample(universe, nsrc):
            ks = sorted(set([f] + rng.sample(universe, rng.choice([1, 2, 3]))))
            fam.append([(k, [tok + i]) for i, k in enumerate(ks)])
            tok += len(ks)
        merge, dupsort = rng.choice(M.MODES)
        variant = "user" if t % 4 else rng.choice(["readers", "mixed"])
        L = M.setup_lines(wd, fam, variant, merge, dupsort)
        keys = sorted(set(k for src in fam for k, _ in src))
        cand = sorted(set(keys) | set(k + b"!" for k in keys[::3]) | {b""})
        kind = rng.choice(["iter", "iter", "range", "prefix"])
        bd = (kind, b"" if kind != "range" else rng.choice(cand[:4]), b"" if kind != "range" else rng.choice(cand[-4:]))
        L.append(gen.open_line(1, "m:0", bd))
        lo = bd[1]
        for _ in range(rng.choice([6, 12, 20])):
            x = rng.random()
            if x < 0.45:
                L.append("it_next 1 %d" % rng.choice([1, 1, 2, 5]))
            else:
                L.append("it_seek 1 %s" % shapes.hexs(rng.choice([c for c in cand if c >= lo])))
        L += ["it_destroy 1"] + M.teardown_lines(fam, variant)
        recs, rc, err = M.run_script(ctx, b, wd, L, "ws")
        ctx.add("wide_seek_histories", 1)
        if rc != 0:
            core.report(ctx, "driver ended abnormally (rc=%s): %s" % (rc, err[-1500:]), {"kind": "script", "script": L[:200], "stderr": err[-3000:]})
            continue
        allrecs += recs
    for ex, line in core.validate_batch(ctx, allrecs, "ws"):
        core.report(ctx, "seek history on a merger over many sources not explained by the merged table at trace line %d: %s" % (line, json.dumps(ex[line - 1])[:300]),
                    {"kind": "trace", "trace": ex, "line": line})


def heap_orders(ctx, b):
    """the heap rebuilt by a seek over 7 live sources, for the orders in which their heads can stand in the array: every source
    holds two keys, the first seek on a fresh iterator (target below every key) re-seeks all of them; thorough: all 5040 orders of
    7 heads (both tiers) and, thorough, a sample for 8..10 sources"""
    import itertools
    rng = ctx.rng
    base = [bytes([0x42 + 2 * i]) for i in range(10)]
    perms = list(itertools.permutations(range(7)))
    # every source: its head, and a second key above all heads (a popped head is replaced by a key that sinks to the bottom, so the
    # array order of the remaining heads decides what comes out next)
    fams = [[[(base[i], [1 + 2 * j]), (b"z" + base[i], [2 + 2 * j])] for j, i in enumerate(p)] for p in perms]
    if not ctx.quick():
        for _ in range(3000):
            n = rng.choice([8, 9, 10])
            p = rng.sample(range(10), n)
            fams.append([[(base[i], [1 + 2 * j]), (b"z" + base[i], [2 + 2 * j])] for j, i in enumerate(p)])
    allrecs = []
    wd = ctx.sub("ho")
    for t, fam in enumerate(fams):
        L = M.setup_lines(wd, fam, "user", 0, 0)
        L += ["it_iter 1 m:0", "it_seek 1 41", "it_drain 1", "it_destroy 1"] + M.teardown_lines(fam, "user")
        recs, rc, err = M.run_script(ctx, b, wd, L, "ho")
        ctx.add("heap_order_histories", 1)
        if rc != 0:
            core.report(ctx, "driver ended abnormally (rc=%s): %s" % (rc, err[-1500:]), {"kind": "script", "script": L[:200], "stderr": err[-3000:]})
            continue
        allrecs += recs
        if len(allrecs) > 40000:
            for ex, line in core.validate_batch(ctx, allrecs, "ho%d" % t):
                core.report(ctx, "seek on a merger over 7+ sources (heads in a particular array order) not explained by the merged table at trace line %d: %s" % (line, json.dumps(ex[line - 1])[:300]),
                            {"kind": "trace", "trace": ex, "line": line})
            allrecs = []
    for ex, line in core.validate_batch(ctx, allrecs, "ho"):
        core.report(ctx, "seek on a merger over 7+ sources (heads in a particular array order) not explained by the merged table at trace line %d: %s" % (line, json.dumps(ex[line - 1])[:300]),
                    {"kind": "trace", "trace": ex, "line": line})


def regressions(ctx):
    rng = ctx.rng
    wd = ctx.sub("regr")
    fam = [[(b"", [1]), (b"a", [2]), (b"ab", [3]), (b"ba", [4])], [(b"a", [5]), (b"aa", [6]), (b"ba", [7]), (b"bb", [8])], [(b"ab", [9])]]
    targets = M.fam_targets(fam, rng, cap=9)
    bounds = M.fam_bounds(fam, targets, rng)
    r2, _ = M.model_graph(ctx, wd, fam, targets, bounds, 1, 0, dump=False, fixf2=False, name="R2")
    r8, _ = M.model_graph(ctx, wd, fam, targets, bounds, 1, 0, dump=False, fixf8=False, name="R8")
    ctx.cov["regression_FixF2_FALSE_fails"] = bool(r2.inv_violated)
    ctx.cov["regression_FixF8_FALSE_fails"] = bool(r8.inv_violated)


def run(ctx):
    b = build.build("asan")
    rng = ctx.rng
    nfam = 6 if ctx.quick() else 60
    variants = ["readers", "user", "nested", "mixed"]
    for n in range(nfam):
        fam = M.rand_family(rng, tokbase=1 + 100 * n)
        merge, dupsort = M.MODES[n % 4]
        if dupsort:
            fam = M.shuffle_tokens(fam, rng)
        if dupsort and not merge:
            fam = M.prefix_related_values(fam, rng)
        graph_family(ctx, b, n, fam, merge, dupsort, variants[(n // 4) % 4] if n >= 4 else "readers")
    regressions(ctx)
    dupsort_lookups(ctx, b)
    shrinking_merges(ctx, b)
    wide_seeks(ctx, b)
    heap_orders(ctx, b)
    random_histories(ctx, b)
    cov = {"states": ctx.cov.get("states", 0), "transitions": ctx.cov.get("transitions", 0),
           "traces_validated_against_impl": ctx.cov.get("traces_validated_against_impl", 0),
           "evaluations": ctx.cov.get("trace_events", 0), "distinct_nontrivial": ctx.cov.get("nontrivial_edges", 0), "exhaustive": False}
    return core.finish(ctx, "model_checking", cov, rule="per family and mode: all edges of the reachable graph of MC_Merger instantiated with the family; non-trivial = seek edges that change the model state; plus seeded random histories on larger families")


def replay(ctx, path):
    return M.replay(ctx, path)
