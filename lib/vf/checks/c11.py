"""C11 Every well-formed MTBL file is readable, not only the ones today's writer emits.

Specification: MC_Foreign.tla - the file format as a generator (any block partition, restart positions, amount of
prefix sharing, separators anywhere in the legal interval, both versions, compression, leading bytes); invariant
Readable: the implementation-shaped reader iterates exactly the logical table over every such structure (TLC,
exhaustive for a four-key table, -simulate beyond).
Binding: simulated structures are materialised by the independent encoder (lib/vf/refcodec.py) and read by the real
reader: full iteration, lookups around every key and separator, random seek histories, and - for a subset - every
edge of the reader model's state graph over the decoded foreign file; all validated by TLC against the abstract table."""
import json, os, re
from .. import core, build, gen, shapes, tablecheck as TC, refcodec as R, projection as P


def gen_structures(ctx, wd, keys, num):
    name = "MCF"
    with open(os.path.join(wd, name + ".tla"), "w") as f:
        f.write("---- MODULE %s ----\nEXTENDS MC_Foreign\nmcK == %s\n====\n" % (name, shapes.tla_seq([shapes.tla_bytes(k) for k in keys])))
    with open(os.path.join(wd, name + ".cfg"), "w") as f:
        f.write("SPECIFICATION Spec\nCONSTANTS\n KeySeq <- mcK\n Versions = {1, 2}\n Comps = {0, 1, 2, 3, 4, 5}\n PrefixLens = {0, 7, 600}\n FixF1 = TRUE\n"
                "INVARIANT Readable\nINVARIANT Dump\nCHECK_DEADLOCK FALSE\n")
    r = core.tlc(name, name + ".cfg", workers=2, cwd=wd, simulate="num=%d" % max(1, num // 2), timeout=600,
                 extra=["-depth", str(3 * len(keys) + 5), "-seed", str(ctx.rng.randint(1, 10 ** 9))],
                 java_opts=["-DTLA-Library=" + core.SPEC, "-Xss32m"])
    if r.inv_violated or r.error:
        raise core.Infra("MC_Foreign failed (specification problem):\n" + r.out[-3000:])
    out, seen = [], set()
    for m in re.finditer(r'<<"FOREIGN", "(.*?)">>', r.out):
        js = m.group(1).replace('\\"', '"')
        if js in seen:
            continue
        seen.add(js)
        out.append(json.loads(js))
    return out


def materialise(ctx, wd, n, keys, st, rng):
    vals = [P.xs_bytes(900000 + n * 100 + i, rng.choice([0, 1, 5, 60, 127, 128, 400])) for i in range(len(keys))]
    blocks = []
    for b in st["blks"]:
        ents = [(keys[i - 1], vals[i - 1]) for i in range(b["first"], b["last"] + 1)]
        blocks.append({"entries": ents, "restarts": set(x - 1 for x in b["rst"]), "sharing": b["share"], "sep": bytes(b["sep"])})
    comp = R.COMP[st["meta"]["comp"]]
    prefix = P.xs_bytes(77, st["meta"]["prefix"])
    data = R.encode(blocks, version=st["meta"]["version"], compression=comp, prefix=prefix,
                    index_restart_every=rng.choice([1, 2, 3, 16]))
    path = os.path.join(wd, "f%d.mtbl" % n)
    open(path, "wb").write(data)
    return path, list(zip(keys, vals))


def exercise_lines(rng, keys, seps, ri):
    cand = sorted(set(k2 for k in list(keys) + list(seps) for k2 in shapes.neighbours(k)) | {b""})
    L = ["r_init %d PATH %d 0" % (ri, rng.randint(0, 1)), "it_iter 1 r:%d" % ri, "it_drain 1", "it_destroy 1"]
    for q in rng.sample(cand, min(len(cand), 25)):
        for bd in (("get", q, b""), ("prefix", q, b""), ("range", q, rng.choice(cand))):
            L += [gen.open_line(1, "r:%d" % ri, bd), "it_drain 1", "it_destroy 1"]
    L.append("it_iter 2 r:%d" % ri)
    for _ in range(60):
        if rng.random() < 0.5:
            L.append("it_seek 2 %s" % shapes.hexs(rng.choice(cand)))
        else:
            L.append("it_next 2")
    L += ["it_destroy 2", "r_destroy %d" % ri]
    return L


def sparse_bigblock(ctx, b):
    """A foreign v2 file with one data block above 4 GiB (values in the holes of a sparse file, a restart point at every entry:
    64-bit restart array with offsets >= 2^32), read by the real reader: seeks and lookups whose binary search lands on those
    restart points. Quick: the huge values are not read (only one of them once); thorough: checksums verified, full iteration."""
    from .. import projection as P
    wd = ctx.sub("sparse")
    path = os.path.join(wd, "big.mtbl")
    ents, restarts = R.write_sparse_bigblock(path)

    def vrec(v):
        if isinstance(v, int):
            h = "%016x" % R.fnv64_zeros(v)
            return [-1, v] + [int(h[i:i + 4], 16) for i in range(0, 16, 4)]
        return P.vrec(v)
    mk = {"e": "MkTable", "path": path, "ents": [{"k": list(k), "v": vrec(v)} for k, v in ents]}
    hx = shapes.hexs
    L = ["scratch " + wd, "r_init 0 %s %d 0" % (path, 0 if ctx.quick() else 1)]
    L += ["it_iter 1 r:0", "it_seek 1 %s" % hx(b"c"), "it_drain 1", "it_seek 1 %s" % hx(b"cc"), "it_next 1 2", "it_seek 1 %s" % hx(b"dd"), "it_next 1 2",
          "it_seek 1 %s" % hx(b"b2"), "it_next 1 2", "it_seek 1 %s" % hx(b"d"), "it_next 1 1", "it_destroy 1"]
    for bd in (("get", b"c", b""), ("get", b"d", b""), ("get", b"dd", b""), ("get", b"cc", b""), ("prefix", b"d", b""), ("range", b"c", b"d"), ("range", b"bz", b"zz")):
        L += [gen.open_line(1, "r:0", bd), "it_drain 1", "it_destroy 1"]
    if not ctx.quick():
        L += ["it_iter 1 r:0", "it_drain 1", "it_destroy 1"]
    L.append("r_destroy 0")
    evs, rc, err = core.run_drv(b, "\n".join(L) + "\n", wd, "big", timeout=1800)
    ctx.cov["sparse_block_above_4GiB"] = {"restart_offsets": restarts, "entries": len(ents)}
    try:
        os.unlink(path)
    except OSError:
        pass
    if rc != 0:
        core.report(ctx, "real reader ended abnormally (rc=%s) on the sparse file with a block above 4 GiB: %s" % (rc, err[-1500:]), {"kind": "script", "script": L, "stderr": err[-3000:]})
        return
    recs = [{"e": "Reset", "x": 0}, mk] + [e for e in core.convert_events(evs) if e["e"] != "Reset"]
    for ex, line in core.validate_batch(ctx, recs, "sparsebig"):
        core.report(ctx, "real reader disagrees with the encoded entries of the block above 4 GiB at trace line %d: %s" % (line, json.dumps(ex[line - 1])[:300]),
                    {"kind": "trace", "trace": ex, "line": line})
    # the boundary itself: entry areas of 2^32 - d bytes for small d (32-bit restart array, but the block as a whole is longer
    # than 2^32 - 1 bytes) and just above 2^32 (64-bit array)
    for d in ((8, -5) if ctx.quick() else (1, 8, 15, 16, 17, 64, -1, -5)):
        path2 = os.path.join(wd, "edge%d.mtbl" % (d + 100))
        n1 = 1431655765
        n2 = (1 << 32) - d - 2 * n1 - 60
        for _ in range(3):                      # adjust the third value until the entry area has exactly the wanted length
            ents2 = [(b"a", n1), (b"a2", n1), (b"b", n2), (b"c", b"C" * 3)]
            segs, clen = R._sparse_block(ents2)
            earea = clen - (4 * (8 if d < 0 else 4) + 4)
            n2 += (1 << 32) - d - earea
        assert n2 < (1 << 31)
        if earea != (1 << 32) - d:
            raise core.Infra("edge file: entry area %d instead of 2^32 - %d" % (earea, d))
        R.write_sparse_table(path2, [ents2])
        mk2 = {"e": "MkTable", "path": path2, "ents": [{"k": list(k), "v": vrec(v)} for k, v in ents2]}
        L2 = ["scratch " + wd, "r_init 0 %s 0 0" % path2, "it_iter 1 r:0", "it_seek 1 %s" % hx(b"c"), "it_next 1 2", "it_seek 1 %s" % hx(b"bb"), "it_next 1 2", "it_destroy 1",
              gen.open_line(1, "r:0", ("get", b"c", b"")), "it_drain 1", "it_destroy 1", "r_destroy 0"]
        evs, rc, err = core.run_drv(b, "\n".join(L2) + "\n", wd, "edge", timeout=900)
        try:
            os.unlink(path2)
        except OSError:
            pass
        ctx.add("edge_blocks", 1)
        if rc != 0:
            core.report(ctx, "real reader ended abnormally (rc=%s) on a block whose entry area is 2^32 - %d bytes: %s" % (rc, d, err[-1200:]), {"kind": "script", "script": L2, "stderr": err[-3000:]})
            continue
        recs = [{"e": "Reset", "x": 0}, mk2] + [e for e in core.convert_events(evs) if e["e"] != "Reset"]
        for ex, line in core.validate_batch(ctx, recs, "edge"):
            core.report(ctx, "real reader disagrees with the encoded entries of a block whose entry area is 2^32 - %d bytes at trace line %d: %s" % (d, line, json.dumps(ex[line - 1])[:300]),
                        {"kind": "trace", "trace": ex, "line": line})


def smallest_tables(ctx, b):
    """the smallest well-formed files in both format versions, behind 0 / 13 / 1000 foreign bytes: the empty table (no data block, an index
    block that is only its restart array: the file is exactly as long as the reader's minimum) and tables of one entry of 0, 1, 2 payload bytes"""
    rng = ctx.rng
    wd = ctx.sub("small")
    recs, lines = [], ["scratch " + wd]
    n = 0
    items = []
    for version in (1, 2):
        for plen in (0, 13, 1000):
            for ents in ([], [(b"", b"")], [(b"a", b"")], [(b"", b"v")], [(b"a", b"v")], [(b"", b""), (b"a", b"")]):
                blocks = [{"entries": ents, "restarts": {0}, "sep": ents[-1][0]}] if ents else []
                data = R.encode(blocks, version=version, compression="none", prefix=P.xs_bytes(78, plen), index_restart_every=rng.choice([1, 16]))
                path = os.path.join(wd, "s%d.mtbl" % n)
                open(path, "wb").write(data)
                items.append((path, ents))
                lines.append("note mk%d" % n)
                lines += ["r_init 0 %s %d 0" % (path, n % 2), "it_iter 1 r:0", "it_drain 1", "it_seek 1 %s" % shapes.hexs(b""), "it_drain 1", "it_destroy 1"]
                for q in (b"", b"a", b"b"):
                    for bd in (("get", q, b""), ("prefix", q, b""), ("range", b"", q)):
                        lines += [gen.open_line(1, "r:0", bd), "it_drain 1", "it_destroy 1"]
                lines.append("r_destroy 0")
                n += 1
    evs, rc, err = core.run_drv(b, "\n".join(lines) + "\n", wd, "small")
    ctx.add("smallest_files", n)
    if rc != 0:
        core.report(ctx, "real reader ended abnormally (rc=%s) on the smallest well-formed files: %s" % (rc, err[-1500:]), {"kind": "script", "script": lines, "stderr": err[-3000:]})
        return
    for e in core.convert_events(evs):
        if e["e"] == "Note" and e["t"].startswith("mk"):
            k = int(e["t"][2:])
            recs.append({"e": "Reset", "x": k})
            recs.append(TC.mktable_rec(items[k][0], items[k][1]))
        elif e["e"] != "Reset":
            recs.append(e)
    for ex, line in core.validate_batch(ctx, recs, "small"):
        core.report(ctx, "real reader disagrees with the encoded entries of a smallest file at trace line %d: %s" % (line, json.dumps(ex[line - 1])[:300]),
                    {"kind": "trace", "trace": ex, "line": line})


def run(ctx):
    b = build.build("asan")
    rng = ctx.rng
    r0 = core.tlc("MC_Foreign_small", "MC_Foreign_small.cfg", workers=8, timeout=600)
    if not r0.ok:
        raise core.Infra("MC_Foreign_small failed:\n" + r0.out[-3000:])
    ctx.add("states", r0.distinct)
    ctx.add("transitions", r0.generated)
    ntab = 3 if ctx.quick() else 16
    per = 70 if ctx.quick() else 350
    ngraph = 2 if ctx.quick() else 4
    for t in range(ntab):
        wd = ctx.sub("tab%d" % t)
        alpha = rng.choice([gen.ALPHA6, [0x61, 0x62], list(range(256))])
        keys = gen.rand_keys(rng, rng.choice([6, 9, 12]), alpha=alpha, maxlen=4)
        if t == 0 and b"" not in keys:
            keys = [b""] + keys
        if rng.random() < 0.3:
            keys = sorted(set(keys + [bytes([0x61]) * 130, bytes([0x61]) * 130 + b"\x00"]))
        sts = gen_structures(ctx, wd, keys, per)
        ctx.add("structures", len(sts))
        recs, lines = [], ["scratch " + wd]
        for n, st in enumerate(sts):
            path, ents = materialise(ctx, wd, n, keys, st, rng)
            lines.append("note mk%d" % n)
            L = exercise_lines(rng, keys, [bytes(x["sep"]) for x in st["blks"]], 0)
            lines += [x.replace("PATH", path) for x in L]
            st["_path"], st["_ents"] = path, ents
        evs, rc, err = core.run_drv(b, "\n".join(lines) + "\n", wd, "rd")
        if rc != 0:
            core.report(ctx, "real reader ended abnormally (rc=%s) on files of the reference encoder: %s" % (rc, err[-1500:]),
                        {"kind": "script", "stderr": err[-3000:], "keys": [k.hex() for k in keys], "structures": [dict((k, v) for k, v in s.items() if not k.startswith("_")) for s in sts][:20]})
            continue
        for e in core.convert_events(evs):
            if e["e"] == "Note" and e["t"].startswith("mk"):
                n = int(e["t"][2:])
                recs.append({"e": "Reset", "x": n})
                recs.append(TC.mktable_rec(sts[n]["_path"], sts[n]["_ents"]))
            elif e["e"] != "Reset":
                recs.append(e)
        for ex, line in core.validate_batch(ctx, recs, "tab%d" % t):
            x = ex[0].get("x", 0)
            core.report(ctx, "real reader disagrees with the encoded entries at trace line %d: %s" % (line, json.dumps(ex[line - 1])[:300]),
                        {"kind": "trace", "trace": ex, "line": line, "structure": dict((k, v) for k, v in sts[x].items() if not k.startswith("_")), "keys": [k.hex() for k in keys]})
        ctx.sample({"keys": [k.hex() for k in keys][:6], "structure": dict((k, v) for k, v in sts[0].items() if not k.startswith("_"))} if sts else {})
        # C03-style: full state-graph replay over a few foreign files
        for st in sts[:ngraph]:
            s = R.decode(st["_path"])
            F = shapes.struct_to_F(s)
            targets = shapes.pick_targets(F, rng, cap=14)
            bounds = shapes.pick_bounds(F, targets, rng, n_get=2, n_prefix=2, n_range=2)
            rr, dot = TC.model_graph(ctx, wd, F, targets, bounds, True, name="MCG")
            if not rr.ok:
                raise core.Infra("MC_Reader does not hold on a foreign structure (specification problem):\n" + rr.out[-3000:])
            ctx.add("states", rr.distinct)
            ctx.add("transitions", rr.generated)
            inits, edges, nn, ne = shapes.parse_dot(dot)
            os.unlink(dot)
            walks = shapes.covering_walks(inits, edges, rng)
            L = ["scratch " + wd, "r_init 0 %s 1 0" % st["_path"]] + TC.walks_script(rng, "r:0", walks, inits, bounds, targets) + ["r_destroy 0"]
            evs, rc, err = core.run_drv(b, "\n".join(L) + "\n", wd, "g")
            ctx.add("edges_replayed", ne)
            if rc != 0:
                core.report(ctx, "real reader ended abnormally on a foreign file (graph replay): %s" % err[-1000:], {"kind": "script", "stderr": err[-3000:]})
                continue
            recs = [{"e": "Reset", "x": 0}, TC.mktable_rec(st["_path"], st["_ents"])] + [e for e in core.convert_events(evs) if e["e"] != "Reset"]
            for ex, line in core.validate_batch(ctx, recs, "g"):
                core.report(ctx, "graph replay on a foreign file rejected at line %d: %s" % (line, json.dumps(ex[line - 1])[:300]),
                            {"kind": "trace", "trace": ex, "line": line, "structure": dict((k, v) for k, v in st.items() if not k.startswith("_"))})
        for st in sts:
            try:
                os.unlink(st["_path"])
            except OSError:
                pass
    smallest_tables(ctx, b)
    sparse_bigblock(ctx, b)
    if ctx.quick():
        ctx.notes.append("block_builder on a block above 4 GiB is exercised in the thorough tier only (needs ~11 GiB of memory); the reader side is exercised on a sparse file")
    else:
        import subprocess
        prog = build.compile_prog("plain", "bigblock", ["bigblock.c", "seams_pass.c"])
        free_kb = 0
        for ln in open("/proc/meminfo"):
            if ln.startswith("MemAvailable"):
                free_kb = int(ln.split()[1])
        if free_kb < 14 * 1024 * 1024:
            recs = [{"e": "BigBlock", "skipped": "less than 14 GiB available"}]
        else:
            p = subprocess.run([prog, "5", "1024", "2"], stdout=subprocess.PIPE, stderr=subprocess.PIPE, text=True, timeout=1200)
            recs = [json.loads(p.stdout.strip().splitlines()[-1])] if p.returncode == 0 and p.stdout.strip() else [{"e": "BigBlock", "n": 5, "ri": 2, "wide": False, "seen": 0, "content_ok": False, "seek_ok": False, "estimate_matches": False, "restarts": 0, "rc": p.returncode}]
        ctx.cov["big_block"] = recs[0]
        for ex, line in core.validate_batch(ctx, [{"e": "Reset", "x": 0}] + recs, "bigblock"):
            core.report(ctx, "block above 4 GiB does not round-trip through block_builder / block: %s" % json.dumps(recs[0]), {"kind": "trace", "trace": ex, "line": line})
    cov = {"states": ctx.cov.get("states", 0), "transitions": ctx.cov.get("transitions", 0),
           "traces_validated_against_impl": ctx.cov.get("traces_validated_against_impl", 0),
           "evaluations": ctx.cov.get("trace_events", 0), "distinct_nontrivial": ctx.cov.get("structures", 0), "exhaustive": False}
    return core.finish(ctx, "model_checking", cov, rule="distinct structures printed by tlc -simulate of MC_Foreign (format version x compression x prefix x partition x restart sets x sharing x separators), each encoded independently and read by the real reader")


def replay(ctx, path):
    from .. import writerside as W
    return W.replay(ctx, path)
