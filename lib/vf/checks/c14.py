"""C14 No data races in the concurrent uses the API allows.

Specification: Race.tla - the ThreadPool model with every step annotated with the shared locations it reads and writes
(mailbox fields, queue links, counters, the unlocked assertions, a location standing for the writer / sorter fields the
result callback touches) and a bounded happens-before relation (no vector clocks: per location the threads to which its
last write is visible and the reads since; per mutex what earlier releases carry); invariant NoRace over all
interleavings of small configurations (TLC). That decides race freedom of the *design*.
Binding: the annotations were read off the source, so the compiled code's accesses can only be observed: the concurrent
programs the model describes (several pooled writers / sorters from different caller threads on one pool, pooled objects
from one thread, N threads iterating and querying one reader) run with real threads under ThreadSanitizer, schedules
perturbed by seeded yields, all compressions; a report is the process-level observation the property names. Judged by
TLC (Trace_Race)."""
import os, json, subprocess, re
from concurrent.futures import ThreadPoolExecutor
from .. import core, build, gen

LEVEL = "other"


def run(ctx):
    b = build.build("tsan")
    prog = build.compile_prog("tsan", "race_drv", ["race_drv.c", "seams_pass.c"])
    cfgs = ["MC_Race_q1.cfg", "MC_Race_q2.cfg"] if ctx.quick() else ["MC_Race_q1.cfg", "MC_Race_q2.cfg", "MC_Race_t1.cfg", "MC_Race_t2.cfg", "MC_Race_t3.cfg", "MC_Race_tm.cfg"]
    for c in cfgs:
        r = core.tlc("Race", c, workers=8 if ctx.quick() else 12, timeout=3000)
        if not r.ok:
            raise core.Infra("Race model failed on %s (specification problem):\n%s" % (c, r.out[-3000:]))
        ctx.add("states", r.distinct)
        ctx.add("transitions", r.generated)
    wd = ctx.sub("tsan")
    jobs = []
    reps = 4 if ctx.quick() else 16
    # every compression type where the scenario compresses or decompresses blocks on several threads (each codec has its own
    # state handling); the sorter's temporary files have a fixed compression, so those scenarios take fewer types
    for sc in ("writers", "sorters", "mixed", "readers", "single", "abandon", "sortedge", "manyjobs", "failmerge"):
        if ctx.quick():
            comps = gen.COMPS if sc in ("writers", "readers") else ["zlib", "lz4hc", "zstd"] if sc in ("mixed", "single") else ["none"]
        else:
            comps = gen.COMPS
        for comp in comps:
            for k in range(reps if (ctx.quick() or sc in ("writers", "readers", "mixed", "single")) else reps):
                jobs.append((sc, comp, ctx.seed % 10000 + k * 13 + len(jobs)))

    def one(job):
        sc, comp, seed = job
        d = os.path.join(wd, "%s_%s_%d" % (sc, comp, seed))
        os.makedirs(d, exist_ok=True)
        env = dict(os.environ, TSAN_OPTIONS="exitcode=66:halt_on_error=0:report_signal_unsafe=0")
        try:
            p = subprocess.run([prog, sc, d, str(seed), comp], stdout=subprocess.PIPE, stderr=subprocess.PIPE, text=True, timeout=300, env=env, errors="replace")
            rc, err, outp = p.returncode, p.stderr, p.stdout
        except subprocess.TimeoutExpired:
            rc, err, outp = -999, "TIMEOUT", ""
        races = len(re.findall(r"WARNING: ThreadSanitizer: data race", err))
        status = "ok" if rc in (0, 66) and "ok" in outp else ("timeout" if rc == -999 else "failed rc=%d %s" % (rc, outp.strip()[:60]))
        first = ""
        m = re.search(r"WARNING: ThreadSanitizer: data race.*?\n(.*?\n.*?\n.*?\n.*?\n)", err, re.S)
        if m:
            first = m.group(0)[:600]
        return {"e": "TsanRun", "scenario": sc, "comp": comp, "seed": seed, "races": races, "status": status, "first_report": first}
    with ThreadPoolExecutor(max_workers=8) as ex:
        recs = list(ex.map(one, jobs))
    ctx.add("tsan_runs", len(recs))
    ctx.sample({k: v for k, v in recs[0].items() if k != "first_report"})
    tp = os.path.join(ctx.sub("traces"), "tsan.ndjson")
    core.write_trace(tp, recs)
    ok, depth, r = core.validate_trace(tp, "Trace_Race")
    if not ok:
        seen = set()
        for r0 in recs:
            if r0["races"] == 0 and r0["status"] == "ok":
                continue
            key = (r0["scenario"], r0["first_report"][:200])
            if key in seen:
                continue
            seen.add(key)
            core.report(ctx, "ThreadSanitizer run %s/%s seed %d: %d data race report(s), status %s\n%s" % (r0["scenario"], r0["comp"], r0["seed"], r0["races"], r0["status"], r0["first_report"]),
                        {"kind": "trace", "module": "Trace_Race", "trace": [r0], "line": 1})
    else:
        ctx.add("traces_validated_against_impl", len(recs))
    cov = {"explanation": "design level: TLC checks NoRace of the annotated thread-pool model over all interleavings of the listed configurations (states/transitions below); code level: ThreadSanitizer observes real-thread executions of the concurrent programs the API allows (sampled schedules) - an unmodelled racy access on a path the sampled schedules never overlap would be missed",
           "states": ctx.cov.get("states", 0), "transitions": ctx.cov.get("transitions", 0), "evaluations": len(recs), "distinct_nontrivial": len(set((r0["scenario"], r0["comp"]) for r0 in recs)),
           "traces_validated_against_impl": ctx.cov.get("traces_validated_against_impl", 0)}
    return core.finish(ctx, LEVEL, cov, rule="TSan runs = scenario x compression x seed; distinct_nontrivial = distinct (scenario, compression)")


def replay(ctx, path):
    obj = json.load(open(path))
    print(json.dumps(obj["trace"][0], indent=1)[:3000])
    ctx.cleanup()
    return 1
