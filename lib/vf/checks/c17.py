"""C17 mtbl_crc32c is the standard CRC-32C on every buffer, both implementations.

Specification: Crc32c.tla - CRC-32C as a byte-at-a-time state machine whose table is derived inside TLA+ from the
bit-serial shift register; the four RFC 3720 vectors are asserted on the specification. Trace_Crc.tla runs that machine
over the bytes the harness feeds and compares every logged result.
Binding: harness/codec_drv.c logs, for six streams (the RFC vectors, every byte value at every position modulo 8, a
mixed stream), after each appended byte the result of mtbl_crc32c (dispatch), my_crc32c_slicing, my_crc32c_sse42 (when
the CPU supports it) and the harness's bitwise reference at every alignment 0..7; TLC validates all of them. Random large
buffers are then compared against that (TLC-validated) reference in a harness loop - breadth that is not TLC's work."""
import os, subprocess, json
from .. import core, build

LEVEL = "exploration"


def run(ctx):
    b = build.build("plain")
    prog = build.compile_prog("plain", "codec_drv", ["codec_drv.c"])
    wd = ctx.sub("crc")
    out = os.path.join(wd, "crc.ndjson")
    p = subprocess.run([prog, "crc", out], stdout=subprocess.PIPE, stderr=subprocess.PIPE, text=True, timeout=600)
    if p.returncode != 0:
        if p.returncode < 0:
            # the harness only calls the functions under test on valid buffers: a signal is the functions' doing
            core.report(ctx, "the checksum functions ended the process with signal %d while being called on valid buffers (after %d logged calls): %s" % (
                -p.returncode, sum(1 for _ in open(out)) if os.path.exists(out) else 0, p.stderr[-300:]), {"kind": "output", "stdout": p.stderr[-2000:]})
            return core.finish(ctx, LEVEL, {"evaluations": 0, "distinct_nontrivial": 0}, rule="the run ended abnormally")
        if p.returncode == 1 and "MISMATCH first checksum" in p.stdout:
            core.report(ctx, "the first checksum of the process, asked for by an initialiser running before main, is wrong: " + p.stdout[-200:], {"kind": "output", "stdout": p.stdout[-2000:]})
            return core.finish(ctx, LEVEL, {"evaluations": 1, "distinct_nontrivial": 1}, rule="the run ended at the first checksum")
        raise core.Infra("codec_drv crc failed: " + p.stderr[-500:])
    recs = [json.loads(l) for l in open(out)]
    sse = any(r.get("sse42") for r in recs if r["e"] == "Stream")
    ncrc = sum(1 for r in recs if r["e"] == "Crc")
    nres = sum(len(r["r"]) for r in recs if r["e"] == "Crc")
    ok, depth, r = core.validate_trace(out, "Trace_Crc", timeout=1800)
    ctx.add("prefixes", ncrc)
    ctx.add("results_checked_by_tlc", nres)
    ctx.sample({"stream": 4, "len": 9, "results": next(x for x in recs if x["e"] == "Crc" and x["len"] == 9)["r"][:4]})
    if not ok:
        ev = recs[depth - 1] if depth and depth <= len(recs) else {}
        core.report(ctx, "CRC result differs from the CRC-32C state machine at trace line %s: %s" % (depth, json.dumps(ev)[:300]),
                    {"kind": "trace", "module": "Trace_Crc", "trace": recs[:depth], "line": depth})
    else:
        ctx.add("traces_validated_against_impl", 1)
    n = 60 if ctx.quick() else 1500
    p = subprocess.run([prog, "crcrand", str(ctx.seed), str(n)], stdout=subprocess.PIPE, stderr=subprocess.PIPE, text=True, timeout=3000)
    ctx.cov["random_large_buffers"] = n
    if p.returncode != 0:
        core.report(ctx, "random large buffers: implementation differs from the validated reference: " + p.stdout[-600:], {"kind": "output", "stdout": p.stdout[-3000:]})
    # lengths around 4 GiB (thorough: 8 GiB) in sparse memory: the reference crosses the zero runs with the power of the
    # one-zero-byte operator and is first compared with the plain bitwise loop
    p = subprocess.run([prog, "crcbig", "0" if ctx.quick() else "1"], stdout=subprocess.PIPE, stderr=subprocess.PIPE, text=True, timeout=3000)
    ctx.cov["huge_buffers"] = 6 if ctx.quick() else 10
    if p.returncode == 1:
        core.report(ctx, "buffers of 4 GiB and more: implementation differs from the reference: " + p.stdout[-600:], {"kind": "output", "stdout": p.stdout[-3000:]})
    elif p.returncode != 0:
        ctx.notes.append("buffers of 4 GiB and more were not checked: " + (p.stdout + p.stderr)[-200:])
    if not sse:
        ctx.notes.append("this CPU has no SSE4.2: my_crc32c_sse42 was not exercised")
    cov = {"evaluations": nres + n * (3 if sse else 2), "distinct_nontrivial": ncrc, "sse42_exercised": sse, "traces_validated_against_impl": ctx.cov.get("traces_validated_against_impl", 0)}
    return core.finish(ctx, LEVEL, cov, rule="every prefix length of six streams (RFC 3720 vectors; every byte value at every position mod 8 up to 2048 bytes; mixed up to 1100) x alignments 0..7 x implementations, each judged by the TLA+ CRC machine; "
                       "random large buffers against the validated reference; distinct_nontrivial = distinct (stream, length) prefixes")


def replay(ctx, path):
    obj = json.load(open(path))
    if obj.get("kind") != "trace":
        print(obj.get("stdout", "")); ctx.cleanup(); return 1
    p = os.path.join(ctx.sub("replay"), "t.ndjson")
    core.write_trace(p, obj["trace"])
    ok, depth, r = core.validate_trace(p, obj.get("module"))
    print("replay: trace %s (depth %s of %d lines)" % ("accepted" if ok else "rejected", depth, len(obj["trace"])))
    ctx.cleanup()
    return 0 if ok else 1
