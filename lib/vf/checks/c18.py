"""C18 Destroying all objects releases every descriptor, mapping, temp file, allocation.

Specification: Lifecycle.tla - object life cycles (pool, writer, readers, merger, sorter pooled / failing, fileset and
dup, iterators) with every legal order of creation, use, abandonment and destruction, failing calls included; TLC checks
Released and WellFormed over the complete bounded space and prints behaviours for replay. Mtbl!LedgerOk gives, as a
function of the abstract API state, what the process may hold after every step (descriptors = open writers; mappings =
readers + spilled sorter chunks + files a fileset has loaded; threads = caller + result handlers + at most the pools'
workers) and that nothing is held once every object is destroyed.
Binding: behaviours replayed on the real library (ASan + LeakSanitizer build, -DMTBL_VERIF so a few entries make several
chunks); after every operation the driver records /proc/self/fd, the mappings of test files in /proc/self/maps, the
thread count and the listing of the sorter's temp directory; at quiescence a recoverable LeakSanitizer check. All judged
by TLC against the ledger."""
import os, re, json
from .. import mergerside as M, core, build, gen, shapes, mergerside as M

LEVEL = "model_checking"


def tlc_models(ctx):
    r = core.tlc("Lifecycle", "MC_Lifecycle.cfg", workers=8, timeout=1800)
    if not r.ok:
        raise core.Infra("Lifecycle model failed (specification problem):\n" + r.out[-3000:])
    ctx.add("states", r.distinct)
    ctx.add("transitions", r.generated)


def tlc_behaviours(ctx, num):
    r = core.tlc("Lifecycle", "MC_Lifecycle_sim.cfg", workers=2, simulate="num=%d" % max(1, num // 2), timeout=900,
                 extra=["-depth", "24", "-seed", str(ctx.seed)])
    if r.inv_violated or r.error:
        raise core.Infra("Lifecycle simulation failed:\n" + r.out[-3000:])
    out, seen = [], set()
    for m in re.finditer(r'<<\s*"HIST",\s*(<<.*?>>)\s*>>\s*\n(?=\S|$)', r.out, re.S):
        txt = re.sub(r"\s+", " ", m.group(1))
        if txt in seen:
            continue
        seen.add(txt)
        ops = []
        for t in re.finditer(r'<<\s*"(\w+)"((?:[^<>]|<<[^<>]*>>)*)>>', txt):
            name, rest = t.group(1), t.group(2)
            args = re.findall(r'"(\w+)"|(-?\d+)', rest)
            ops.append((name, [a if a else int(b) for a, b in args]))
        out.append(ops)
    return out


def script_for(wd, n, ops, rng):
    d = os.path.join(wd, "h%d" % n)
    os.makedirs(d, exist_ok=True)
    tmp = os.path.join(d, "tmp")
    os.makedirs(tmp, exist_ok=True)
    A, Bf, G, setf, outw = [os.path.join(d, x) for x in ("A.mtbl", "B.mtbl", "garbage", "set.txt", "out.mtbl")]
    L = ["scratch " + d, "clock 1000"]
    for path, ks in ((A, ["a", "b", "c", "d"]), (Bf, ["b", "e"])):
        L.append("w_init 9 %s zlib default 1024 2 -1 0" % path)
        for i, k in enumerate(ks):
            L.append("w_add 9 %s T%d" % (k.encode().hex(), 500 + i + (0 if path == A else 50)))
        L.append("w_close 9")
    L.append("mkfile %s 6e6f742061207461626c65" % G)
    L.append("setfile %s 5000 A.mtbl B.mtbl" % setf)
    L.append("obs " + tmp)          # base
    st = {"pool": False, "w": False, "wk": 0, "r": set(), "m": False, "s": None, "f": set(), "it": {}, "tok": 1, "mtime": 5000, "skey": 0, "sfail": False}

    def o(line):
        L.append(line)
        L.append("obs " + tmp)
    for (name, a) in ops:
        if name == "pool_init":
            o("pool_init 0 %d" % a[0]); st["pool"] = True
        elif name == "pool_destroy":
            o("pool_destroy 0"); st["pool"] = False
        elif name == "w_init":
            o("w_init 0 %s %s default 1024 2 %d 0" % (outw, rng.choice(["none", "zlib", "snappy"]), 0 if a[0] else -1)); st["w"] = True; st["wk"] = 0
        elif name == "w_add":
            if a[0]:
                o("w_add 0 %s G7x300" % ("k%03d" % max(0, st["wk"] - 1)).encode().hex())      # refused: not greater than the last key
            else:
                o("w_add 0 %s G%dx400" % (("k%03d" % st["wk"]).encode().hex(), 900 + st["wk"])); st["wk"] += 1
        elif name == "w_close":
            o("w_close 0"); st["w"] = False
        elif name == "r_init":
            o("r_init %d %s %d 0" % (a[0], A if a[0] == 1 else Bf, rng.randint(0, 1))); st["r"].add(a[0])
        elif name == "r_init_bad":
            o("r_init 7 %s 0 0" % (G if rng.random() < 0.5 else os.path.join(d, "missing")))
        elif name == "r_destroy":
            o("r_destroy %d" % a[0]); st["r"].discard(a[0])
        elif name == "m_init":
            L.append("m_init 0 1 -1 0"); L.append("m_add 0 r:1"); o("m_add 0 r:2"); st["m"] = True
        elif name == "m_destroy":
            o("m_destroy 0"); st["m"] = False
        elif name == "s_init":
            pooled, fail = a
            st["sfail"] = bool(fail)
            o("s_init 0 %d %s 1 %d %d" % (100000 if fail else rng.choice([40, 60, 90]), tmp, st["tok"] if fail else -1, 0 if pooled else -1)); st["s"] = "adding"
        elif name == "s_add":
            for _ in range(a[0]):
                key = b"k" if st["sfail"] else [b"", b"a", b"b"][st["skey"] % 3]
                st["skey"] += 1
                o("s_add 0 %s T%d,%d" % (shapes.hexs(key), st["tok"], st["tok"] + 1)); st["tok"] += 2
        elif name == "s_add_refused":
            o("s_add 0 61 T%d" % st["tok"]); st["tok"] += 1
        elif name == "s_iter":
            o("s_iter 0 %d" % a[0]); st["it"][a[0]] = "s"; st["s"] = "iterating"
        elif name == "s_iter_fails":
            o("s_iter 0 8"); L.append("it_destroy 8"); st["s"] = "failed"
        elif name == "s_destroy":
            o("s_destroy 0"); st["s"] = None
        elif name == "fs_init":
            o("fs_init 1 %s never 1 0 - 0" % setf); st["f"].add(1)
        elif name == "fs_dup":
            o("fs_dup 2 1 0 1 0 - 0"); st["f"].add(2)
        elif name == "fs_rewrite":
            st["mtime"] += 1
            o("setfile %s %d %s" % (setf, st["mtime"], rng.choice(["A.mtbl", "B.mtbl", "A.mtbl B.mtbl", "A.mtbl garbage missing"])))
        elif name == "fs_reload_now":
            o("fs_reload_now %d" % a[0])
        elif name == "fs_destroy":
            o("fs_destroy %d" % a[0]); st["f"].discard(a[0])
        elif name == "it_open":
            i, on, kind = a[0], a[1], a[-1]
            src = "r:%d" % a[2] if on == "r" else "m:0" if on == "m" else "f:%d" % a[2]
            bd = (kind, b"b" if kind != "iter" else b"", b"d" if kind == "range" else b"")
            o(gen.open_line(i, src, bd)); st["it"][i] = on
        elif name == "it_next":
            o("it_next %d %d" % (a[0], a[1]))
        elif name == "it_destroy":
            o("it_destroy %d" % a[0]); st["it"].pop(a[0], None)
    # destroy what is still alive, in a legal order
    for i in list(st["it"]):
        o("it_destroy %d" % i)
    if st["m"]:
        o("m_destroy 0")
    for r in sorted(st["r"]):
        o("r_destroy %d" % r)
    if st["s"]:
        o("s_destroy 0")
    for h in sorted(st["f"]):
        o("fs_destroy %d" % h)
    if st["w"]:
        o("w_close 0")
    if st["pool"]:
        o("pool_destroy 0")
    L.append("obs " + tmp)
    L.append("leakcheck")
    return L


def focused_histories(rng, n):
    """histories concentrated on one object each (same vocabulary as Lifecycle.tla): filesets whose setfile keeps changing
    between reloads, sorters destroyed at every point of their life"""
    out = []
    for t in range(n):
        ops = []
        if t % 2 == 0:
            ops.append(("fs_init", []))
            if rng.random() < 0.5:
                ops.append(("fs_dup", []))
            for _ in range(rng.randint(2, 6)):
                ops.append(("fs_rewrite", []))
                ops.append(("fs_reload_now", [rng.choice([1, 2]) if ("fs_dup", []) in ops else 1]))
                if rng.random() < 0.4:
                    ops.append(("it_open", [1, "f", 1, "iter"]))
                    ops.append(("it_next", [1, rng.choice([1, 100])]))
                    ops.append(("it_destroy", [1]))
        else:
            pooled = rng.random() < 0.7
            if pooled:
                ops.append(("pool_init", [rng.choice([1, 3])]))
            fail = (not pooled) and rng.random() < 0.4
            ops.append(("s_init", [1 if pooled else 0, 1 if fail else 0]))
            for _ in range(rng.randint(0, 5)):
                ops.append(("s_add", [rng.choice([1, 4])]))
            if rng.random() < 0.5:
                ops.append(("s_iter_fails", []) if (fail and sum(o[1][0] for o in ops if o[0] == "s_add") > 1) else ("s_iter", [1]))
                if ops[-1][0] == "s_iter":
                    if rng.random() < 0.5:
                        ops.append(("it_next", [1, rng.choice([1, 100])]))
                    ops.append(("s_add_refused", []))
                    ops.append(("it_destroy", [1]))
            ops.append(("s_destroy", []))
        out.append(ops)
    return out


def inflight(ctx):
    """pooled sorters destroyed while chunk jobs are still in flight, under the deterministic scheduler with ASan:
    the scheduler decides when the jobs complete relative to mtbl_sorter_destroy"""
    b = build.build("schedasan")
    rng = ctx.rng
    wd = ctx.sub("inflight")
    lines = []
    nsched = 120 if ctx.quick() else 1500
    for k in range(nsched):
        tmp = os.path.join(wd, "t%d" % k)
        os.makedirs(tmp, exist_ok=True)
        L = ["scratch " + wd, "pool_init 0 %d" % rng.choice([1, 2, 3]), "s_init 0 %d %s 1 -1 0" % (rng.choice([30, 60]), tmp)]
        tok = 1
        for a in range(rng.choice([3, 6, 10])):
            L.append("s_add 0 %s T%d,%d" % (shapes.hexs(rng.choice([b"", b"a", b"b", b"c"])), tok, tok + 1))
            tok += 2
        L += ["s_destroy 0", "pool_destroy 0", "obs " + tmp, "---"]
        lines += L
    evs, rc, err = core.run_drv(b, "\n".join(lines) + "\n", wd, "inflight", fork=True, timeout=1500,
                                env={"VS_SEED": str(ctx.seed % 100000), "VS_SPUR": "5", "VS_MODE": "0", "ASAN_OPTIONS": "detect_leaks=0:exitcode=99"})
    for ex in core.split_execs(evs):
        ext = [e for e in ex if e["e"] == "Exit"]
        ctx.add("inflight_schedules", 1)
        if ext and (ext[0]["code"] != 0 or ext[0]["sig"] != 0):
            core.report(ctx, "pooled sorter destroyed with chunk jobs in flight (schedule seed %d+%d): process ended with code %s signal %s (99 = AddressSanitizer report, 3 = deadlock verdict)" % (
                ctx.seed % 100000, ex[0].get("x", 0), ext[0]["code"], ext[0]["sig"]), {"kind": "abnormal", "why": "code %s signal %s" % (ext[0]["code"], ext[0]["sig"]), "seed": ctx.seed % 100000 + ex[0].get("x", 0)})
        obs = [e for e in ex if e["e"] == "Obs"]
        if obs and (obs[-1]["tmpfiles"] > 0 or obs[-1]["maps"] > 0):
            core.report(ctx, "pooled sorter destroyed with jobs in flight left %d temp file(s) / %d mapping(s) behind" % (obs[-1]["tmpfiles"], obs[-1]["maps"]), {"kind": "abnormal", "why": "leftovers", "obs": obs[-1]})


def size_sweep(ctx, b):
    """readers opened and destroyed on tables whose sizes sweep two pages (what is mapped and what is unmapped are computed
    from the file size; pages are the unit the kernel releases), and on files of special sizes that are refused"""
    rng = ctx.rng
    d = ctx.sub("sizes")
    tmp = os.path.join(d, "tmp")
    os.makedirs(tmp, exist_ok=True)
    step = 96 if ctx.quick() else 12
    L = ["scratch " + d, "clock 1000", "null_destroys"]
    paths = []
    longkeys, firstkey = set(), {}
    for n, vlen in enumerate(range(3500, 3500 + 4096 + 700, step)):
        pth = os.path.join(d, "z%d.mtbl" % n)
        if n % 3 == 2:
            # keys of several hundred bytes (internal buffers grow past their initial capacity and are reset for the next key)
            k1, k2, k3 = (shapes.hexs(bytes([0x6b]) * 300 + bytes([c])) for c in (1, 2, 3))
            L += ["w_init 9 %s none default 1024 2 -1 0" % pth, "w_add 9 %s G%dx%d" % (k1, 40000 + n, vlen // 3), "w_add 9 %s G%dx%d" % (k2, 41000 + n, vlen // 3),
                  "w_add 9 %s G%dx%d" % (k3, 42000 + n, vlen // 3 + rng.randint(0, step - 1)), "w_close 9"]
            longkeys.add(pth)
            firstkey[pth] = k1
        else:
            L += ["w_init 9 %s none default 1024 2 -1 0" % pth, "w_add 9 6b G%dx%d" % (40000 + n, vlen + rng.randint(0, step - 1)), "w_close 9"]
        paths.append(pth)
    # refused files: zero bytes of special sizes, and a real table cut short
    bad = []
    for sz in (1, 511, 512, 513, 1024, 4096, 4608, 8192):
        pth = os.path.join(d, "zero%d" % sz)
        open(pth, "wb").write(bytes(sz))
        bad.append(pth)
    L.append("obs " + tmp)

    def o(line):
        L.append(line)
        L.append("obs " + tmp)
    for pth in paths:
        o("r_init 1 %s %d 0" % (pth, rng.randint(0, 1)))
        o("it_iter 1 r:1")
        o("it_next 1 1")
        if pth in longkeys:
            o("it_next 1 2")
            o("it_seek 1 " + firstkey[pth])
            o("it_next 1 1")
        o("it_destroy 1")
        o("r_destroy 1")
    for pth in bad:
        o("r_init 7 %s 0 0" % pth)
    L += ["null_destroys", "obs " + tmp, "leakcheck", "---"]
    evs, rc, err = core.run_drv(b, "\n".join(L) + "\n", d, "sizes", fork=True, timeout=900,
                                env={"ASAN_OPTIONS": "detect_leaks=1:exitcode=99:allocator_may_return_null=1", "LSAN_OPTIONS": "exitcode=0:print_suppressions=0"})
    recs = core.convert_events(evs)
    out = []
    for ex in core.split_execs(recs):
        ext = [e for e in ex if e["e"] == "Exit"]
        if ext and (ext[0]["code"] != 0 or ext[0]["sig"] != 0):
            core.report(ctx, "reader open / destroy over a sweep of file sizes ended abnormally (code %s signal %s)" % (ext[0]["code"], ext[0]["sig"]),
                        {"kind": "abnormal", "why": "code %s signal %s" % (ext[0]["code"], ext[0]["sig"])})
            continue
        out += [ex[0], {"e": "Judge", "props": ["C18"]}] + ex[1:]
        ctx.add("size_sweep_files", len(paths) + len(bad))
    for ex, line in core.validate_batch(ctx, out, "sizes"):
        core.report(ctx, "resource ledger not explained at trace line %d (file size sweep): %s (previous call: %s)" % (
            line, json.dumps(ex[line - 1])[:200], json.dumps(ex[line - 2])[:200] if line > 1 else ""), {"kind": "trace", "trace": ex, "line": line})


def compress_sweep(ctx, b):
    """readers over blocks whose compression ratio sweeps 1.5:1 .. several hundred to one, in every algorithm (the decompressors
    size their output buffer from a guess and grow it: each growth step is a path with its own allocations)"""
    rng = ctx.rng
    d = ctx.sub("ratios")
    tmp = os.path.join(d, "tmp")
    os.makedirs(tmp, exist_ok=True)
    L = ["scratch " + d, "clock 1000"]
    paths = []
    ratios = (1.5, 3.5, 4.5, 7, 9, 15, 17, 33, 70, 400) if ctx.quick() else (1.5, 2.5, 3.5, 3.9, 4.1, 4.5, 6, 7, 7.9, 8.1, 9, 12, 15, 15.9, 16.1, 17, 31, 33, 63, 65, 130, 400, 2000)
    for ci, comp in enumerate(gen.COMPS):
        if comp == "none":
            continue
        pth = os.path.join(d, "c%d.mtbl" % ci)
        L.append("w_init 9 %s %s default 1024 2 -1 0" % (pth, comp))
        for n, r in enumerate(ratios):
            head = rng.choice([300, 1500, 6000])
            run = int((r - 1) * head)
            L.append("w_add 9 %s G%dx%d+C%02xx%d" % (shapes.hexs(b"k%03d" % n), 50000 + n, head, rng.randrange(256), run))
        L.append("w_close 9")
        paths.append(pth)
    L.append("obs " + tmp)

    def o(line):
        L.append(line)
        L.append("obs " + tmp)
    for pth in paths:
        o("r_init 1 %s %d 0" % (pth, rng.randint(0, 1)))
        o("it_iter 1 r:1")
        o("it_drain 1")
        o("it_seek 1 " + shapes.hexs(b"k003"))
        o("it_next 1 2")
        o("it_destroy 1")
        o(gen.open_line(2, "r:1", ("get", b"k%03d" % (len(ratios) - 1), b"")))
        o("it_drain 2")
        o("it_destroy 2")
        o("r_destroy 1")
    L += ["obs " + tmp, "leakcheck", "---"]
    evs, rc, err = core.run_drv(b, "\n".join(L) + "\n", d, "ratios", fork=True, timeout=900,
                                env={"ASAN_OPTIONS": "detect_leaks=1:exitcode=99:allocator_may_return_null=1", "LSAN_OPTIONS": "exitcode=0:print_suppressions=0"})
    recs = core.convert_events(evs)
    out = []
    for ex in core.split_execs(recs):
        ext = [e for e in ex if e["e"] == "Exit"]
        if ext and (ext[0]["code"] != 0 or ext[0]["sig"] != 0):
            core.report(ctx, "readers over highly compressible blocks ended abnormally (code %s signal %s)" % (ext[0]["code"], ext[0]["sig"]),
                        {"kind": "abnormal", "why": "code %s signal %s" % (ext[0]["code"], ext[0]["sig"])})
            continue
        out += [ex[0], {"e": "Judge", "props": ["C18", "C01"]}] + ex[1:]
        ctx.add("compression_ratio_blocks", (len(gen.COMPS) - 1) * len(ratios))
    for ex, line in core.validate_batch(ctx, out, "ratios"):
        core.report(ctx, "resource ledger or content not explained at trace line %d (compression ratio sweep): %s (previous call: %s)" % (
            line, json.dumps(ex[line - 1])[:200], json.dumps(ex[line - 2])[:200] if line > 1 else ""), {"kind": "trace", "trace": ex, "line": line})


def merged_values(ctx, b):
    """what a merge function hands back is released whatever its length: mergers (plain, nested, over user sources) whose merged values
    shrink and vanish (cancelling tokens: an allocated buffer of length 0 is a legal merged value), iterated, abandoned, destroyed"""
    rng = ctx.rng
    d = ctx.sub("merged")
    tmp = os.path.join(d, "tmp")
    os.makedirs(tmp, exist_ok=True)
    out = []
    for t in range(6 if ctx.quick() else 60):
        fam = M.cancelling(M.rand_family(rng, nsrc=rng.choice([2, 3, 5]), nkeys=rng.choice([3, 6]), tokbase=1), rng)
        variant = ["readers", "user", "nested", "mixed"][t % 4]
        L = M.setup_lines(d, fam, variant, 1, 0)
        L = [L[0], "clock 1000", "obs " + tmp] + L[1:]
        L += ["it_iter 1 m:0", "it_drain 1", "it_destroy 1", "obs " + tmp, "it_iter 1 m:0", "it_next 1 2", "it_destroy 1", "obs " + tmp]
        keys = sorted(set(k for src in fam for k, _ in src))
        for k in keys[:4]:
            L += [gen.open_line(1, "m:0", ("get", k, b"")), "it_drain 1", "it_destroy 1"]
        L += M.teardown_lines(fam, variant) + ["obs " + tmp, "leakcheck", "---"]
        evs, rc, err = core.run_drv(b, "\n".join(L) + "\n", d, "mv%d" % t, fork=True, timeout=300,
                                    env={"ASAN_OPTIONS": "detect_leaks=1:exitcode=99:allocator_may_return_null=1", "LSAN_OPTIONS": "exitcode=0:print_suppressions=0"})
        for ex in core.split_execs(core.convert_events(evs)):
            ext = [e for e in ex if e["e"] == "Exit"]
            if ext and (ext[0]["code"] != 0 or ext[0]["sig"] != 0):
                core.report(ctx, "merger over shrinking merged values ended abnormally (code %s signal %s)" % (ext[0]["code"], ext[0]["sig"]),
                            {"kind": "abnormal", "why": "code %s signal %s" % (ext[0]["code"], ext[0]["sig"]), "script": L})
                continue
            out += [ex[0], {"e": "Judge", "props": ["C18"]}] + ex[1:]
            ctx.add("merged_value_histories", 1)
    for ex, line in core.validate_batch(ctx, out, "merged"):
        core.report(ctx, "resource ledger not explained at trace line %d (merged values): %s (previous call: %s)" % (
            line, json.dumps(ex[line - 1])[:200], json.dumps(ex[line - 2])[:200] if line > 1 else ""), {"kind": "trace", "trace": ex, "line": line})


def run(ctx):
    b = build.build("asan")
    rng = ctx.rng
    tlc_models(ctx)
    size_sweep(ctx, b)
    compress_sweep(ctx, b)
    merged_values(ctx, b)
    inflight(ctx)
    hs = tlc_behaviours(ctx, 160 if ctx.quick() else 5000)
    hs += focused_histories(rng, 120 if ctx.quick() else 3000)
    ctx.add("tlc_behaviours", len(hs))
    wd = ctx.sub("run")
    for bi in range(0, len(hs), 40):
        chunk = hs[bi:bi + 40]
        lines = []
        for n, ops in enumerate(chunk):
            lines += script_for(wd, bi + n, ops, rng) + ["---"]
        evs, rc, err = core.run_drv(b, "\n".join(lines) + "\n", wd, "b%d" % bi, fork=True, timeout=1500,
                                    env={"ASAN_OPTIONS": "detect_leaks=1:exitcode=99:allocator_may_return_null=1", "LSAN_OPTIONS": "exitcode=0:print_suppressions=0"})
        recs = core.convert_events(evs)
        out = []
        for ex, ops in zip(core.split_execs(recs), chunk):
            ext = [e for e in ex if e["e"] == "Exit"]
            if ext and (ext[0]["code"] != 0 or ext[0]["sig"] != 0):
                core.report(ctx, "API history ended abnormally (code %s signal %s): %s" % (ext[0]["code"], ext[0]["sig"], json.dumps(ops)[:400]),
                            {"kind": "abnormal", "why": "code %s signal %s" % (ext[0]["code"], ext[0]["sig"]), "history": ops})
                continue
            out += [ex[0], {"e": "Judge", "props": ["C18"]}] + ex[1:]
            ctx.add("histories", 1)
            if any(o[0] in ("s_destroy",) for o in ops) or any(o[0] == "it_destroy" for o in ops):
                ctx.add("histories_nontrivial", 1)
        if bi == 0 and chunk:
            ctx.sample(chunk[0][:16])
        for ex, line in core.validate_batch(ctx, out, "b%d" % bi):
            core.report(ctx, "resource ledger / API behaviour not explained at trace line %d: %s (previous call: %s)" % (
                line, json.dumps(ex[line - 1])[:200], json.dumps(ex[line - 2])[:200] if line > 1 else ""), {"kind": "trace", "trace": ex, "line": line})
    cov = {"states": ctx.cov.get("states", 0), "transitions": ctx.cov.get("transitions", 0),
           "traces_validated_against_impl": ctx.cov.get("traces_validated_against_impl", 0),
           "evaluations": ctx.cov.get("histories", 0), "distinct_nontrivial": ctx.cov.get("histories_nontrivial", 0), "exhaustive": False}
    ctx.assumptions += ["LeakSanitizer's recoverable check at quiescence decides 'no heap allocation left'", "mappings are counted by path prefix of the scratch directory in /proc/self/maps",
                        "a failing merge callback on a pooled sorter is not generated (it ends in an assertion no listed property speaks about)"]
    return core.finish(ctx, LEVEL, cov, rule="histories = distinct TLC -simulate behaviours of Lifecycle.tla (22 operations each) completed by a legal teardown; ledger observed after every operation; non-trivial = histories that abandon an iterator or destroy a sorter")


def replay(ctx, path):
    return M.replay(ctx, path)
