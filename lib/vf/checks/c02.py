"""C02 Exact-match, prefix and range lookups return exactly the matching entries.

Specification: Table!Lookup (abstract) and Reader!ReaderIterInit + ReaderNext (implementation-shaped: index
block_iter_seek, data block_iter_seek, bound predicate). TLC (MC_Reader with no seek targets): for each file shape and
every query in the set - every string of length <= 3 over a six-byte alphabet for get and prefix, a grid of ranges,
plus every stored key, its neighbours and every index separator - the two layers return the same sequence, and a NULL
iterator is handed out only when the lookup is empty.
Binding: the same queries are issued to the real reader over the real file whose decoded structure instantiated the
model; all results are validated by TLC against the abstract specification."""
import itertools, os, json
from .. import core, build, gen, shapes, tablecheck as TC, mergerside as M


def query_set(F, rng, small):
    allk = [k for ks in F["keys"] for k in ks]
    strings = set()
    maxlen = 2 if small else 3
    for n in range(0, maxlen + 1):
        for t in itertools.product(gen.ALPHA6, repeat=n):
            strings.add(bytes(t))
    special = set()
    for k in allk + F["seps"]:
        special |= shapes.neighbours(k)
    qs = sorted(strings | special)
    if small and len(qs) > 400:
        keep = set(rng.sample(qs, 400)) | set(allk) | set(F["seps"]) | {b""}
        qs = sorted(keep)
    bounds = []
    for q in qs:
        bounds.append(("get", q, b""))
        bounds.append(("prefix", q, b""))
    grid = sorted(set(rng.sample(qs, min(len(qs), 24 if small else 45))) | set(F["seps"][:6]) | {b"", allk[0], allk[-1]})
    for a in grid:
        for b in grid:
            bounds.append(("range", a, b))
    return bounds


def run_shape(ctx, b, name, cfg, entries):
    wd = ctx.sub("shape_" + name)
    path, wrecs, s = TC.write_real_file(ctx, b, wd, name, cfg, entries)
    F = shapes.struct_to_F(s)
    bounds = query_set(F, ctx.rng, ctx.quick())
    r, _ = TC.model_graph(ctx, wd, F, [], bounds, True, dump=False, workers=8)
    model_failed = not r.ok
    if model_failed:
        # the reader model cannot read this file correctly. Either the file is not what the format promises (the real
        # queries below will then fail against the abstract table: a violation observed on the real code) or the model is
        # wrong (the real queries pass: reported as a specification problem at the end)
        ctx.notes.append("MC_Reader rejected the structure of shape %s" % name)
    ctx.add("states", r.distinct)
    ctx.add("transitions", r.generated)
    lines = ["scratch " + wd, "r_init 0 %s 1 0" % path]
    for bd in bounds:
        lines += [gen.open_line(1, "r:0", bd), "it_drain 1", "it_destroy 1"]
    lines.append("r_destroy 0")
    evs, rc, err = core.run_drv(b, "\n".join(lines) + "\n", wd, name + ".r")
    ctx.add("queries", len(bounds))
    ctx.sample({"shape": name, "blocks": len(F["keys"]), "queries": len(bounds), "example": [bounds[7][0], bounds[7][1].hex(), bounds[7][2].hex()]})
    if rc != 0:
        core.report(ctx, "driver ended abnormally (rc=%s) on shape %s: %s" % (rc, name, err[-1500:]), {"kind": "script", "script": lines[:50], "stderr": err[-3000:]})
        return
    recs = wrecs + [e for e in core.convert_events(evs) if e["e"] != "Reset"]
    nonempty = sum(1 for i, e in enumerate(recs) if e["e"] == "Open" and i + 1 < len(recs) and recs[i + 1].get("ok"))
    ctx.add("nonempty_lookups", nonempty)
    bad = core.validate_batch(ctx, recs, name)
    if model_failed and not bad:
        raise core.Infra("MC_Reader (lookups) does not hold on shape %s although the real reader answers every query correctly (specification problem):\n%s" % (name, r.out[-3000:]))
    for ex, line in bad:
        core.report(ctx, "lookup result not explained by the abstract table at trace line %d: %s (query %s)" % (
            line, json.dumps(ex[line - 1])[:200], json.dumps(next((e for e in reversed(ex[:line]) if e["e"] == "Open"), {}))[:200]),
            {"kind": "trace", "trace": ex, "line": line, "shape": name})


def random_tables(ctx, b):
    rng = ctx.rng
    n = 6 if ctx.quick() else 120
    for t in range(n):
        vg = gen.VGen(700000 + t * 1000)
        alpha = rng.choice([list(range(256)), [0x61, 0x62, 0xff], gen.ALPHA6])
        keys = gen.rand_keys(rng, rng.choice([3, 30, 120]), alpha=alpha, maxlen=rng.choice([3, 6]))
        if rng.random() < 0.4:
            keys = sorted(set(keys + [b""]))
        entries = [(k, vg.val(rng.choice([0, 10, 200, 600]))) for k in keys]
        cfg = gen.rand_cfg(rng)
        wd = ctx.sub("rand%d" % t)
        path, wrecs, s = TC.write_real_file(ctx, b, wd, "t", cfg, entries)
        F = shapes.struct_to_F(s) if s["blocks"] else None
        qs = set([b""])
        for k in keys + ([sp for sp in F["seps"]] if F else []):
            qs |= shapes.neighbours(k)
        qs = sorted(qs)
        if len(qs) > 250:
            qs = sorted(set(rng.sample(qs, 250)) | set(F["seps"] if F else []))
        lines = ["scratch " + wd, "r_init 0 %s %d 0" % (path, rng.randint(0, 1))]
        nq = 0
        for q in qs:
            for bd in (("get", q, b""), ("prefix", q, b""), ("range", q, rng.choice(qs))):
                lines += [gen.open_line(1, "r:0", bd), "it_drain 1", "it_destroy 1"]
                nq += 1
        lines.append("r_destroy 0")
        evs, rc, err = core.run_drv(b, "\n".join(lines) + "\n", wd, "q")
        ctx.add("queries", nq)
        if rc != 0:
            core.report(ctx, "driver ended abnormally (rc=%s) on random table: %s" % (rc, err[-1500:]), {"kind": "script", "cfg": cfg, "stderr": err[-3000:]})
            continue
        recs = wrecs + [e for e in core.convert_events(evs) if e["e"] != "Reset"]
        for ex, line in core.validate_batch(ctx, recs, "rand%d" % t):
            core.report(ctx, "lookup on random table rejected at line %d: %s" % (line, json.dumps(ex[line - 1])[:300]), {"kind": "trace", "trace": ex, "line": line, "cfg": cfg})


def split_sources(ctx, b):
    """the same lookups when the table is presented by a source of sources: its entries dealt out over 2..4 tables (some of them ending
    well before the others, the empty key among them) behind a merger, a merger of mergers or mixed readers / user sources"""
    rng = ctx.rng
    n = 6 if ctx.quick() else 80
    recs = []
    for t in range(n):
        alpha = rng.choice([[0x61, 0x62, 0xff], gen.ALPHA6, list(range(256))])
        keys = gen.rand_keys(rng, rng.choice([4, 12, 40]), alpha=alpha, maxlen=rng.choice([2, 4]))
        if t % 2 == 0:
            keys = sorted(set(keys + [b""]))
        nsrc = rng.choice([2, 3, 4])
        fam = [[] for _ in range(nsrc)]
        cut = rng.randrange(len(keys) + 1)
        for i, k in enumerate(sorted(keys)):
            # the first source only gets keys from the lower part: lookups that start above its last key find it exhausted
            j = rng.randrange(nsrc) if i < cut else rng.randrange(1, nsrc)
            fam[j].append((k, [1 + i]))
        variant = ["readers", "nested", "mixed", "user"][t % 4]
        wd = ctx.sub("split%d" % t)
        L = M.setup_lines(wd, fam, variant, 1, 0, comp=rng.choice(gen.COMPS))
        qs = set([b""])
        for k in keys:
            qs |= shapes.neighbours(k)
        qs = sorted(qs)
        if len(qs) > 120:
            qs = sorted(set(rng.sample(qs, 120)) | {b""})
        nq = 0
        for q in qs:
            for bd in (("get", q, b""), ("prefix", q, b""), ("range", q, rng.choice(qs)), ("range", q, b"\xff\xff\xff\xff\xff")):
                L += [gen.open_line(1, "m:0", bd), "it_drain 1", "it_destroy 1"]
                nq += 1
        L += M.teardown_lines(fam, variant)
        r, rc, err = M.run_script(ctx, b, wd, L, "q")
        ctx.add("queries", nq)
        ctx.add("queries_through_mergers", nq)
        if rc != 0:
            core.report(ctx, "driver ended abnormally (rc=%s) on lookups through a merger: %s" % (rc, err[-1500:]), {"kind": "script", "script": L, "stderr": err[-3000:]})
            continue
        recs += r
    for ex, line in core.validate_batch(ctx, recs, "split"):
        core.report(ctx, "lookup through a merger over the parts of a table rejected at line %d: %s" % (line, json.dumps(ex[line - 1])[:300]), {"kind": "trace", "trace": ex, "line": line})


def giant_keys(ctx, b):
    """keys of 64 KiB and more (lengths that do not fit 16 bits): as the table's last key (the last block's index key is the
    un-shortened last key) and as neighbours across a block boundary sharing 66000 bytes (the separator cannot be shortened)"""
    rng = ctx.rng
    vg = gen.VGen(880000)
    P = bytes([0x67]) * 66000
    keys = [b"a", b"b", P + b"\x01", P + b"\x02", b"h", b"i", bytes([0x7a]) * 70000]
    entries = [(k, vg.val(rng.choice([10, 300]))) for k in keys]
    for comp in (["none"] if ctx.quick() else ["none", "zlib"]):
        wd = ctx.sub("giant_" + comp)
        path, wrecs, s = TC.write_real_file(ctx, b, wd, "g", gen.writer_cfg(comp=comp, bs=1024, ri=2), entries)
        lines = ["scratch " + wd, "r_init 0 %s 1 0" % path]
        qs = [("get", keys[2], b""), ("get", keys[3], b""), ("get", keys[6], b""), ("get", keys[6][:-1], b""), ("prefix", P, b""), ("prefix", keys[6][:65536], b""),
              ("range", keys[2], keys[3]), ("range", keys[3], keys[6]), ("range", P, keys[4]), ("get", b"h", b""), ("range", b"b", P + b"\x01")]
        for bd in qs:
            lines += [gen.open_line(1, "r:0", bd), "it_drain 1", "it_destroy 1"]
        lines += ["it_iter 1 r:0", "it_seek 1 %s" % shapes.hexs(keys[3]), "it_next 1 2", "it_seek 1 %s" % shapes.hexs(keys[6]), "it_next 1 2", "it_destroy 1", "r_destroy 0"]
        evs, rc, err = core.run_drv(b, "\n".join(lines) + "\n", wd, "q")
        ctx.add("queries", len(qs))
        if rc != 0:
            core.report(ctx, "driver ended abnormally (rc=%s) on the table with keys of 64 KiB and more: %s" % (rc, err[-1500:]), {"kind": "script", "stderr": err[-3000:]})
            continue
        recs = wrecs + [e for e in core.convert_events(evs) if e["e"] != "Reset"]
        for ex, line in core.validate_batch(ctx, recs, "giant_" + comp):
            e = ex[line - 1]
            core.report(ctx, "lookup on the table with keys of 64 KiB and more rejected at line %d: %s" % (line, json.dumps({k: (v if not isinstance(v, list) or len(v) < 40 else "%d bytes" % len(v)) for k, v in e.items()})[:300]),
                        {"kind": "trace", "trace": [], "line": line, "note": "trace omitted (keys of 64 KiB)"})


def run(ctx):
    b = build.build("asan")
    vg = gen.VGen()
    sh = gen.shape_tables(ctx.rng, vg)
    pick = [sh[1], sh[2], sh[6], sh[7]] if ctx.quick() else sh
    for (name, cfg, entries) in pick:
        run_shape(ctx, b, name, cfg, entries)
    random_tables(ctx, b)
    giant_keys(ctx, b)
    split_sources(ctx, b)
    cov = {"states": ctx.cov.get("states", 0), "transitions": ctx.cov.get("transitions", 0),
           "traces_validated_against_impl": ctx.cov.get("traces_validated_against_impl", 0),
           "evaluations": ctx.cov.get("queries", 0), "distinct_nontrivial": ctx.cov.get("nonempty_lookups", 0), "exhaustive": False}
    return core.finish(ctx, "model_checking", cov, rule="queries = get/prefix for every string up to length 2 (quick) or 3 (thorough) over {00,01,61,62,FE,FF} plus stored keys, their neighbours and index separators; "
                       "ranges over a grid incl. key0 > key1; non-trivial = lookups returning at least one entry (shape runs)")


def replay(ctx, path):
    from .. import writerside as W
    return W.replay(ctx, path)
