"""C03 Reader iterators: seek then next yields first entry >= target, from any state.

Specification: spec/Reader.tla (implementation-shaped: cached block + offset, restart_index, index cursor,
first/valid) refines spec/Table.tla (abstract cursor) for every history -- TLC, exhaustively per file shape.
Binding: each shape is a real file; its decoded structure instantiates the model; every edge of the model's
reachable state graph is replayed on the real reader (walks + per-edge probes), the recorded calls are validated
against the abstract Mtbl specification by TLC (Trace_Mtbl).
"""
import os, json, subprocess
from .. import core, build, gen, shapes, tablecheck as TC, refcodec as R


def shape_list(ctx):
    vg = gen.VGen()
    sh = gen.shape_tables(ctx.rng, vg)
    if ctx.quick():
        return [sh[1], sh[3], sh[5], sh[7]]
    return sh


def run_shape(ctx, b, name, cfg, entries, nprobe, comps=("none",)):
    wd = ctx.sub("shape_" + name)
    rng = ctx.rng
    for comp in comps:
        cfg2 = dict(cfg, comp=comp)
        path, wrecs, s = TC.write_real_file(ctx, b, wd, name + "_" + comp, cfg2, entries)
        F = shapes.struct_to_F(s)
        targets = shapes.pick_targets(F, rng, cap=20 if ctx.quick() else 26)
        bounds = shapes.pick_bounds(F, targets, rng)
        r, dot = TC.model_graph(ctx, wd, F, targets, bounds, True)
        if not r.ok:
            # the model cannot read this file: judge the real reader on it with plain histories (no graph available);
            # if the real reader is right the model is wrong (specification problem)
            ctx.notes.append("MC_Reader rejected the structure of shape %s" % name)
            lines = ["scratch " + wd, "r_init 0 %s 1 0" % path]
            for bd in bounds:
                lines += [gen.open_line(1, "r:0", bd), "it_drain 1"]
                for tg in targets[:12]:
                    if tg >= (bd[1] if bd[0] != "iter" else b""):
                        lines += ["it_seek 1 %s" % shapes.hexs(tg), "it_next 1 2"]
                lines.append("it_destroy 1")
            lines.append("r_destroy 0")
            evs, rc, err = core.run_drv(b, "\n".join(lines) + "\n", wd, name + "_" + comp + ".f")
            recs = wrecs + [e for e in core.convert_events(evs) if e["e"] != "Reset"]
            bad = core.validate_batch(ctx, recs, name + "_" + comp + "_fallback") if rc == 0 else []
            if rc != 0:
                core.report(ctx, "driver ended abnormally (rc=%s) on shape %s: %s" % (rc, name, err[-1500:]), {"kind": "script", "script": lines, "stderr": err[-4000:]})
            elif not bad:
                raise core.Infra("MC_Reader does not hold on shape %s although the real reader behaves correctly (specification problem):\n%s" % (name, r.out[-3000:]))
            for ex, line in bad:
                core.report(ctx, "reader iterator result not explained by the abstract cursor at trace line %d: %s" % (line, json.dumps(ex[line - 1])[:300]),
                            {"kind": "trace", "trace": ex, "line": line, "shape": name})
            continue
        ctx.add("states", r.distinct)
        ctx.add("transitions", r.generated)
        inits, edges, nn, ne = shapes.parse_dot(dot)
        os.unlink(dot)
        walks = shapes.covering_walks(inits, edges, rng)
        covered = sum(len(w[1]) for w in walks)
        # probes: shortest path to a state, one operation, two nexts
        par, pathf = shapes.shortest_paths(inits, edges)
        alle = [(u, i) for u, es in edges.items() for i in range(len(es))]
        rng.shuffle(alle)
        probes = []
        for (u, i) in alle[:nprobe]:
            s0, labs = pathf(u)
            probes.append((s0, labs + [edges[u][i][0]]))
        lines = ["scratch " + wd, "r_init 0 %s 1 0" % path]
        lines += TC.walks_script(rng, "r:0", walks, inits, bounds, targets, probes=probes)
        lines += ["r_destroy 0"]
        evs, rc, err = core.run_drv(b, "\n".join(lines) + "\n", wd, name + "_" + comp + ".r")
        recs = wrecs + [e for e in core.convert_events(evs) if e["e"] != "Reset"]
        ctx.add("edges_replayed", ne)
        ctx.add("model_edges_distinct_nontrivial", sum(1 for u, es in edges.items() for (lab, v) in es if lab != "DoNext" and v != u))
        ctx.sample({"shape": name, "blocks": len(F["keys"]), "entries": sum(len(k) for k in F["keys"]),
                    "bound": list(map(lambda x: x if isinstance(x, str) else x.hex(), bounds[inits[walks[0][0]] - 1])),
                    "walk": walks[0][1][:12]} if walks else {"shape": name})
        if rc != 0:
            core.report(ctx, "driver ended abnormally (rc=%s) on shape %s: %s" % (rc, name, err[-1500:]),
                        {"kind": "script", "script": lines, "stderr": err[-4000:], "write": [name, cfg2]}, signature=None)
            continue
        bad = core.validate_batch(ctx, recs, name + "_" + comp)
        for ex, line in bad:
            core.report(ctx, "reader iterator result not explained by the abstract cursor at trace line %d: %s" % (line, json.dumps(ex[line - 1])[:300]),
                        {"kind": "trace", "trace": ex, "line": line, "shape": name, "cfg": cfg2,
                         "entries": [[k.hex(), v] for k, v in entries], "script": lines})


def blocks_apart(ctx, b):
    """a sparse foreign table whose first and last data blocks start exactly 2^32 bytes apart (their offsets are equal modulo
    2^32): histories that rest in one of them and seek into the other"""
    from .. import projection as P
    wd = ctx.sub("apart")
    path = os.path.join(wd, "apart.mtbl")
    blocks = R.blocks_2pow32_apart()
    offs = R.write_sparse_table(path, blocks)

    def vrec(v):
        if isinstance(v, int):
            h = "%016x" % R.fnv64_zeros(v)
            return [-1, v] + [int(h[i:i + 4], 16) for i in range(0, 16, 4)]
        return P.vrec(v)
    mk = {"e": "MkTable", "path": path, "ents": [{"k": list(k), "v": vrec(v)} for bl in blocks for k, v in bl]}
    hx = shapes.hexs
    L = ["scratch " + wd, "r_init 0 %s 0 0" % path]
    for kind in (("iter", b"", b""), ("range", b"k", b"x04"), ("prefix", b"", b"")):
        L += [gen.open_line(1, "r:0", kind)]
        for (a, n1, c, n2) in ((b"x02", 2, b"k01", 3), (b"k03", 1, b"x00", 2), (b"x05", 1, b"k00", 2), (b"k02", 2, b"x01", 2), (b"x03", 1, b"k04", 1)):
            L += ["it_seek 1 %s" % hx(a), "it_next 1 %d" % n1, "it_seek 1 %s" % hx(c), "it_next 1 %d" % n2]
        L += ["it_destroy 1"]
    L.append("r_destroy 0")
    evs, rc, err = core.run_drv(b, "\n".join(L) + "\n", wd, "apart", timeout=900)
    ctx.cov["blocks_2pow32_apart"] = {"block_offsets": offs}
    try:
        os.unlink(path)
    except OSError:
        pass
    if rc != 0:
        core.report(ctx, "driver ended abnormally (rc=%s) on the table with blocks 2^32 bytes apart: %s" % (rc, err[-1500:]), {"kind": "script", "script": L, "stderr": err[-3000:]})
        return
    recs = [{"e": "Reset", "x": 0}, mk] + [e for e in core.convert_events(evs) if e["e"] != "Reset"]
    for ex, line in core.validate_batch(ctx, recs, "apart"):
        core.report(ctx, "reader iterator on the table with blocks 2^32 bytes apart: result not explained at trace line %d: %s" % (line, json.dumps(ex[line - 1])[:300]),
                    {"kind": "trace", "trace": ex, "line": line})


def regression_f1(ctx, b):
    """The model with the pinned tree's block_offset behaviour must be rejected by TLC (the model sees F1)."""
    vg = gen.VGen(5000)
    ks = gen.rand_keys(ctx.rng, 16, maxlen=3)
    entries = [(k, vg.val(200)) for k in ks]
    wd = ctx.sub("regr_f1")
    path, wrecs, s = TC.write_real_file(ctx, b, wd, "f1", gen.writer_cfg(ri=2), entries)
    F = shapes.struct_to_F(s)
    targets = shapes.pick_targets(F, ctx.rng, cap=16)
    bounds = shapes.pick_bounds(F, targets, ctx.rng)
    r, _ = TC.model_graph(ctx, wd, F, targets, bounds, fixf1=False, dump=False, name="MCF1")
    ctx.cov["regression_FixF1_FALSE_fails"] = bool(r.inv_violated)
    if not r.inv_violated:
        ctx.notes.append("regression config FixF1=FALSE unexpectedly passed")


def run(ctx):
    b = build.build("asan")
    comps_t = gen.COMPS
    sl = shape_list(ctx)
    for (name, cfg, entries) in sl:
        run_shape(ctx, b, name, cfg, entries, nprobe=300 if ctx.quick() else 2200, comps=("none",))
        if not ctx.quick():
            # the other compression types change how a block is loaded, not where the iterator goes: fewer probes each
            run_shape(ctx, b, name, cfg, entries, nprobe=500, comps=[c for c in comps_t if c != "none"])
    # the same histories on a table that starts beyond 4 GiB in a sparse file (block positions need 64 bits on every path)
    for (name, cfg, entries) in ([sl[0]] if ctx.quick() else sl[:3]):
        run_shape(ctx, b, name + "_far", dict(cfg, prefix=(1 << 32) + 4096 + 13, sparse=True), entries, nprobe=150 if ctx.quick() else 1000)
    regression_f1(ctx, b)
    blocks_apart(ctx, b)
    random_histories(ctx, b)
    block_cursor(ctx)
    cov = {
        "states": ctx.cov.get("states", 0), "transitions": ctx.cov.get("transitions", 0),
        "traces_validated_against_impl": ctx.cov.get("traces_validated_against_impl", 0),
        "exhaustive": False,
        "evaluations": ctx.cov.get("trace_events", 0),
        "distinct_nontrivial": ctx.cov.get("model_edges_distinct_nontrivial", 0),
    }
    ctx.assumptions += ["TLC 1.8 and CommunityModules", "independent decoder lib/vf/refcodec.py projects the file to the model's constants",
                        "seeks below the start of a bounded iterator's range are not generated (outside the property)"]
    return core.finish(ctx, "model_checking", cov,
                       rule="per shape: all edges (state, op) of the reachable graph of MC_Reader instantiated with the decoded real file; "
                            "non-trivial = seek edges that change the model state; plus seeded random histories over all byte values")


def block_cursor(ctx):
    """the block layer driven directly: MC_Block (every block of up to 7 entries x restart interval 1..4 x every history of first / last /
    seek / next / prev: the implementation-shaped iterator of Reader.tla refines the abstract cursor), then the real builder and iterator
    (harness/block_drv.c) on generated blocks, every call validated against those operators (Trace_Block)"""
    wd = ctx.sub("block")
    r = core.tlc("MC_Block", "MC_Block.cfg", workers=4, timeout=900)
    if not r.ok:
        raise core.Infra("MC_Block does not hold:\n" + r.out[-3000:])
    ctx.add("states", r.distinct)
    ctx.add("transitions", r.generated)
    prog = build.compile_prog("asan", "block_drv", ["block_drv.c"])
    rng = ctx.rng
    hx = lambda x: x.hex() if x else "-"
    fams = []
    def keys_of(kind, n):
        if kind == "bytes":
            return sorted(set(bytes([rng.randrange(256)]) for _ in range(n)))
        if kind == "prefix":
            base = bytes(rng.randrange(256) for _ in range(rng.choice([1, 3, 40])))
            ks = set()
            while len(ks) < n:
                ks.add(base[:rng.randrange(len(base) + 1)] + bytes(rng.choice([0, 1, 0x7f, 0x80, 0xff]) for _ in range(rng.randrange(3))))
            return sorted(ks)
        if kind == "long":      # unshared / shared lengths on both sides of the one-byte varint limit
            base = bytes(rng.randrange(256) for _ in range(rng.choice([126, 127, 128, 129, 300])))
            return sorted(set(base + bytes([i, rng.randrange(256)]) * rng.choice([0, 1, 64]) for i in range(n)) | ({b""} if rng.random() < 0.5 else set()))
        return sorted(set(bytes([0x61 + i]) * (1 + i % 3) for i in range(n)))
    lines = []
    nb = 0
    sizes = list(range(0, 10)) + [17, 33]
    for n in sizes:
        for ri in (1, 2, 3, 4, 16):
            kind = rng.choice(["bytes", "prefix", "long", "plain", "prefix"])
            ks = keys_of(kind, n) if n else []
            ents = [(k, bytes(rng.randrange(256) for _ in range(rng.choice([0, 1, 2, 5, 127, 128, 200])))) for k in ks]
            tg = {b"", b"\xff\xff"}
            for k in ks:
                tg |= {k, k + b"\x00", k[:-1], k[:-1] + bytes([min(255, k[-1] + 1)]) if k else b"\x00"}
            tg = sorted(tg)
            if len(tg) > 24:
                tg = rng.sample(tg, 24)
            lines.append("block %d %d %s" % (ri, rng.randrange(2), " ".join(hx(k) + ":" + hx(v) for k, v in ents)))
            lines.append("targets " + " ".join(hx(t) for t in tg))
            if n <= 9:
                lines.append("sys")
            for w in range(3 if ctx.quick() else 12):
                lines.append("walk %d %d" % (rng.randrange(1 << 30), 40))
            nb += 1
    script = os.path.join(wd, "block.script")
    open(script, "w").write("\n".join(lines) + "\n")
    out = os.path.join(wd, "block.ndjson")
    try:
        p = subprocess.run([prog, script, out], stdout=subprocess.PIPE, stderr=subprocess.PIPE, text=True, timeout=600)
    except subprocess.TimeoutExpired:
        core.report(ctx, "a call of the block builder / iterator did not return within 600 s (every loop of the driver is bounded)", {"kind": "script", "script": lines})
        return
    nlog = sum(1 for _ in open(out)) if os.path.exists(out) else 0
    if p.returncode != 0:
        # the driver only makes calls that are within the functions' preconditions: an assertion, a sanitizer report or a signal is theirs
        core.report(ctx, "block builder / iterator ended the process (rc %d) after %d logged calls: %s" % (p.returncode, nlog, p.stderr[-400:]),
                    {"kind": "script", "script": lines, "stderr": p.stderr[-4000:]})
        return
    ok, depth, r = core.validate_trace(out, "Trace_Block", timeout=1800)
    ctx.add("block_layer_blocks", nb)
    ctx.add("block_layer_calls", nlog)
    ctx.add("trace_events", nlog)
    if ok:
        ctx.add("traces_validated_against_impl", 1)
    else:
        recs = [json.loads(l) for l in open(out)]
        ev = recs[depth - 1] if depth and depth <= len(recs) else {}
        j = max(i for i in range(min(depth or 1, len(recs))) if recs[i]["e"] == "BBlock") if recs else 0
        core.report(ctx, "block iterator / builder call not explained by the model of block.c at trace line %s: %s" % (depth, json.dumps(ev)[:400]),
                    {"kind": "trace", "module": "Trace_Block", "trace": recs[j:depth], "line": (depth or 1) - j})


def random_histories(ctx, b):
    """Byte-level random tables and long random histories, trace-validated (inputs the model alphabets lack)."""
    rng = ctx.rng
    n_tab = 3 if ctx.quick() else 40
    n_ops = 400 if ctx.quick() else 2000
    wd = ctx.sub("rand")
    recs_all = []
    for t in range(n_tab):
        vg = gen.VGen(100000 + t * 1000)
        alpha = rng.choice([list(range(256)), gen.ALPHA6, [0x61, 0x62]])
        nk = rng.choice([1, 5, 40, 200])
        keys = gen.rand_keys(rng, nk, alpha=alpha, maxlen=rng.choice([2, 5, 12]))
        if rng.random() < 0.3:
            keys = sorted(set(keys + [b"", b"\xff" * 3]))
        entries = [(k, vg.val(rng.choice([0, 1, 30, 127, 128, 300, 1000]))) for k in keys]
        cfg = gen.rand_cfg(rng)
        path, wrecs, s = TC.write_real_file(ctx, b, wd, "rt%d" % t, cfg, entries)
        lines = ["scratch " + wd, "r_init 0 %s %d %d" % (path, rng.randint(0, 1), rng.randint(0, 1))]
        cand = sorted(set(k2 for k in keys for k2 in shapes.neighbours(k)) | {b""})
        slots = {}
        for op in range(n_ops):
            i = rng.randint(1, 4)
            if i not in slots:
                kind = rng.choice(["iter", "get", "prefix", "range"])
                k0 = rng.choice(cand)
                k1 = rng.choice(cand)
                if kind == "range" and k0 > k1 and rng.random() < 0.8:
                    k0, k1 = k1, k0
                if kind == "prefix" and len(k0) > 1 and rng.random() < 0.7:
                    k0 = k0[:rng.randint(0, len(k0))]
                bound = (kind, k0 if kind != "iter" else b"", k1 if kind == "range" else b"")
                slots[i] = bound
                lines.append(gen.open_line(i, "r:0", bound))
                continue
            x = rng.random()
            if x < 0.55:
                lines.append("it_next %d" % i)
            elif x < 0.95:
                start = slots[i][1] if slots[i][0] != "iter" else b""
                ts = [c for c in cand if c >= start]
                if ts:
                    lines.append("it_seek %d %s" % (i, shapes.hexs(rng.choice(ts))))
            else:
                lines.append("it_destroy %d" % i)
                del slots[i]
        for i in list(slots):
            lines.append("it_destroy %d" % i)
        lines.append("r_destroy 0")
        evs, rc, err = core.run_drv(b, "\n".join(lines) + "\n", wd, "rt%d.r" % t)
        if rc != 0:
            core.report(ctx, "driver ended abnormally (rc=%s) on random table %d: %s" % (rc, t, err[-1500:]),
                        {"kind": "script", "script": lines, "cfg": cfg, "stderr": err[-4000:]})
            continue
        recs = wrecs + [e for e in core.convert_events(evs) if e["e"] != "Reset"]
        recs_all += recs
        ctx.add("random_histories", 1)
    if recs_all:
        bad = core.validate_batch(ctx, recs_all, "rand")
        for ex, line in bad:
            core.report(ctx, "random history rejected at line %d: %s" % (line, json.dumps(ex[line - 1])[:300]),
                        {"kind": "trace", "trace": ex, "line": line})


def replay(ctx, path):
    obj = json.load(open(path))
    if obj.get("kind") == "trace":
        p = os.path.join(ctx.sub("replay"), "t.ndjson")
        core.write_trace(p, obj["trace"])
        ok, depth, r = core.validate_trace(p, obj.get("module", "Trace_Mtbl"))
        print("replay: trace %s at line %s" % ("accepted" if ok else "rejected", depth))
        ctx.cleanup()
        return 0 if ok else 1
    print("replay: script replays are run by re-running the check with the same seed")
    ctx.cleanup()
    return 0
