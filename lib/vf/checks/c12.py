"""C12 Checksums: intact files verify, damaged blocks are never accepted.

Specification: Checksum.tla (blocks, one corruption scenario, access paths as sequences of block loads; assumption
Detects: CRC-32C detects 1-3 flipped bits and bursts up to 32 bits; invariants NeverReturnsDamaged,
ToolNeverOKWhenDamaged, IntactReadsAll) - TLC enumerates block x region x class x path x key. Trace_Checksum.tla judges
observations. Binding: files of the real writer (all compressions, 1-6 blocks); every scenario instantiated with concrete
bit positions (all single-bit flips for small files, sampled pairs / triples / LSB-first bursts) inside one block's stored
bytes or its checksum field (data blocks and index block); mtbl_verify's output and exit status and the entries a
verifying reader returns before the process ends are recorded and validated by TLC. That the CRC is the standard one: C17."""
import os, json, subprocess, shutil
from concurrent.futures import ThreadPoolExecutor
from .. import core, build, gen, shapes, refcodec as R, tablecheck as TC

LEVEL = "fault_enumeration"


def make_file(ctx, b, wd, name, comp, nblocks, pool=0, prefix=0):
    """pool > 0: the file is written through a thread pool of that many workers (blocks are then written, counted and
    checksummed on the result handler's path of the writer)"""
    vg = gen.VGen(7000)
    n = nblocks * 4
    entries = [(("key%04d" % i).encode(), vg.val(220 if nblocks > 1 else 30)) for i in range(n)]
    if not pool:
        path, wrecs, s = TC.write_real_file(ctx, b, wd, name, gen.writer_cfg(comp=comp, ri=2, prefix=prefix), entries)
        return path, s
    path = os.path.join(wd, name + ".mtbl")
    if os.path.exists(path):
        os.unlink(path)
    lines = ["scratch " + wd, "pool_init 0 %d" % pool] + gen.write_table_lines(0, path, gen.writer_cfg(comp=comp, ri=2, pool=0), entries) + ["pool_destroy 0"]
    evs, rc, err = core.run_drv(b, "\n".join(lines) + "\n", wd, name + ".w")
    if rc != 0:
        raise core.Infra("pooled writer run failed rc=%s: %s" % (rc, err[-2000:]))
    return path, R.decode(path)


def flip(data, bits):
    d = bytearray(data)
    for bit in bits:
        d[bit // 8] ^= 1 << (bit % 8)          # bit order: byte order, least significant bit first (the order the reflected CRC consumes)
    return bytes(d)


def patterns(rng, lo, hi, quick, small):
    """bit positions are absolute file bit indices within [lo*8, hi*8)"""
    nbits = (hi - lo) * 8
    base = lo * 8
    out = []
    singles = range(nbits) if (small and not quick) else rng.sample(range(nbits), min(nbits, 40 if quick else 400))
    for x in singles:
        out.append(("bit1", [base + x]))
    for _ in range(12 if quick else 150):
        out.append(("bit2", [base + x for x in rng.sample(range(nbits), 2)]))
        out.append(("bit3", [base + x for x in rng.sample(range(nbits), 3)]))
        L = rng.randint(2, min(32, nbits))
        st = rng.randint(0, nbits - L)
        mid = [st + j for j in range(1, L - 1) if rng.random() < 0.5]
        out.append(("burst", [base + x for x in sorted(set([st, st + L - 1] + mid))]))
    return out


def run(ctx):
    b = build.build("asan")
    tools = build.build("tools")
    rng = ctx.rng
    r = core.tlc("Checksum", "MC_Checksum.cfg", workers=2, timeout=300)
    if not r.ok:
        raise core.Infra("Checksum model failed (specification problem):\n" + r.out[-3000:])
    ctx.add("states", r.distinct)
    ctx.add("transitions", r.generated)
    wd = ctx.sub("files")
    comps = ["none", "zlib"] if ctx.quick() else gen.COMPS
    sizes = [1, 3] if ctx.quick() else [1, 2, 3, 6]
    jobs = []       # (image path, bad block, nblocks, label, struct)
    plan_files = [(comp, nb, 0) for comp in comps for nb in sizes]
    # the same tables written through a thread pool (the writer's other block-output path)
    plan_files += [("none", 3, 2)] if ctx.quick() else [(comp, nb, 2) for comp in ("none", "zlib", "zstd") for nb in (1, 3)]
    # writers handed a descriptor positioned behind foreign bytes: the blocks then sit at offsets that are not theirs alone
    # (13 = what older libraries wrote; a page and more; the data blocks ending just past a page that the blocks alone do not reach)
    plan_files += [("none", 3, 0, px) for px in ((13, 4096, 5000) if ctx.quick() else (1, 13, 512, 4083, 4096, 5000, 8191, 70000))]
    plan_files += [("none", 1, 0, 4096 - 40), ("zlib", 3, 0, 4096 - 300)]
    for pf in plan_files:
        (comp, nb, pool), prefix = pf[:3], (pf[3] if len(pf) > 3 else 0)
        if True:
            path, s = make_file(ctx, b, wd, "t_%s_%d_%d_%d" % (comp, nb, pool, prefix), comp, nb, pool, prefix)
            data = open(path, "rb").read()
            jobs.append((path, -1, len(s["blocks"]), {"comp": comp, "class": "intact", "pool": pool, "prefix": prefix}, s))
            regions = []
            for bi, blk in enumerate([s["index"]] + s["blocks"]):
                crc_lo = blk["offset"] + blk["len_prefix"]
                regions.append((bi, "crc", crc_lo, crc_lo + 4))
                regions.append((bi, "payload", crc_lo + 4, blk["end"]))
            for (bi, region, lo, hi) in regions:
                small = (hi - lo) <= 64
                pats = patterns(rng, lo, hi, ctx.quick(), small)
                if prefix:
                    pats = pats[:2]
                for (klass, bits) in pats:
                    img = os.path.join(wd, "i%d.mtbl" % len(jobs))
                    open(img, "wb").write(flip(data, bits))
                    jobs.append((img, bi, len(s["blocks"]), {"comp": comp, "pool": pool, "class": klass, "region": region, "block": bi, "bits": [x - lo * 8 for x in bits][:6]}, s))
    # the smallest blocks there are: one entry of 0, 1 or 2 payload bytes alone in its block (as the whole table, or cut off by a large
    # next entry), and the empty table - intact (must verify) and with single bits flipped
    tiny = [[], [(b"", 0)], [(b"a", 0)], [(b"", 1)], [(b"a", 1)], [(b"", 0), (b"b", 1100)], [(b"a", 0), (b"b", 1100), (b"c", 0)]]
    for ti, spec in enumerate(tiny):
        for comp in ("none", "zlib") if ti in (1, 5) else ("none",):
            vg3 = gen.VGen(9900 + ti)
            path, wrecs, s = TC.write_real_file(ctx, b, wd, "tiny%d_%s" % (ti, comp), gen.writer_cfg(comp=comp, ri=2), [(k, vg3.val(n)) for k, n in spec])
            data = open(path, "rb").read()
            jobs.append((path, -1, len(s["blocks"]), {"comp": comp, "class": "intact", "tiny": ti}, s))
            for bi, blk in enumerate([s["index"]] + s["blocks"]):
                lo, hi = blk["offset"] + blk["len_prefix"], blk["end"]
                for x in rng.sample(range(lo * 8, hi * 8), min(6, (hi - lo) * 8)):
                    img = os.path.join(wd, "i%d.mtbl" % len(jobs))
                    open(img, "wb").write(flip(data, [x]))
                    jobs.append((img, bi, len(s["blocks"]), {"comp": comp, "class": "bit1", "region": "crc+payload", "block": bi, "tiny": ti, "bits": [x - lo * 8]}, s))
    # small single-block files whose stored block lengths cover every residue modulo 8 (word-wise checksum code has one
    # tail case per residue): every single bit of checksum field + payload is flipped
    for v in range(20, 28):
        vg2 = gen.VGen(9000 + v)
        path, wrecs, s = TC.write_real_file(ctx, b, wd, "res%d" % v, gen.writer_cfg(comp="none", ri=2), [(b"k", vg2.val(v)), (b"l", vg2.val(3)), (b"m", vg2.val(1))])
        data = open(path, "rb").read()
        jobs.append((path, -1, 1, {"comp": "none", "class": "intact", "stored_len": s["blocks"][0]["stored_len"]}, s))
        blk = s["blocks"][0]
        lo, hi = blk["offset"] + blk["len_prefix"], blk["end"]
        bits = range(lo * 8, hi * 8) if not ctx.quick() else [x for x in range(lo * 8, hi * 8) if (x % 8) in (0, 7) or x >= (hi - 9) * 8]
        for x in bits:
            img = os.path.join(wd, "i%d.mtbl" % len(jobs))
            open(img, "wb").write(flip(data, [x]))
            jobs.append((img, 1, 1, {"comp": "none", "class": "bit1", "region": "crc+payload", "block": 1, "stored_len": blk["stored_len"], "bits": [x - lo * 8]}, s))
    ctx.add("images", len(jobs))

    venvs = [rng.choice([None, None, "0", "1"]) for _ in jobs]

    def verify(job_i):
        i, job = job_i
        e = dict(os.environ, LC_ALL="C")
        e.pop("MTBL_READER_MADVISE_RANDOM", None)
        if venvs[i] is not None:
            e["MTBL_READER_MADVISE_RANDOM"] = venvs[i]
        # every other image is verified as the second file of one command line (an intact file first): the verdict on a file must
        # not depend on its position; the tool's exit status is then the status of the whole command line
        if i % 2 == 1 and i > 0:
            p = subprocess.run([tools["verify"], jobs[0][0], job[0]], stdout=subprocess.PIPE, stderr=subprocess.PIPE, text=True, env=e, timeout=120)
            return ((job[0] + ": OK") in p.stdout, p.returncode)
        p = subprocess.run([tools["verify"], job[0]], stdout=subprocess.PIPE, stderr=subprocess.PIPE, text=True, env=e, timeout=120)
        return (": OK" in p.stdout, p.returncode)
    with ThreadPoolExecutor(max_workers=16) as ex:
        vres = list(ex.map(verify, list(enumerate(jobs))))
    # reader runs: iterate (drain), get (one next), seek (drain from a key in a later block)
    lines, plan = [], []
    for ji, (img, bad, nb, label, s) in enumerate(jobs):
        key2block = {}
        for bi, blk in enumerate(s["blocks"]):
            for e in blk["entries"]:
                key2block[e["key"]] = bi + 1

        def seg_lines(i, kind, target):
            if kind == "iterate":
                return ["it_iter %d r:0" % i, "it_drain %d" % i, "it_destroy %d" % i]
            if kind == "get":
                gkey = s["blocks"][target - 1]["entries"][1]["key"]
                return ["it_get %d r:0 %s" % (i, gkey.hex()), "it_next %d" % i, "it_destroy %d" % i]
            skey = s["blocks"][target - 1]["entries"][0]["key"]
            return ["it_iter %d r:0" % i, "it_seek %d %s" % (i, skey.hex()), "it_drain %d" % i, "it_destroy %d" % i]
        runs = [[("iterate", 0)]] if label.get("tiny") is not None else [[("iterate", 0)], [("get", rng.randint(1, nb))], [("seek", rng.randint(1, nb))],
                [("get", nb), ("iterate", 0)],                                   # a later block first, then everything from the start, on one reader
                [("seek", rng.randint(1, nb)), ("get", rng.randint(1, nb)), ("iterate", 0)]]
        if label.get("region") == "crc+payload" and label.get("tiny") is None:
            runs = runs[:1] + runs[3:4]
        for run_ in runs:
            # the library's documented environment knob for the reader's madvise behaviour: unset, "0", "1" (must not matter)
            envv = rng.choice(["-", "-", "0", "1"])
            L = ["setenv MTBL_READER_MADVISE_RANDOM " + envv, "r_init 0 %s 1 %d" % (img, rng.randint(0, 1))]
            for si, (kind, target) in enumerate(run_):
                L += seg_lines(si + 1, kind, target)
            L += ["r_destroy 0", "---"]
            lines += L
            plan.append((ji, run_, key2block))
    recs_by_job = {}
    # split the script at execution boundaries, about 6000 executions per driver run
    execs_l, curx = [], []
    for ln in lines:
        curx.append(ln)
        if ln == "---":
            execs_l.append(curx)
            curx = []
    xbase = 0
    for i in range(0, len(execs_l), 6000):
        chunk = [ln for ex in execs_l[i:i + 6000] for ln in ex]
        evs, rc, err = core.run_drv(b, "\n".join(chunk) + "\n", wd, "r%d" % i, fork=True, timeout=3000, env={"ASAN_OPTIONS": "detect_leaks=0:exitcode=99", "VS_EXEC_TIMEOUT": "20"})
        cur = None
        for e in evs:
            if e["e"] == "Reset":
                ji, run_, k2b = plan[xbase + e["x"]]
                cur = {"x": xbase + e["x"], "segs": [{"kind": k, "target": t, "blocks": []} for (k, t) in run_], "closed": False}
            elif e["e"] == "Next" and e.get("ok"):
                ji, run_, k2b = plan[cur["x"]]
                cur["segs"][e["i"] - 1]["blocks"].append(k2b.get(bytes.fromhex(e["k"]), 999))
            elif e["e"] == "RDestroy":
                cur["closed"] = True
            elif e["e"] == "Exit":
                ji, run_, k2b = plan[cur["x"]]
                ended = "normal" if (e["code"] == 0 and e["sig"] == 0 and cur["closed"]) else "abort"
                recs_by_job.setdefault(ji, []).append({"e": "ReadRun", "segs": cur["segs"], "ended": ended, "code": e["code"], "sig": e["sig"]})
        xbase += len(execs_l[i:i + 6000])
    recs = []
    for ji, (img, bad, nb, label, s) in enumerate(jobs):
        recs.append({"e": "Reset", "x": ji})
        recs.append({"e": "Image", "bad": bad, "nblocks": nb, "label": label})
        recs.append({"e": "VerifyTool", "ok_printed": vres[ji][0], "rc": vres[ji][1]})
        recs += recs_by_job.get(ji, [])
        if bad >= 0:
            ctx.add("faults", 1)
        if ji in (0, 5):
            ctx.sample({"image": label, "verify": vres[ji], "reads": recs_by_job.get(ji, [])[:1]})
        if ji > 0 and img.startswith(wd) and "/i" in img:
            try:
                os.unlink(img)
            except OSError:
                pass
    # Trace_Checksum has no Reset action: each image is its own trace segment -> validate per segment batch via Image re-init
    for ex, line in core.validate_batch(ctx, recs, "ck", module="Trace_Checksum"):
        lab = next((e.get("label") for e in ex if e["e"] == "Image"), {})
        core.report(ctx, "corruption %s: observation not explained by the checksum contract at line %d: %s" % (json.dumps(lab), line, json.dumps(ex[line - 1])[:300]),
                    {"kind": "trace", "module": "Trace_Checksum", "trace": ex, "line": line})
    cov = {"evaluations": ctx.cov.get("images", 0), "distinct_nontrivial": ctx.cov.get("faults", 0), "states": ctx.cov.get("states", 0),
           "transitions": ctx.cov.get("transitions", 0), "traces_validated_against_impl": ctx.cov.get("traces_validated_against_impl", 0), "exhaustive": False}
    ctx.assumptions += ["CRC-32C detects all 1-3 bit errors and all bursts up to 32 bits at these block lengths (Detects in Checksum.tla)",
                        "a burst is a run of consecutive bits in byte order, least significant bit first"]
    return core.finish(ctx, LEVEL, cov, rule="images = intact files + one corruption pattern each (all single bits of small regions, sampled pairs, triples, bursts <= 32 bits) in the stored bytes or the checksum field of each data block and of the index block; "
                       "each image: mtbl_verify + verifying reader runs (iterate; get; seek; a later block first and then everything from the start on one reader; seek+get+iterate on one reader)")


def replay(ctx, path):
    obj = json.load(open(path))
    p = os.path.join(ctx.sub("replay"), "t.ndjson")
    core.write_trace(p, obj["trace"])
    ok, depth, r = core.validate_trace(p, obj.get("module", "Trace_Checksum"))
    print("replay: trace %s (depth %s of %d lines)" % ("accepted" if ok else "rejected", depth, len(obj["trace"])))
    ctx.cleanup()
    return 0 if ok else 1
