"""C15 Compression round trip for every algorithm, level and buffer.

Specification: Codec.tla (outcome is failure or an output that decompresses to the input, never an abort; name table,
case-insensitive, unknown refused; Required = algorithm x content class x length 0..64); Trace_Codec.tla judges every
logged call and checks at the end that the required product was covered. Binding: harness/codec_drv.c performs each call
(mtbl_compress, mtbl_compress_level at 14 levels from far below the minimum to far above the maximum, mtbl_decompress) in
its own child process and logs outcome and round-trip result; larger buffers up to megabytes per class. TLA+ contributes
the contract and the enumeration, nothing about the internals of zlib / lz4 / zstd / snappy."""
import os, subprocess, json
from .. import core, build
from .c17 import replay

LEVEL = "exploration"


def run(ctx):
    b = build.build("plain")
    prog = build.compile_prog("plain", "codec_drv", ["codec_drv.c"])
    wd = ctx.sub("comp")
    out = os.path.join(wd, "comp.ndjson")
    p = subprocess.run([prog, "comp", out, ctx.tier], stdout=subprocess.PIPE, stderr=subprocess.PIPE, text=True, timeout=3000)
    if p.returncode != 0:
        raise core.Infra("codec_drv comp failed: " + p.stderr[-500:])
    recs = [json.loads(l) for l in open(out)]
    ok, depth, r = core.validate_trace(out, "Trace_Codec", timeout=1800)
    calls = [x for x in recs if x["e"] == "Comp"]
    ctx.add("calls", len(calls))
    ctx.sample(calls[3])
    ctx.sample(next(x for x in recs if x["e"] == "Name"))
    if not ok:
        ev = recs[depth - 1] if depth and depth <= len(recs) else {}
        core.report(ctx, "compression contract broken at trace line %s: %s" % (depth, json.dumps(ev)[:400]),
                    {"kind": "trace", "module": "Trace_Codec", "trace": [ev] if ev.get("e") != "Done" else recs, "line": 1 if ev.get("e") != "Done" else depth})
        # list further offending calls (same rule, evaluated on the log) so that distinct failures are visible
        more = [x for x in calls if x["outcome"] == "abort" or (x["outcome"] == "ok" and not x["rt"])]
        ctx.cov["offending_calls"] = len(more)
    else:
        ctx.add("traces_validated_against_impl", 1)
    distinct = len(set((x["alg"], x["haslevel"], x["level"], x["n"], x["class"]) for x in calls))
    cov = {"evaluations": len(calls), "distinct_nontrivial": distinct, "traces_validated_against_impl": ctx.cov.get("traces_validated_against_impl", 0),
           "outcomes": {k: sum(1 for x in calls if x["outcome"] == k) for k in ("ok", "fail", "abort")}}
    return core.finish(ctx, LEVEL, cov, rule="calls = 5 algorithms x 4 content classes x lengths 0..64 x {no level, 14 levels} (quick thins the level grid for some lengths) + larger buffers to 1 MiB (8 MiB thorough); each in a child; distinct_nontrivial = distinct (algorithm, level, length, class)")
