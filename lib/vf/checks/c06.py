"""C06 Sorter output is the sorted, merged input regardless of chunking.

Specification: Sorter.tla (implementation-shaped: batch, byte budget 8 + lk + lv per entry plus 8 per slot, spill into
a folded sorted chunk, asynchronous chunk completion with a pool, final merge) - TLC checks OutputIsFold (bag equality
with the fold of the values added, whatever the chunking), PayloadBelowLimit, RefusedAfterIter for all bounded add
sequences, five memory limits, pooled and not. Mtbl.tla states the same at the API (SAdd/SIter/SWrite, SpillsOk: every
spill file inside the configured directory, payload below the limit when add returns, refusals after iteration).
Binding: built with -DMTBL_VERIF (kilobyte limits) and the mkstemp seam; TLC behaviours and random multisets (duplicates
within and across chunks, all equal, sorted, reversed, empty key, empty input) run on the real sorter with pools
none/0..3 (quick) or 0..8 (thorough); adds, spills (template path), iterator output, mtbl_sorter_write output read back,
refusals and the temp directory listing are validated by TLC."""
import os, re, json
from .. import core, build, gen, shapes, mergerside as M

KEYS_SIM = [b"", b"a", b"ab", b"abcde"]


def tlc_models(ctx):
    for pooled in ("FALSE", "TRUE"):
        cfg = "MC_Sorter_%s.cfg" % pooled
        if not ctx.quick():
            wd = ctx.sub("mc")
            open(os.path.join(wd, "S%s.cfg" % pooled), "w").write(open(os.path.join(core.SPEC, cfg)).read().replace("MaxAdds = 4", "MaxAdds = 5"))
            open(os.path.join(wd, "S%s.tla" % pooled), "w").write(open(os.path.join(core.SPEC, "MC_Sorter.tla")).read().replace("MODULE MC_Sorter", "MODULE S%s" % pooled))
            r = core.tlc("S%s" % pooled, "S%s.cfg" % pooled, workers=12, cwd=wd, timeout=1800, java_opts=["-DTLA-Library=" + core.SPEC])
        else:
            r = core.tlc("MC_Sorter", cfg, workers=8, timeout=900)
        if not r.ok:
            raise core.Infra("MC_Sorter failed (specification problem):\n" + r.out[-3000:])
        ctx.add("states", r.distinct)
        ctx.add("transitions", r.generated)


def tlc_behaviours(ctx, num):
    r = core.tlc("MC_Sorter_sim", "MC_Sorter_sim.cfg", workers=2, simulate="num=%d" % max(1, num // 2), timeout=600,
                 extra=["-depth", "12", "-seed", str(ctx.seed)])
    if r.inv_violated or r.error:
        raise core.Infra("MC_Sorter_sim failed:\n" + r.out[-3000:])
    hs = set()
    for m in re.finditer(r'<<\s*"HIST",(.*?)>>\s*>>\s*>>', r.out, re.S):
        hs.add(tuple(int(x) for x in re.findall(r"-?\d+", m.group(1))))
    # keep maximal histories only
    out = []
    for h in sorted(hs, key=len, reverse=True):
        if not any(o[:len(h)] == h for o in out):
            out.append(h)
    items = []
    for h in out:
        ops = []
        for i in range(1, len(h) - 1, 2):
            ki, vl = h[i], h[i + 1]
            ops.append(("iter",) if ki == 0 else ("add", KEYS_SIM[ki - 1], vl))
        items.append({"maxmem": h[0], "ops": ops, "origin": "tlc"})
    ctx.add("tlc_behaviours", len(items))
    return items


def random_items(ctx, n):
    rng = ctx.rng
    items = []
    for t in range(n):
        klass = rng.choice(["dups", "allequal", "sorted", "reversed", "empty", "random", "random", "bigvals"])
        alpha = rng.choice([[0x61, 0x62], gen.ALPHA6, list(range(256))])
        nk = rng.choice([1, 3, 8, 30])
        universe = gen.rand_keys(rng, nk, alpha=alpha, maxlen=3) or [b"a"]
        if rng.random() < 0.5 and b"" not in universe:
            universe.append(b"")
        nadd = 0 if klass == "empty" else rng.choice([1, 5, 20, 60])
        ops = []
        if klass == "allequal":
            ks = [universe[0]] * nadd
        elif klass == "sorted":
            ks = sorted(rng.choice(universe) for _ in range(nadd))
        elif klass == "reversed":
            ks = sorted((rng.choice(universe) for _ in range(nadd)), reverse=True)
        else:
            ks = [rng.choice(universe) for _ in range(nadd)]
        for k in ks:
            ops.append(("add", k, rng.choice([1, 2, 3, 20]) if klass == "bigvals" else rng.choice([0, 1, 1, 2])))
        if t % 4 == 1:
            # the smallest entry there is - empty key, empty value - alone in its chunk (limit 1) or next to others, once or twice
            for _ in range(rng.choice([1, 1, 2])):
                ops.insert(rng.randrange(len(ops) + 1), ("add", b"", 0))
        ops.append(("iter",) if rng.random() < 0.6 else ("write",))
        # after iteration began: adds and writes must be refused
        if rng.random() < 0.7:
            ops.append(("add", rng.choice(universe), 1))
        if rng.random() < 0.5:
            ops.append(("write2",))
        items.append({"maxmem": rng.choice([1, 1, 30, 100000]) if t % 4 == 1 else rng.choice([1, 30, 60, 100, 300, 2000, 100000]), "ops": ops, "origin": "random", "klass": klass})
    return items


def item_lines(wd, n, it, pool):
    tmp = os.path.join(wd, "tmp%d" % n)
    os.makedirs(tmp, exist_ok=True)
    it["tmp"] = tmp
    L = ["scratch " + wd]
    if pool >= 0:
        L.append("pool_init 0 %d" % pool)
    L.append("s_init 0 %d %s 1 -1 %d" % (it["maxmem"], tmp, 0 if pool >= 0 else -1))
    tok = 1
    iterated = False
    outp = os.path.join(wd, "out%d.mtbl" % n)
    for p in (outp, outp + ".2"):
        if os.path.exists(p):
            os.unlink(p)
    for op in it["ops"]:
        if op[0] == "add":
            ntok = op[2] if it["origin"] == "random" else max(1, op[2] // 2)       # 0: the empty value
            toks = list(range(tok, tok + ntok))
            tok += ntok
            L.append("s_add 0 %s %s" % (shapes.hexs(op[1]), ("T" + ",".join(map(str, toks))) if toks else "-"))
            L.append("obs " + tmp)
        elif op[0] == "iter" and not iterated:
            L += ["s_iter 0 1", "obs " + tmp, "it_drain 1"]
            iterated = True
        elif op[0] == "write" and not iterated:
            # the writer the sorter is written into shares the sorter's pool in every other pooled run (workers then move
            # between the sorter's unordered jobs and the writer's ordered ones)
            wpool = 0 if (pool >= 0 and n % 2 == 0) else -1
            L += ["w_init 5 %s %s default 1024 2 %d 0" % (outp, "zlib" if wpool == 0 else "none", wpool), "s_write 0 5", "w_close 5", "r_init 5 %s 1 0" % outp,
                  "it_iter 2 r:5", "it_drain 2", "it_destroy 2", "r_destroy 5"]
            iterated = True
        elif op[0] == "write2":
            L += ["w_init 6 %s.2 none default 1024 2 -1 0" % outp, "s_write 0 6", "w_close 6"]
    if not iterated:
        L += ["s_iter 0 1", "it_drain 1"]
    L += ["it_destroy 1"] if any(x.startswith("s_iter") for x in L) else []
    L += ["s_destroy 0", "obs " + tmp]
    if pool >= 0:
        L.append("pool_destroy 0")
    return L


def run(ctx):
    b = build.build("asan")
    tlc_models(ctx)
    items = tlc_behaviours(ctx, 60 if ctx.quick() else 1500)
    items += random_items(ctx, 90 if ctx.quick() else 3000)
    pools = [-1, 0, 1, 3] if ctx.quick() else [-1, 0, 1, 2, 3, 5, 8]
    wd = ctx.sub("run")
    batch, lines, metas = 0, [], []
    allrecs = []

    def flush(bb=None, env=None):
        nonlocal lines, metas, batch
        if not lines:
            return
        evs, rc, err = core.run_drv(bb or b, "\n".join(lines) + "\n", wd, "s%d" % batch, fork=True, timeout=1500, env=dict({"VS_EXEC_TIMEOUT": "30"}, **(env or {})))
        evs = [e for e in evs if e.get("e") not in ("Sched", "Deadlock")]
        recs = core.convert_events(evs)
        execs = core.split_execs(recs)
        out = []
        for ex, meta in zip(execs, metas):
            ext = [e for e in ex if e["e"] == "Exit"]
            if ext and (ext[0]["code"] != 0 or ext[0]["sig"] != 0):
                core.report(ctx, "sorter run ended abnormally (code %s signal %s): %s" % (ext[0]["code"], ext[0]["sig"], json.dumps(meta["brief"])[:300]),
                            {"kind": "abnormal", "why": "code %s signal %s" % (ext[0]["code"], ext[0]["sig"]), "item": meta["brief"]})
                continue
            out += [ex[0], {"e": "Judge", "props": ["C06"]}] + ex[1:]
        for ex, line in core.validate_batch(ctx, out, "s%d" % batch):
            core.report(ctx, "sorter behaviour not explained by the specification at trace line %d: %s" % (line, json.dumps(ex[line - 1])[:300]),
                        {"kind": "trace", "trace": ex, "line": line})
        lines, metas = [], []
        batch += 1

    n = 0
    for it in items:
        pool = pools[n % len(pools)]
        L = item_lines(wd, n, it, pool)
        lines += L + ["---"]
        metas.append({"brief": {"maxmem": it["maxmem"], "pool": pool, "ops": [[o[0]] + ([o[1].hex(), o[2]] if o[0] == "add" else []) for o in it["ops"]][:40]}})
        nadds = sum(1 for o in it["ops"] if o[0] == "add")
        ctx.add("sorter_runs", 1)
        if nadds > 1 and it["maxmem"] < 2000:
            ctx.add("multi_chunk_candidates", 1)
        if n < 2:
            ctx.sample(metas[-1]["brief"])
        n += 1
        if len(metas) >= 40:
            flush()
    flush()
    # the pooled runs once more under the deterministic scheduler, where a chunk job stays in flight for as long as the caller can
    # run (iter / write / destroy then arrive while jobs are still out) - timing the real-thread runs only reach by luck
    sb = build.build("sched")
    k = 0
    for it in items:
        if it["maxmem"] >= 2000 or not any(o[0] == "add" for o in it["ops"]):
            continue
        k += 1
        if k > (36 if ctx.quick() else 600):
            break
        pool = [1, 2, 3][k % 3]
        if k % 2 == 0:
            # every other run is written (mtbl_sorter_write) instead of iterated, right after its last add
            ops2 = [(("write",) if o[0] == "iter" else o) for o in it["ops"]]
            if not any(o[0] in ("iter", "write") for o in ops2):
                ops2.append(("write",))
            it = dict(it, ops=ops2)
        L = item_lines(wd, 100000 + k, it, pool)
        L = [x for x in L if not x.startswith("obs ")]
        lines += L + ["---"]
        metas.append({"brief": {"maxmem": it["maxmem"], "pool": pool, "scheduler": True, "ops": [[o[0]] + ([o[1].hex(), o[2]] if o[0] == "add" else []) for o in it["ops"]][:40]}})
        ctx.add("sorter_runs", 1)
        ctx.add("scheduled_sorter_runs", 1)
        if len(metas) >= 40:
            flush(sb, {"VS_SEED": str(ctx.seed % 100000 + k), "VS_MODE": str(k % 2), "VS_NPRE": "2", "VS_SPUR": "0"})
    flush(sb, {"VS_SEED": str(ctx.seed % 100000 + 7), "VS_MODE": "1", "VS_NPRE": "2", "VS_SPUR": "0"})
    cov = {"states": ctx.cov.get("states", 0), "transitions": ctx.cov.get("transitions", 0),
           "traces_validated_against_impl": ctx.cov.get("traces_validated_against_impl", 0),
           "evaluations": ctx.cov.get("sorter_runs", 0), "distinct_nontrivial": ctx.cov.get("multi_chunk_candidates", 0), "exhaustive": False}
    ctx.assumptions += ["the timing clause (spill no later than the limit) is judged for pool-less sorters; with a pool the spill file is created asynchronously"]
    return core.finish(ctx, "model_checking", cov, rule="sorter runs = TLC -simulate behaviours of Sorter.tla + seeded random multisets x memory limits {1..100000} x pools; non-trivial = more than one add under a small limit (several chunks)")


def replay(ctx, path):
    return M.replay(ctx, path)
