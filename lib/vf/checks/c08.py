"""C08 Writer accepts only strictly increasing keys and never overwrites a file.

Specification: Mtbl!WAdd (ok iff strictly greater than the last accepted key; a refused add changes nothing),
Mtbl!WInit (ok iff the path does not exist), FileHash (bytes of the pre-existing file unchanged); MC_Writer checks
GateInv and RefusalChangesNothing on the implementation-shaped writer for all bounded add sequences.
Binding: TLC behaviours (arbitrary key order, refusals before/after cuts flagged by the model) and random unordered
sequences replayed on the real writer; every return value, the file content (reader + independent decoder) and the
pre-existing files' hashes validated by TLC."""
from .. import core, build, writerside as W

JUDGE = ["C08"]


def run(ctx):
    b = build.build("asan")
    tools = build.build("tools")
    W.tlc_writer_model(ctx, ctx.quick())
    items = W.tlc_behaviours(ctx, 200 if ctx.quick() else 4000, depth=10)
    rnd = [it for it in W.random_items(ctx, 120 if ctx.quick() else 2000, pools=True) if it.get("klass") in ("unordered", "cutprobe", "emptykey", "plain", "capacity", "empty", "lonely")]
    # the capacity class (blocks ending within a few bytes of 64 / 128 KiB) with refused adds in between: an add that is refused must
    # leave the block - and the buffers it is built in - as they were
    for it in rnd:
        if it.get("klass") == "capacity" and len(it["adds"]) == 2:
            a, bb = it["adds"]
            it["adds"] = [a, (a[0], a[1]), (b"", "G1x1"), bb, (bb[0], "G2x0"), (b"a\xff", "G3x0")]
    items += rnd + W.preexisting_items(ctx, 10 if ctx.quick() else 40)
    ncut = sum(1 for it in items for e in it.get("exp", []) if e[1])
    ctx.cov["model_adds_at_block_cut"] = ncut
    rej, abn = W.run_items(ctx, b, tools, items, JUDGE + ["C08read"], with_tools=False)
    W.report_all(ctx, rej, abn)
    ctx.sample({"item": items[0]["name"], "adds": [[k.hex(), v] for k, v in items[0]["adds"]][:10], "model_verdicts": items[0].get("exp")})
    ctx.sample({"item": "pre-existing targets", "kinds": ["file", "emptyfile", "table", "dir", "symlink", "dangling symlink", "symlink to a directory"]})
    cov = {"states": ctx.cov.get("states", 0), "transitions": ctx.cov.get("transitions", 0),
           "traces_validated_against_impl": ctx.cov.get("traces_validated_against_impl", 0),
           "evaluations": ctx.cov.get("trace_events", 0), "distinct_nontrivial": ctx.cov.get("files", 0), "exhaustive": False}
    return core.finish(ctx, "model_checking", cov, rule="add sequences with arbitrary keys (TLC behaviours + seeded random incl. equal keys, prefixes/extensions, bytes >= 0x80, "
                       "refusals around block cuts); each return value and the finished file judged; pre-existing targets of five kinds")


def replay(ctx, path):
    return W.replay(ctx, path)
