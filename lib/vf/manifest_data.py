NOTES = "Work in progress: properties move from not_applicable to checks as their machinery is committed."
NA = {}
TRUST = "trusted: TLC 1.8 + CommunityModules, lib/vf/refcodec.py (independent decoder), harness/mtbl_drv.c logging; exhaustive only within the stated bounds, samples beyond"
CHECKS = {
 "C02": {"level": "model_checking", "technique": "TLA+ refinement check of lookups (TLC, every query in the set per file shape) + the same queries on the real reader + TLC trace validation",
         "text": "For each file shape TLC checks that the implementation-shaped lookup (index seek, block seek, bound predicate) equals the abstract Lookup for every query of the set, and the same queries are issued to the real reader over the real file whose decoded structure instantiated the model.",
         "note": "query set: all strings up to length 2 (quick) / 3 (thorough) over a six-byte alphabet plus stored keys, neighbours, separators; " + TRUST},
 "C11": {"level": "model_checking", "technique": "TLA+ format generator (MC_Foreign: TLC exhaustive on a small table, -simulate beyond) + independent encoder + real reader + TLC trace validation; reader model state-graph replay on foreign files",
         "text": "TLC enumerates legal encodings of a logical table (partition, restart sets, sharing, separators, versions, compression, prefix) and checks the reader model reads them; simulated structures are materialised by an independent encoder and read by the real reader, every result validated against the abstract table.",
         "note": "the > 4 GiB restart-array branch is not covered; non-canonical varints excluded as the property says; " + TRUST},
 "C01": {"level": "model_checking", "technique": "TLA+ model of the writer rules (TLC, bounded exhaustive) + TLC -simulate behaviours and random tables replayed on the real writer/reader/mtbl_dump + TLC trace validation against the abstract spec",
         "text": "TLC checks for all bounded add sequences that the writer's construction rules lose nothing; behaviours of that model and byte-level random tables are written by the real writer under all configurations and every reader/mtbl_dump result is validated by TLC against the abstract table.",
         "note": TRUST},
 "C03": {"level": "model_checking", "technique": "TLA+ refinement check (TLC) + state-graph edge replay + TLC trace validation",
         "text": "TLC checks that the implementation-shaped reader model refines the abstract cursor for every next/seek history over each file shape; every edge of that state graph is replayed on the real reader and the recorded calls are validated against the abstract specification by TLC.",
         "note": "exhaustive per shape within the chosen targets/bounds; shapes and random histories are samples; " + TRUST},
 "C08": {"level": "model_checking", "technique": "TLA+ writer gate (TLC, bounded exhaustive incl. action property 'refusal changes nothing') + behaviours replayed on the real writer + TLC trace validation",
         "text": "Every return value of mtbl_writer_add / mtbl_writer_init in replayed TLC behaviours and random unordered sequences is judged by the abstract gate; finished files are checked through the reader; pre-existing targets are hashed before and after.",
         "note": TRUST},
 "C09": {"level": "translation_validation", "technique": "independent decoder + FileFormat!WellFormed evaluated by TLC on the decoded structure of every emitted file (trace validation); MC_Writer shows the rules satisfy WellFormed",
         "text": "Each file the real writer emits is decoded by an independent implementation and the structure is judged by the TLA+ definition of a well-formed file together with the logged adds.",
         "note": "restart cadence, full-prefix sharing, index interval, both size clauses, contiguity, checksums, trailer form; " + TRUST},
 "C10": {"level": "model_checking", "technique": "TLA+ Truth(S,cfg) evaluated by TLC on decoded files vs mtbl_metadata_* and mtbl_info output (trace validation); MC_Writer TruthInv on the modelled counters",
         "text": "The ten statistics reported by the accessors and printed by mtbl_info are compared with the independently decoded truth for every corpus file (empty table, foreign prefix, refused adds, pooled writers).",
         "note": "pooled writers run under the OS scheduler here (systematic schedules are C13); " + TRUST},
}
