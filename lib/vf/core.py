"""Shared machinery: context, TLC runner, driver runner, log -> trace conversion, evidence, known findings."""
import json, os, re, shutil, subprocess, sys, time, random, hashlib

from . import build as B

VERIF = B.VERIF
SPEC = os.path.join(VERIF, "spec")
OUT = B.OUT
TLA_CP = "/opt/veriftools/tla/tla2tools.jar:/opt/veriftools/tla/CommunityModules-deps.jar"


class Infra(Exception):
    """Infrastructure failure: exit status 2, never a VIOLATION line."""


class Enough(Exception):
    """Raised once a run has collected enough violations; the check stops exploring and reports them."""


class Ctx:
    def __init__(self, pid, tier, seed):
        self.pid = pid
        self.tier = tier
        self.seed = seed
        self.rng = random.Random(seed)
        self.t0 = time.time()
        self.dir = os.path.join(OUT, "run", "%s-%d" % (pid, os.getpid()))
        shutil.rmtree(self.dir, ignore_errors=True)
        os.makedirs(self.dir)
        for old in os.listdir(os.path.dirname(self.dir)):       # leftovers of killed runs
            q = os.path.join(os.path.dirname(self.dir), old)
            try:
                if q != self.dir and time.time() - os.path.getmtime(q) > 7200:
                    shutil.rmtree(q, ignore_errors=True)
            except OSError:
                pass
        self.violations = []     # list of dicts {what, replay}
        self.known = []          # list of strings (KNOWN-FINDING lines)
        self.cov = {}            # coverage dict for the evidence
        self.assumptions = []
        self.notes = []
        self.findings = load_findings()

    def quick(self):
        return self.tier == "quick"

    def sub(self, name):
        d = os.path.join(self.dir, name)
        os.makedirs(d, exist_ok=True)
        return d

    def add(self, key, n=1):
        self.cov[key] = self.cov.get(key, 0) + n

    def sample(self, s, cap=3):
        self.cov.setdefault("samples", [])
        if len(self.cov["samples"]) < cap:
            self.cov["samples"].append(s)

    def cleanup(self):
        shutil.rmtree(self.dir, ignore_errors=True)

    def elapsed(self):
        return time.time() - self.t0


def load_findings():
    p = os.path.join(VERIF, "known_findings.json")
    if not os.path.exists(p):
        return []
    return json.load(open(p)).get("findings", [])


# ------------------------------------------------------------------ TLC

class TlcResult:
    def __init__(self, out, rc, wall):
        self.out = out
        self.rc = rc
        self.wall = wall
        m = re.search(r"(\d+) states generated, (\d+) distinct states found", out)
        self.generated = int(m.group(1)) if m else 0
        self.distinct = int(m.group(2)) if m else 0
        ms = re.findall(r"(\d+) states generated, (\d+) distinct states found", out)
        if ms:
            self.generated, self.distinct = int(ms[-1][0]), int(ms[-1][1])
        m = re.search(r"The depth of the complete state graph search is (\d+)", out)
        self.depth = int(m.group(1)) if m else None
        self.inv_violated = re.findall(r"Invariant (\S+) is violated", out)
        self.prop_violated = bool(re.search(r"Temporal properties were violated|Action property .* is violated", out))
        self.deadlock = "Deadlock reached" in out
        self.post_false = bool(re.search(r"Postcondition .* is false|Evaluating postcondition .* failed", out, re.S))
        self.error = ("Error:" in out) and not (self.inv_violated or self.deadlock or self.post_false or self.prop_violated)
        self.finished = "Model checking completed" in out or "Finished in" in out
        self.ok = self.finished and not (self.inv_violated or self.deadlock or self.post_false or self.prop_violated or self.error)


def dbg(msg):
    if os.environ.get("VERIF_DEBUG"):
        print("[%s] %s" % (time.strftime("%H:%M:%S"), msg), file=sys.stderr)


def tlc(module, cfg=None, workers=1, env=None, timeout=600, extra=(), cwd=None, metadir=None, java_opts=(), simulate=None):
    """Run TLC on spec/<module>.tla. Returns TlcResult. Raises Infra on timeout/parse failure."""
    cwd = cwd or SPEC
    metadir = metadir or os.path.join(OUT, "tlc", "%s-%d-%d" % (module, os.getpid(), int(time.time() * 1000) % 100000000))
    os.makedirs(metadir, exist_ok=True)
    cmd = ["java", "-XX:+UseParallelGC"] + list(java_opts) + ["-cp", TLA_CP, "tlc2.TLC",
           "-workers", str(workers), "-metadir", metadir, "-noGenerateSpecTE"]
    if cfg:
        cmd += ["-config", cfg]
    if simulate:
        cmd += ["-simulate", simulate]
    cmd += list(extra) + [module + ".tla"]
    e = dict(os.environ)
    e.pop("JAVA_TOOL_OPTIONS", None)
    if env:
        e.update(env)
    t0 = time.time()
    try:
        p = subprocess.run(cmd, cwd=cwd, env=e, stdout=subprocess.PIPE, stderr=subprocess.STDOUT, text=True, timeout=timeout)
    except subprocess.TimeoutExpired as ex:
        shutil.rmtree(metadir, ignore_errors=True)
        raise Infra("TLC timeout on %s after %ds" % (module, timeout))
    shutil.rmtree(metadir, ignore_errors=True)
    r = TlcResult(p.stdout, p.returncode, time.time() - t0)
    dbg("tlc %s %.1fs distinct=%d" % (module, r.wall, r.distinct))
    if "Parsing or semantic analysis failed" in p.stdout or "Error: TLC threw an unexpected exception" in p.stdout and not r.inv_violated:
        raise Infra("TLC failed on %s:\n%s" % (module, p.stdout[-3000:]))
    return r


def apalache(module, cinit, init, inv, length, outdir, timeout=600):
    """Run apalache-mc check on spec/<module>.tla. Returns "ok" (no error up to the length), "violated", or "unavailable: ..."."""
    import shutil as _sh
    exe = _sh.which("apalache-mc")
    if not exe:
        return "unavailable: apalache-mc is not on PATH"
    os.makedirs(outdir, exist_ok=True)
    cmd = [exe, "check", "--out-dir=" + outdir, "--cinit=" + cinit, "--init=" + init, "--inv=" + inv, "--length=%d" % length, os.path.join(SPEC, module + ".tla")]
    e = dict(os.environ)
    e.pop("JAVA_TOOL_OPTIONS", None)
    try:
        p = subprocess.run(cmd, cwd=outdir, env=e, stdout=subprocess.PIPE, stderr=subprocess.STDOUT, text=True, timeout=timeout)
    except subprocess.TimeoutExpired:
        return "unavailable: timeout"
    dbg("apalache %s %s %s -> %s" % (module, cinit, inv, p.returncode))
    if "The outcome is: NoError" in p.stdout:
        return "ok"
    if "The outcome is: Error" in p.stdout and "Checker has found an error" in p.stdout:
        return "violated"
    return "unavailable: " + p.stdout[-300:].replace("\n", " ")


# ------------------------------------------------------------------ driver

def zlib_crc(text):
    import zlib
    return zlib.crc32(text.encode("utf-8", "replace"))


def run_drv(b, script_text, workdir, name="x", fork=False, timeout=300, env=None):
    """Run harness/mtbl_drv on a script. Returns (events, returncode, stderr)."""
    sp = os.path.join(workdir, name + ".script")
    lp = os.path.join(workdir, name + ".log")
    open(sp, "w").write(script_text)
    if os.path.exists(lp):
        os.unlink(lp)
    e = dict(os.environ)
    e.setdefault("ASAN_OPTIONS", "detect_leaks=1:abort_on_error=0:exitcode=99:allocator_may_return_null=1")
    e.setdefault("UBSAN_OPTIONS", "halt_on_error=1:exitcode=98:print_stacktrace=1")
    e.setdefault("LSAN_OPTIONS", "exitcode=97")
    # the reader's documented environment knob (madvise behaviour) must not change any observable behaviour: every
    # driver run gets one of unset / "0" / "1", chosen from the script's content so that a run is reproducible
    e.pop("MTBL_READER_MADVISE_RANDOM", None)
    knob = (zlib_crc(script_text) >> 3) % 4
    if os.environ.get("VERIF_KNOB"):         # self-test: force the knob (0 unset, 1 "0", 2 "1")
        knob = int(os.environ["VERIF_KNOB"])
    if knob in (1, 2):
        e["MTBL_READER_MADVISE_RANDOM"] = str(knob - 1)
    if env:
        e.update(env)
    cmd = [b["drv"]] + (["-f"] if fork else []) + [sp, lp]
    try:
        p = subprocess.run(cmd, stdout=subprocess.PIPE, stderr=subprocess.PIPE, text=True, timeout=timeout, env=e, errors="replace")
        rc, err = p.returncode, p.stderr
    except subprocess.TimeoutExpired as ex:
        rc, err = -999, "TIMEOUT"
    evs = []
    if os.path.exists(lp):
        for ln in open(lp):
            ln = ln.strip()
            if ln:
                try:
                    evs.append(json.loads(ln))
                except ValueError:
                    evs.append({"e": "Garbled", "raw": ln})
    return evs, rc, err


def hex2ints(h):
    return list(bytes.fromhex(h))


def val2ints(v):
    if isinstance(v, str):
        return hex2ints(v)
    h = v["h"]
    return [-1, v["n"]] + [int(h[i:i + 4], 16) for i in range(0, 16, 4)]


def src2rec(s):
    return {"t": s[0], "n": int(s[2:])}


def convert_events(evs, attach_calls=True):
    """Driver events -> trace records for Trace_Mtbl (keys/values as integer arrays, sources as records).
    MergeCall lines logged by the merge callback between two API events are attached to the API event that
    follows them (field calls): they happened during that call."""
    out = []
    pending_calls = []
    pending_spills = []
    for e in evs:
        e = dict(e)
        if e.get("e") == "Spill":
            pending_spills.append({"tmpl": list(e["tmpl"].encode()), "nadd": e["nadd"]})
            continue
        if pending_spills and e.get("e") in ("SAdd", "SIter", "SWrite", "SDestroy"):
            e["spills"] = pending_spills
            pending_spills = []
        if e.get("e") in ("FsInit", "FsDup"):
            iv = e["interval"]
            e["interval"] = 2147483647 if iv == "never" else 60 if iv == "default" else int(iv)
            e["fnfilter"] = [] if e["fnfilter"] == "-" else list(e["fnfilter"].encode())
        if e.get("e") == "FsPartition":
            e["chars"] = hex2ints(e["chars"])
        if e.get("e") == "SetFile":
            d = os.path.dirname(e["path"])
            e["abs"] = [os.path.normpath(n if n.startswith("/") else os.path.join(d, n)) for n in e["names"]]
            e["bcs"] = [ord(os.path.basename(n)[0]) for n in e["names"]]
        if e.get("e") == "SInit":
            e["tmpdir"] = list(e["tmpdir"].encode())
            e["maxmem"] = 1073741824 if e["maxmem"] == "default" else min(int(e["maxmem"]), 2000000000)
        if attach_calls and e.get("e") == "MergeCall":
            pending_calls.append({"m": e["m"], "k": hex2ints(e["k"]), "a": val2ints(e["a"]), "b": val2ints(e["b"]), "fail": e["fail"]})
            continue
        if attach_calls and pending_calls and e.get("e") in ("Next", "Seek", "Open", "SIter", "SAdd", "SWrite", "SrcWrite", "Close"):
            e["calls"] = pending_calls
            pending_calls = []
        for f in ("k", "k0", "k1"):
            if f in e and isinstance(e[f], str):
                e[f] = hex2ints(e[f])
        for f in ("v", "a", "b"):
            if f in e:
                e[f] = val2ints(e[f])
        if "src" in e and isinstance(e["src"], str):
            e["src"] = src2rec(e["src"])
        if e.get("e") == "RMeta":
            e["complete"] = True
        out.append(e)
    return out


WIDE_CAP = 1 << 30


def _cap_wide(x):
    """TLC integers are 32 bits wide: configured / recorded block sizes are capped at 2^30 on both sides of every comparison
    (monotone, so equal values stay equal and a value reduced modulo 2^32 or clamped no longer equals the configured one)"""
    if isinstance(x, dict):
        return {k: (min(v, WIDE_CAP) if k in ("bs", "data_block_size") and isinstance(v, int) and not isinstance(v, bool) else _cap_wide(v)) for k, v in x.items()}
    if isinstance(x, list):
        return [_cap_wide(v) for v in x]
    return x


def write_trace(path, recs):
    with open(path, "w") as f:
        for r in recs:
            f.write(json.dumps(_cap_wide(r), separators=(",", ":")) + "\n")


def validate_trace(trace_path, module="Trace_Mtbl", cfg=None, timeout=900, java_opts=("-Xss64m",)):
    """TLC trace validation. Returns (accepted, depth_reached, TlcResult)."""
    n = sum(1 for _ in open(trace_path))
    r = tlc(module, cfg or (module + ".cfg"), workers=1, env={"TRACE": trace_path}, timeout=timeout, java_opts=java_opts)
    if not r.finished and not r.post_false:
        raise Infra("trace validation did not finish:\n" + r.out[-3000:])
    if r.error:
        raise Infra("trace validation error:\n" + r.out[-3000:])
    accepted = (not r.post_false) and r.depth is not None and r.depth - 1 == n
    return accepted, r.depth, r


def split_execs(recs):
    """Split a list of trace records at Reset events."""
    res, cur = [], []
    for r in recs:
        if r.get("e") == "Reset" and cur:
            res.append(cur)
            cur = []
        cur.append(r)
    if cur:
        res.append(cur)
    return res


def validate_batch(ctx, recs, name, module="Trace_Mtbl", cfg=None, max_bad=8):
    """Validate a batch of executions (separated by Reset). On rejection the failing execution is located from the
    depth TLC reached, re-validated alone (a rejection counts only if it repeats at the same line), and validation
    continues with the executions after it. Returns list of (exec_records, failing_line)."""
    d = ctx.sub("traces")
    bad = []
    execs = split_execs(recs)
    start = 0
    rnd = 0
    while start < len(execs) and len(bad) < max_bad:
        part = [r for ex in execs[start:] for r in ex]
        p = os.path.join(d, "%s.%d.ndjson" % (name, rnd))
        rnd += 1
        write_trace(p, part)
        ok, depth, r = validate_trace(p, module, cfg)
        ctx.add("trace_events", len(part) if ok else max(0, (depth or 1) - 1))
        ctx.add("trace_states", r.distinct)
        # which actions of the trace specification were exercised (every accepted line is one step of the action named by its
        # event): evidence against vacuity
        kinds = ctx.cov.setdefault("validated_events_by_kind", {})
        for r_ in part[:len(part) if ok else max(0, (depth or 1) - 1)]:
            k_ = r_.get("e", "?")
            if k_ in ("Next", "Seek"):
                k_ += ":hit" if r_.get("ok") else ":miss"
            kinds[k_] = kinds.get(k_, 0) + 1
        if ok:
            ctx.add("traces_validated_against_impl", len(execs) - start)
            break
        line = depth or 1
        acc = 0
        idx = start
        for i in range(start, len(execs)):
            if acc + len(execs[i]) >= line:
                idx = i
                break
            acc += len(execs[i])
        ctx.add("traces_validated_against_impl", idx - start)
        q = os.path.join(d, "%s.x%d.ndjson" % (name, idx))
        write_trace(q, execs[idx])
        ok1, depth1, _ = validate_trace(q, module, cfg)
        if not ok1:
            ok2, depth2, _ = validate_trace(q, module, cfg)
            if not ok2 and depth2 == depth1:
                bad.append((execs[idx], depth1))
        else:
            ctx.add("traces_validated_against_impl", 1)
        start = idx + 1
    return bad


# ------------------------------------------------------------------ verdicts and evidence

def save_replay(ctx, obj):
    d = os.path.join(OUT, "replays", ctx.pid)
    os.makedirs(d, exist_ok=True)
    n = len(os.listdir(d))
    p = os.path.join(d, "%d.json" % n)
    json.dump(obj, open(p, "w"), indent=1)
    return p


def report(ctx, what, replay_obj, signature=None):
    """Record a rejection: known finding (by signature) or violation."""
    for f in ctx.findings:
        if f.get("status") == "known" and f.get("property") == ctx.pid and signature and f.get("signature") == signature:
            line = "KNOWN-FINDING: property=%s %s" % (ctx.pid, f.get("what", signature))
            if line not in ctx.known:
                ctx.known.append(line)
            return
    p = save_replay(ctx, replay_obj)
    ctx.violations.append({"what": what, "replay": p})
    if len(ctx.violations) >= 6:
        raise Enough()


def finish(ctx, level, extra_cov=None, rule=None):
    cov = dict(ctx.cov)
    if extra_cov:
        cov.update(extra_cov)
    if rule:
        cov["rule"] = rule
    cov.setdefault("samples", ["(none)"])
    ev = {
        "property_id": ctx.pid, "tier": ctx.tier, "seed": ctx.seed, "level": level,
        "coverage": cov, "assumptions": ctx.assumptions, "wall_s": round(ctx.elapsed(), 2),
        "violations": len(ctx.violations),
    }
    if ctx.notes:
        ev["coverage"]["notes"] = ctx.notes
    # evidence describes runs against /repo itself; self-test runs against a scratch tree (VERIF_REPO) write elsewhere
    evdir = os.path.join(VERIF, "evidence") if "VERIF_REPO" not in os.environ else os.path.join(OUT, "evidence-scratch")
    os.makedirs(evdir, exist_ok=True)
    json.dump(ev, open(os.path.join(evdir, ctx.pid + ".json"), "w"), indent=1)
    for k in ctx.known:
        print(k)
    for v in ctx.violations[:12]:
        print("VIOLATION property=%s replay=%s" % (ctx.pid, v["replay"]))
        print("  " + v["what"][:600])
    if len(ctx.violations) > 12:
        print("(%d further violations not listed; replays under %s)" % (len(ctx.violations) - 12, os.path.dirname(ctx.violations[0]["replay"])))
    ctx.cleanup()
    return 1 if ctx.violations else 0
