"""Independent implementation of the MTBL file format (decoder and encoder), written from the format
description and sharing no code with libmtbl: own CRC-32C, own varints, zlib from the Python standard library,
lz4 / zstd / snappy called directly through ctypes (not through mtbl/compression.c).

decode(path)  -> structure (dict)       used as the projection of real files (C01 C08 C09 C10 C12)
encode(struct) -> bytes                  used as the generator back end (C11 C12 C19)
"""
import ctypes, ctypes.util, struct, zlib

MAGIC_V2 = 0x4D54424C
MAGIC_V1 = 0x77846676
TRAILER = 512
COMP = {0: "none", 1: "snappy", 2: "zlib", 3: "lz4", 4: "lz4hc", 5: "zstd"}
COMP_ID = {v: k for k, v in COMP.items()}


class FormatError(Exception):
    pass


# ---------------------------------------------------------------- CRC-32C (Castagnoli), reflected, table driven
def _mk_table():
    t = []
    for i in range(256):
        c = i
        for _ in range(8):
            c = (c >> 1) ^ 0x82F63B78 if c & 1 else c >> 1
        t.append(c)
    return t


_T = _mk_table()


def crc32c(data, crc=0):
    c = crc ^ 0xFFFFFFFF
    t = _T
    for b in data:
        c = t[(c ^ b) & 0xFF] ^ (c >> 8)
    return c ^ 0xFFFFFFFF


def crc32c_bitwise(data):
    c = 0xFFFFFFFF
    for b in data:
        c ^= b
        for _ in range(8):
            c = (c >> 1) ^ 0x82F63B78 if c & 1 else c >> 1
    return c ^ 0xFFFFFFFF


# ---------------------------------------------------------------- varints
def varint_enc(n):
    out = bytearray()
    while n >= 128:
        out.append((n & 0x7F) | 0x80)
        n >>= 7
    out.append(n)
    return bytes(out)


def varint_dec(buf, pos, maxlen=10):
    n = 0
    shift = 0
    for i in range(maxlen):
        if pos + i >= len(buf):
            raise FormatError("truncated varint at %d" % pos)
        b = buf[pos + i]
        n |= (b & 0x7F) << shift
        if not b & 0x80:
            if i > 0 and b == 0:
                raise FormatError("non-canonical varint at %d" % pos)
            return n, pos + i + 1
        shift += 7
    raise FormatError("over-long varint at %d" % pos)


# ---------------------------------------------------------------- compression libraries
def _lib(name):
    p = ctypes.util.find_library(name)
    if not p:
        raise FormatError("library %s not found" % name)
    return ctypes.CDLL(p)


_libs = {}


def lib(name):
    if name not in _libs:
        _libs[name] = _lib(name)
    return _libs[name]


def decompress(alg, data):
    if alg == "none":
        return bytes(data)
    if alg == "zlib":
        return zlib.decompress(bytes(data))
    if alg in ("lz4", "lz4hc"):
        if len(data) < 4:
            raise FormatError("lz4 block too short")
        n = struct.unpack_from("<I", data, 0)[0]
        L = lib("lz4")
        out = ctypes.create_string_buffer(max(n, 1))
        L.LZ4_decompress_safe.restype = ctypes.c_int
        r = L.LZ4_decompress_safe(bytes(data[4:]), out, len(data) - 4, n)
        if r != n:
            raise FormatError("lz4 decompress: %d != %d" % (r, n))
        return out.raw[:n]
    if alg == "zstd":
        L = lib("zstd")
        L.ZSTD_getFrameContentSize.restype = ctypes.c_ulonglong
        n = L.ZSTD_getFrameContentSize(bytes(data), ctypes.c_size_t(len(data)))
        if n >= 0xFFFFFFFFFFFFFFFE:
            raise FormatError("zstd: no content size")
        out = ctypes.create_string_buffer(max(n, 1))
        L.ZSTD_decompress.restype = ctypes.c_size_t
        r = L.ZSTD_decompress(out, ctypes.c_size_t(n), bytes(data), ctypes.c_size_t(len(data)))
        if r != n:
            raise FormatError("zstd decompress failed")
        return out.raw[:n]
    if alg == "snappy":
        L = lib("snappy")
        n = ctypes.c_size_t(0)
        if L.snappy_uncompressed_length(bytes(data), ctypes.c_size_t(len(data)), ctypes.byref(n)) != 0:
            raise FormatError("snappy: bad length")
        out = ctypes.create_string_buffer(max(n.value, 1))
        m = ctypes.c_size_t(n.value)
        if L.snappy_uncompress(bytes(data), ctypes.c_size_t(len(data)), out, ctypes.byref(m)) != 0:
            raise FormatError("snappy: uncompress failed")
        return out.raw[:m.value]
    raise FormatError("unknown compression %r" % alg)


def compress(alg, data):
    data = bytes(data)
    if alg == "none":
        return data
    if alg == "zlib":
        return zlib.compress(data)
    if alg in ("lz4", "lz4hc"):
        L = lib("lz4")
        bound = L.LZ4_compressBound(len(data))
        out = ctypes.create_string_buffer(max(bound, 1))
        r = L.LZ4_compress_default(data, out, len(data), bound)
        if r <= 0 and len(data) > 0:
            raise FormatError("lz4 compress failed")
        return struct.pack("<I", len(data)) + out.raw[:r]
    if alg == "zstd":
        L = lib("zstd")
        L.ZSTD_compressBound.restype = ctypes.c_size_t
        bound = L.ZSTD_compressBound(ctypes.c_size_t(len(data)))
        out = ctypes.create_string_buffer(bound)
        L.ZSTD_compress.restype = ctypes.c_size_t
        r = L.ZSTD_compress(out, ctypes.c_size_t(bound), data, ctypes.c_size_t(len(data)), 3)
        return out.raw[:r]
    if alg == "snappy":
        L = lib("snappy")
        L.snappy_max_compressed_length.restype = ctypes.c_size_t
        bound = L.snappy_max_compressed_length(ctypes.c_size_t(len(data)))
        out = ctypes.create_string_buffer(bound)
        m = ctypes.c_size_t(bound)
        if L.snappy_compress(data, ctypes.c_size_t(len(data)), out, ctypes.byref(m)) != 0:
            raise FormatError("snappy compress failed")
        return out.raw[:m.value]
    raise FormatError("unknown compression %r" % alg)


# ---------------------------------------------------------------- block contents
def decode_block_contents(c):
    """-> dict(entries=[dict(shared, nonshared, vlen, key(bytes), val(bytes), off)], restarts=[...], r64=bool, size)"""
    if len(c) < 8:
        raise FormatError("block contents too short (%d)" % len(c))
    nres = struct.unpack_from("<I", c, len(c) - 4)[0]
    if nres < 1:
        raise FormatError("no restart points")
    roff = len(c) - 4 - 4 * nres
    r64 = False
    if roff > 0xFFFFFFFF:
        roff = len(c) - 4 - 8 * nres
        r64 = True
    if roff < 0:
        raise FormatError("restart array does not fit")
    restarts = [struct.unpack_from("<Q" if r64 else "<I", c, roff + (8 if r64 else 4) * i)[0] for i in range(nres)]
    entries = []
    pos = 0
    prev = b""
    while pos < roff:
        off = pos
        shared, pos = varint_dec(c, pos, 5)
        nonshared, pos = varint_dec(c, pos, 5)
        vlen, pos = varint_dec(c, pos, 5)
        if pos + nonshared + vlen > roff:
            raise FormatError("entry at %d overruns the restart array" % off)
        if shared > len(prev):
            raise FormatError("entry at %d shares %d bytes of a %d byte key" % (off, shared, len(prev)))
        key = prev[:shared] + bytes(c[pos:pos + nonshared])
        val = bytes(c[pos + nonshared:pos + nonshared + vlen])
        pos += nonshared + vlen
        entries.append({"shared": shared, "nonshared": nonshared, "vlen": vlen, "key": key, "val": val, "off": off})
        prev = key
    return {"entries": entries, "restarts": restarts, "r64": r64, "size": len(c)}


def encode_block_contents(entries, restarts_at, sharing=None):
    """entries: list of (key, val); restarts_at: set of entry indices (0-based) that are restart points, must
    contain 0 when entries exist; sharing: optional list of shared lengths (<= LCP, 0 at restarts)."""
    out = bytearray()
    restarts = []
    prev = b""
    for i, (k, v) in enumerate(entries):
        if i in restarts_at:
            restarts.append(len(out))
            sh = 0
        else:
            lcp = 0
            while lcp < len(prev) and lcp < len(k) and prev[lcp] == k[lcp]:
                lcp += 1
            sh = lcp if sharing is None else min(sharing[i], lcp)
        out += varint_enc(sh) + varint_enc(len(k) - sh) + varint_enc(len(v)) + k[sh:] + v
        prev = k
    if not restarts:
        restarts = [0]
    for r in restarts:
        out += struct.pack("<I", r)
    out += struct.pack("<I", len(restarts))
    return bytes(out)


# ---------------------------------------------------------------- whole files
def decode(path_or_bytes):
    if isinstance(path_or_bytes, str):
        import mmap, os as _os
        if _os.path.getsize(path_or_bytes) == 0:
            raise FormatError("shorter than the trailer")
        _f = open(path_or_bytes, "rb")
        data = mmap.mmap(_f.fileno(), 0, access=mmap.ACCESS_READ)      # huge sparse files are not read into memory
    else:
        data = bytes(path_or_bytes)
    if len(data) < TRAILER:
        raise FormatError("shorter than the trailer")
    tr = bytes(data[len(data) - TRAILER:])
    magic = struct.unpack_from("<I", tr, TRAILER - 4)[0]
    if magic == MAGIC_V2:
        ver = 2
    elif magic == MAGIC_V1:
        ver = 1
    else:
        raise FormatError("bad magic %08x" % magic)
    f = struct.unpack_from("<9Q", tr, 0)
    names = ["index_block_offset", "data_block_size", "compression_algorithm", "count_entries", "count_data_blocks",
             "bytes_data_blocks", "bytes_index_block", "bytes_keys", "bytes_values"]
    meta = dict(zip(names, f))
    pad = tr[72:TRAILER - 4]
    s = {"version": ver, "meta": meta, "padding_zero": pad == bytes(len(pad)), "size": len(data)}
    if meta["compression_algorithm"] not in COMP:
        raise FormatError("unknown compression id %d" % meta["compression_algorithm"])
    alg = COMP[meta["compression_algorithm"]]
    s["compression"] = alg

    def read_block(off, compressed):
        if off >= len(data) - TRAILER:
            raise FormatError("block offset %d outside the data area" % off)
        if ver == 2:
            n, p = varint_dec(data, off, 10)
        else:
            n = struct.unpack_from("<I", data, off)[0]
            p = off + 4
        if p + 4 + n > len(data) - TRAILER:
            raise FormatError("block at %d overruns the trailer" % off)
        stored_crc = struct.unpack_from("<I", data, p)[0]
        raw = bytes(data[p + 4:p + 4 + n])
        blk = {"offset": off, "len_prefix": p - off, "stored_len": n, "stored_crc": stored_crc,
               "calc_crc": crc32c(raw), "end": p + 4 + n}
        contents = decompress(alg, raw) if compressed else raw
        blk.update(decode_block_contents(contents))
        blk["contents_len"] = len(contents)
        return blk

    ioff = meta["index_block_offset"]
    index = read_block(ioff, False)
    s["index"] = index
    if index["end"] != len(data) - TRAILER:
        raise FormatError("index block does not end at the trailer (%d != %d)" % (index["end"], len(data) - TRAILER))
    blocks = []
    for e in index["entries"]:
        off, p = varint_dec(e["val"], 0, 10)
        if p != len(e["val"]):
            raise FormatError("index value has trailing bytes")
        b = read_block(off, True)
        b["sep"] = e["key"]
        blocks.append(b)
    s["blocks"] = blocks
    s["first_offset"] = blocks[0]["offset"] if blocks else ioff
    return s


def entries_of(s):
    return [(e["key"], e["val"]) for b in s["blocks"] for e in b["entries"]]


def encode(blocks, version=2, compression="none", prefix=b"", block_size=8192, meta_override=None, index_restart_every=16):
    """blocks: list of dicts {entries:[(k,v)], restarts:set of indices, sharing:list|None, sep:bytes}.
    Returns the file bytes."""
    out = bytearray(prefix)
    idx_entries = []
    nent = bk = bv = 0
    bytes_data = 0
    for b in blocks:
        contents = encode_block_contents(b["entries"], b.get("restarts", {0}), b.get("sharing"))
        raw = compress(compression, contents)
        off = len(out)
        out += (varint_enc(len(raw)) if version == 2 else struct.pack("<I", len(raw)))
        out += struct.pack("<I", crc32c(raw)) + raw
        bytes_data += len(out) - off
        idx_entries.append((b["sep"], varint_enc(off)))
        for k, v in b["entries"]:
            nent += 1
            bk += len(k)
            bv += len(v)
    ioff = len(out)
    ic = encode_block_contents(idx_entries, set(range(0, len(idx_entries), index_restart_every)) or {0})
    out += (varint_enc(len(ic)) if version == 2 else struct.pack("<I", len(ic)))
    out += struct.pack("<I", crc32c(ic)) + ic
    meta = {"index_block_offset": ioff, "data_block_size": block_size, "compression_algorithm": COMP_ID[compression],
            "count_entries": nent, "count_data_blocks": len(blocks), "bytes_data_blocks": bytes_data,
            "bytes_index_block": len(out) - ioff, "bytes_keys": bk, "bytes_values": bv}
    if meta_override:
        meta.update(meta_override)
    tr = struct.pack("<9Q", *[meta[n] for n in ["index_block_offset", "data_block_size", "compression_algorithm", "count_entries",
                                                  "count_data_blocks", "bytes_data_blocks", "bytes_index_block", "bytes_keys", "bytes_values"]])
    tr += bytes(TRAILER - 4 - len(tr)) + struct.pack("<I", MAGIC_V2 if version == 2 else MAGIC_V1)
    out += tr
    return bytes(out)


# ---------------------------------------------------------------- a block above 4 GiB in a sparse file
def _crc_zero_run(c, n):
    """register state after n zero bytes (the update is linear over GF(2): n-th power of the one-zero-byte operator)"""
    m = [(_T[(1 << i) & 0xFF] ^ ((1 << i) >> 8)) for i in range(32)]

    def app(mm, v):
        r, i = 0, 0
        while v:
            if v & 1:
                r ^= mm[i]
            v >>= 1
            i += 1
        return r
    while n:
        if n & 1:
            c = app(m, c)
        m = [app(m, x) for x in m]
        n >>= 1
    return c


def crc32c_segments(segs):
    """segs: list of bytes objects and integers (an integer n stands for n zero bytes)"""
    c = 0xFFFFFFFF
    for s in segs:
        if isinstance(s, int):
            c = _crc_zero_run(c, s)
        else:
            for b in s:
                c = _T[(c ^ b) & 0xFF] ^ (c >> 8)
    return c ^ 0xFFFFFFFF


def fnv64_zeros(n):
    return (1469598103934665603 * pow(1099511628211, n, 1 << 64)) & 0xFFFFFFFFFFFFFFFF


def write_sparse_bigblock(path, big=1610612736, prefix=13):
    """A well-formed v2 file with ONE uncompressed data block whose entry area exceeds 4 GiB (three values of `big` zero bytes in
    holes of a sparse file, then small entries), a restart point at every entry - so the restart array is the 64-bit form and
    three of its offsets are >= 2^32 - behind `prefix` foreign bytes. Returns the list of (key, value) with a value given as bytes
    or as an integer n (n zero bytes)."""
    ents = [(b"a", big), (b"b", big), (b"b2", big), (b"c", b"C"), (b"d", b"D"), (b"dd", b"E" * 5)]
    segs, restarts, pos = [], [], 0
    for k, v in ents:
        vlen = v if isinstance(v, int) else len(v)
        hdr = varint_enc(0) + varint_enc(len(k)) + varint_enc(vlen) + k
        restarts.append(pos)
        segs.append(hdr)
        segs.append(v)
        pos += len(hdr) + vlen
    assert pos > 0xFFFFFFFF
    tail = b"".join(struct.pack("<Q", r) for r in restarts) + struct.pack("<I", len(restarts))
    segs.append(tail)
    blen = pos + len(tail)
    crc = crc32c_segments(segs)
    with open(path, "wb") as f:
        f.write(bytes([0x5A]) * prefix)
        boff = f.tell()
        f.write(varint_enc(blen) + struct.pack("<I", crc))
        for s in segs:
            if isinstance(s, int):
                f.seek(s, 1)
            else:
                f.write(s)
        ioff = f.tell()
        ic = encode_block_contents([(b"dd", varint_enc(boff))], {0})
        f.write(varint_enc(len(ic)) + struct.pack("<I", crc32c(ic)) + ic)
        end = f.tell()
        nent = len(ents)
        bk = sum(len(k) for k, _ in ents)
        bv = sum(v if isinstance(v, int) else len(v) for _, v in ents)
        vals = [ioff, 8192, 0, nent, 1, ioff - boff, end - ioff, bk, bv]
        tr = struct.pack("<9Q", *vals)
        tr += bytes(TRAILER - 4 - len(tr)) + struct.pack("<I", MAGIC_V2)
        f.write(tr)
    return ents, restarts


def _sparse_block(ents):
    """-> (segments of the block contents with a restart at every entry, contents length)"""
    segs, restarts, pos = [], [], 0
    for k, v in ents:
        vlen = v if isinstance(v, int) else len(v)
        hdr = varint_enc(0) + varint_enc(len(k)) + varint_enc(vlen) + k
        restarts.append(pos)
        segs += [hdr, v]
        pos += len(hdr) + vlen
    wide = pos > 0xFFFFFFFF
    tail = b"".join(struct.pack("<Q" if wide else "<I", r) for r in restarts) + struct.pack("<I", len(restarts))
    segs.append(tail)
    return segs, pos + len(tail)


def framed_size(ents):
    segs, clen = _sparse_block(ents)
    return len(varint_enc(clen)) + 4 + clen


def write_sparse_table(path, blocks, prefix=13):
    """A well-formed uncompressed v2 file from blocks = [[(key, value)]], a value being bytes or an integer n (n zero bytes,
    left as a hole of the sparse file); restart point at every entry. Returns the block offsets."""
    offs, idx = [], []
    nent = bk = bv = 0
    with open(path, "wb") as f:
        f.write(bytes([0x5A]) * prefix)
        for ents in blocks:
            segs, clen = _sparse_block(ents)
            offs.append(f.tell())
            f.write(varint_enc(clen) + struct.pack("<I", crc32c_segments(segs)))
            for s in segs:
                if isinstance(s, int):
                    f.seek(s, 1)
                else:
                    f.write(s)
            idx.append((ents[-1][0], varint_enc(offs[-1])))
            for k, v in ents:
                nent += 1
                bk += len(k)
                bv += v if isinstance(v, int) else len(v)
        ioff = f.tell()
        ic = encode_block_contents(idx, set(range(0, len(idx), 16)) or {0})
        f.write(varint_enc(len(ic)) + struct.pack("<I", crc32c(ic)) + ic)
        end = f.tell()
        tr = struct.pack("<9Q", ioff, 8192, 0, nent, len(blocks), ioff - prefix, end - ioff, bk, bv)
        tr += bytes(TRAILER - 4 - len(tr)) + struct.pack("<I", MAGIC_V2)
        f.write(tr)
    return offs


def blocks_2pow32_apart():
    """blocks for write_sparse_table: a small block L, three blocks holding one huge zero value each, a small block H, sized so that
    H starts exactly 2^32 bytes after L (block offsets equal modulo 2^32)"""
    L = [(("k%02d" % i).encode(), bytes([0x41 + i]) * 20) for i in range(6)]
    H = [(("x%02d" % i).encode(), bytes([0x61 + i]) * 20) for i in range(6)]
    n = 1431655765
    M1, M2 = [(b"m1", n)], [(b"m2", n)]
    rest = (1 << 32) - framed_size(L) - framed_size(M1) - framed_size(M2)
    n3 = rest - framed_size([(b"m3", 1 << 30)]) + (1 << 30)
    M3 = [(b"m3", n3)]
    assert framed_size(L) + framed_size(M1) + framed_size(M2) + framed_size(M3) == 1 << 32 and n3 < (1 << 31)
    return [L, M1, M2, M3, H]
