"""Shared pieces of the reader-side checks (C02 C03 C11): real files, their decoded structure, the reader model's
state graph for that very file, and replay scripts derived from it."""
import os, re, json
from . import core, shapes, gen, refcodec as R


def write_real_file(ctx, b, workdir, name, cfg, entries):
    """Write a table with the real writer (driver run). Returns (path, trace records of the writing, structure)."""
    path = os.path.join(workdir, name + ".mtbl")
    if os.path.exists(path):
        os.unlink(path)
    lines = ["scratch " + workdir] + gen.write_table_lines(0, path, cfg, entries)
    evs, rc, err = core.run_drv(b, "\n".join(lines) + "\n", workdir, name + ".w")
    if rc != 0:
        raise core.Infra("writer run failed rc=%s: %s" % (rc, err[-2000:]))
    s = R.decode(path)
    recs = core.convert_events(evs)
    if cfg.get("prefix", 0) >= (1 << 30):          # TLC integers are 32 bits wide: the table's position is reported relative
        for e in recs:
            if e.get("e") == "WInit":
                e["prefix"] = e["prefix"] - cfg["prefix"]
    return path, recs, s


def mktable_rec(path, ents):
    """trace record declaring a file built by the reference encoder: ents = [(key, val bytes)]"""
    from . import projection as P
    return {"e": "MkTable", "path": path, "ents": [{"k": list(k), "v": P.vrec(v)} for k, v in ents]}


def model_graph(ctx, workdir, F, targets, bounds, fixf1=True, dump=True, name="MCI", workers=4, timeout=900):
    """Run TLC on MC_Reader instantiated with F. Returns (TlcResult, dotpath or None)."""
    shapes.write_mc_reader(workdir, F, targets, bounds, fixf1, name)
    dot = os.path.join(workdir, name + ".dot")
    extra = []
    if dump:
        extra = ["-dump", "dot,actionlabels", dot]
    r = core.tlc(name, name + ".cfg", workers=workers, cwd=workdir, extra=extra, timeout=timeout,
                 java_opts=["-DTLA-Library=" + core.SPEC, "-Xss32m"])
    return r, (dot if dump else None)


def label_to_line(lab, i, targets):
    if lab == "DoNext":
        return "it_next %d" % i
    m = re.match(r"DoSeek\((\d+)\)", lab)
    if m:
        return "it_seek %d %s" % (i, shapes.hexs(targets[int(m.group(1)) - 1]))
    raise core.Infra("unknown edge label " + lab)


def walks_script(rng, src, walks, inits, bounds, targets, other_every=9, probes=()):
    """Script lines replaying walks on iterator slot 1, with a second iterator (slot 2) of the same source
    advanced and re-sought in between (independent state)."""
    lines = []
    n = 0
    lines.append(gen.open_line(2, src, ("iter", b"", b"")))
    for (s0, labels) in walks:
        lines.append(gen.open_line(1, src, bounds[inits[s0] - 1]))
        for lab in labels:
            lines.append(label_to_line(lab, 1, targets))
            n += 1
            if other_every and n % other_every == 0:
                if rng.random() < 0.5:
                    lines.append("it_next 2")
                else:
                    lines.append("it_seek 2 %s" % shapes.hexs(rng.choice(targets)))
        lines.append("it_destroy 1")
    for (s0, labels) in probes:
        lines.append(gen.open_line(1, src, bounds[inits[s0] - 1]))
        for lab in labels:
            lines.append(label_to_line(lab, 1, targets))
        lines.append("it_next 1 2")
        lines.append("it_destroy 1")
    lines.append("it_destroy 2")
    return lines
