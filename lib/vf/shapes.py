"""File structures as TLA+ constants, TLC state graphs as replay scripts."""
import os, re, collections
from . import core, refcodec as R


def tla_bytes(b):
    return "<<" + ",".join(str(x) for x in b) + ">>"


def tla_seq(items):
    return "<<" + ", ".join(items) + ">>"


def hexs(b):
    return b.hex() if len(b) else "-"


def struct_to_F(s):
    """refdec structure -> dict(keys, rst, seps, irst, offs) for Reader.tla"""
    keys, rst, seps, offs = [], [], [], []
    base = s["blocks"][0]["offset"] if s["blocks"] else 0       # offsets relative to the first block (TLC integers are 32 bits wide)
    for b in s["blocks"]:
        ks = [e["key"] for e in b["entries"]]
        off2idx = {e["off"]: i + 1 for i, e in enumerate(b["entries"])}
        rs = [off2idx[o] for o in b["restarts"] if o in off2idx]
        if not ks:
            raise core.Infra("empty data block in shape")
        keys.append(ks)
        rst.append(rs)
        seps.append(b["sep"])
        offs.append(b["offset"] - base)
    ioff2idx = {e["off"]: i + 1 for i, e in enumerate(s["index"]["entries"])}
    irst = [ioff2idx[o] for o in s["index"]["restarts"] if o in ioff2idx] or [1]
    return {"keys": keys, "rst": rst, "seps": seps, "irst": irst, "offs": offs}


def F_to_tla(F):
    return ("[keys |-> %s,\n rst |-> %s,\n seps |-> %s,\n irst |-> %s,\n offs |-> %s]" % (
        tla_seq([tla_seq([tla_bytes(k) for k in ks]) for ks in F["keys"]]),
        tla_seq([tla_seq([str(x) for x in r]) for r in F["rst"]]),
        tla_seq([tla_bytes(k) for k in F["seps"]]),
        tla_seq([str(x) for x in F["irst"]]),
        tla_seq([str(x) for x in F["offs"]])))


def bound_to_tla(b):
    return '[kind |-> "%s", k0 |-> %s, k1 |-> %s]' % (b[0], tla_bytes(b[1]), tla_bytes(b[2]))


def neighbours(k):
    """strings adjacent to k: predecessor-ish, successor, proper prefixes, one-byte extensions"""
    out = {k, k + b"\x00", k + b"\xff"}
    if k:
        out.add(k[:-1])
        if k[-1] > 0:
            out.add(k[:-1] + bytes([k[-1] - 1]))
            out.add(k[:-1] + bytes([k[-1] - 1]) + b"\xff")
        if k[-1] < 255:
            out.add(k[:-1] + bytes([k[-1] + 1]))
    return out


def pick_targets(F, rng, cap=24):
    allk = [k for ks in F["keys"] for k in ks]
    must = {b"", allk[0], allk[-1], allk[-1] + b"\x00"}
    for ks in F["keys"]:
        must.add(ks[0]); must.add(ks[-1])
    for sp in F["seps"]:
        must.add(sp)
    cand = set()
    for k in list(must):
        cand |= neighbours(k)
    for k in allk:
        cand.add(k)
    rest = sorted(cand - must)
    rng.shuffle(rest)
    t = sorted(must) + rest
    if len(t) > cap:
        mustl = sorted(must)
        rng.shuffle(mustl)
        t = (mustl + rest)[:cap]
    return sorted(set(t))


def pick_bounds(F, targets, rng, n_get=3, n_prefix=3, n_range=4):
    allk = [k for ks in F["keys"] for k in ks]
    bounds = [("iter", b"", b"")]
    gets = rng.sample(allk, min(n_get - 1, len(allk))) + [rng.choice(targets)]
    for k in gets:
        bounds.append(("get", k, b""))
    pref = [b""] + [k[:max(0, len(k) - 1)] for k in rng.sample(allk, min(n_prefix - 1, len(allk)))]
    for p in pref:
        bounds.append(("prefix", p, b""))
    for _ in range(n_range):
        a, b = rng.choice(targets), rng.choice(targets)
        if rng.random() < 0.8 and a > b:
            a, b = b, a
        bounds.append(("range", a, b))
    seen, out = set(), []
    for b in bounds:
        if b not in seen:
            seen.add(b); out.append(b)
    return out


def write_mc_reader(d, F, targets, bounds, fixf1=True, name="MCI"):
    with open(os.path.join(d, name + ".tla"), "w") as f:
        f.write("---- MODULE %s ----\nEXTENDS MC_Reader\n" % name)
        f.write("mcF == %s\n" % F_to_tla(F))
        f.write("mcT == %s\n" % tla_seq([tla_bytes(t) for t in targets]))
        f.write("mcB == %s\n====\n" % tla_seq([bound_to_tla(b) for b in bounds]))
    with open(os.path.join(d, name + ".cfg"), "w") as f:
        f.write("SPECIFICATION Spec\nCONSTANTS\n F <- mcF\n TargetSeq <- mcT\n BoundSeq <- mcB\n FixF1 = %s\n"
                "INVARIANT Refines\nINVARIANT NullOk\nCHECK_DEADLOCK FALSE\n" % ("TRUE" if fixf1 else "FALSE"))
    return name


# ---------------------------------------------------------------- dot graphs
_node_re = re.compile(r'^(-?\d+) \[label="')
_edge_re = re.compile(r'^(-?\d+) -> (-?\d+) \[label="([^"]*)"')


def parse_dot(path, init_var="bx"):
    """-> (inits {node: value of init_var}, edges {src: [(label, dst)]}, n_nodes, n_edges)"""
    inits, edges = {}, collections.defaultdict(list)
    nodes = set()
    ne = 0
    pat = re.compile(r"\b%s = (\d+)" % init_var)
    with open(path, errors="replace") as f:
        for ln in f:
            m = _edge_re.match(ln)
            if m:
                edges[m.group(1)].append((m.group(3), m.group(2)))
                ne += 1
                continue
            m = _node_re.match(ln)
            if m:
                nodes.add(m.group(1))
                if ln.rstrip().endswith("style = filled]"):
                    q = pat.search(ln.replace("\\n", " "))
                    inits[m.group(1)] = int(q.group(1)) if q else 0
    return inits, edges, len(nodes), ne


def covering_walks(inits, edges, rng, max_len=150):
    """Greedy edge cover: walks (init node, [labels]) that together traverse every edge reachable from the inits."""
    uncovered = {(s, i) for s, es in edges.items() for i in range(len(es))}
    # BFS distances toward nodes with uncovered edges are recomputed lazily
    walks = []
    init_list = sorted(inits)

    def nearest_uncovered(start):
        seen = {start: None}
        dq = collections.deque([start])
        while dq:
            u = dq.popleft()
            for i, (lab, v) in enumerate(edges.get(u, ())):
                if (u, i) in uncovered:
                    path = []
                    x = u
                    while seen[x] is not None:
                        p, j = seen[x]
                        path.append((p, j))
                        x = p
                    path.reverse()
                    return path + [(u, i)]
                if v not in seen:
                    seen[v] = (u, i)
                    dq.append(v)
        return None

    progress = True
    while uncovered and progress:
        progress = False
        for s0 in init_list:
            if not uncovered:
                break
            path = nearest_uncovered(s0)
            if path is None:
                continue
            labels = []
            cur = s0
            steps = path
            while steps and len(labels) < max_len:
                for (u, i) in steps:
                    lab, v = edges[u][i]
                    labels.append(lab)
                    uncovered.discard((u, i))
                    cur = v
                    progress = True
                # continue greedily from cur
                nxt = None
                for i, (lab, v) in enumerate(edges.get(cur, ())):
                    if (cur, i) in uncovered:
                        nxt = [(cur, i)]
                        break
                if nxt is None and len(labels) < max_len // 2:
                    nxt = nearest_uncovered(cur)
                steps = nxt
            walks.append((s0, labels))
    return walks


def shortest_paths(inits, edges):
    """BFS tree from all init nodes: node -> (init, [labels])"""
    par = {}
    dq = collections.deque()
    for s in sorted(inits):
        par[s] = None
        dq.append(s)
    while dq:
        u = dq.popleft()
        for (lab, v) in edges.get(u, ()):
            if v not in par:
                par[v] = (u, lab)
                dq.append(v)

    def path(n):
        labs = []
        while par[n] is not None:
            u, lab = par[n]
            labs.append(lab)
            n = u
        labs.reverse()
        return n, labs
    return par, path
