"""Merger checks (C04 C05): families of sources, the merger model's state graph for that family, replay on the real
merger (reader sources, user-defined sources that invalidate their buffers, mergers of mergers), TLC validation."""
import os, re, json
from . import core, build, gen, shapes, tablecheck as TC

MODES = [(1, 0), (0, 0), (0, 1), (1, 1)]      # (merge, dupsort)


def tok_bytes(toks):
    out = bytearray()
    for t in sorted(toks):
        out += bytes([t >> 8, t & 255])
    return bytes(out)


def rand_family(rng, nsrc=None, nkeys=None, alpha=None, tokbase=1, maxlen=3):
    """-> list of sources; a source is a list of (key, [tokens])"""
    nsrc = nsrc if nsrc is not None else rng.choice([1, 2, 3, 3, 4])
    alpha = alpha or rng.choice([[0x61, 0x62], gen.ALPHA6])
    universe = gen.rand_keys(rng, nkeys or rng.choice([4, 6, 9]), alpha=alpha, maxlen=maxlen)
    if rng.random() < 0.6 and b"" not in universe:
        universe = [b""] + universe
    kind = rng.choice(["interleaved", "identical", "disjoint", "withempty", "interleaved"])
    fam = []
    tok = tokbase
    for s in range(nsrc):
        if kind == "identical":
            ks = list(universe)
        elif kind == "disjoint":
            ks = universe[s::nsrc]
        elif kind == "withempty" and s == nsrc - 1:
            ks = []
        else:
            ks = [k for k in universe if rng.random() < 0.6]
        src = []
        for k in ks:
            n = rng.choice([1, 1, 1, 2])
            src.append((k, [tok + i for i in range(n)]))
            tok += n
        fam.append(src)
    return fam


def prefix_related_values(fam, rng):
    """for dupsort runs: equal keys in different sources get values that are proper prefixes / extensions of each other
    (the comparison of such values depends on their exact lengths)"""
    owners = {}
    for si, src in enumerate(fam):
        for ei, (k, toks) in enumerate(src):
            owners.setdefault(k, []).append((si, ei))
    for k, occ in owners.items():
        if len(occ) < 2 or rng.random() < 0.3:
            continue
        base = fam[occ[0][0]][occ[0][1]][1][:1]
        lens = list(range(1, len(occ) + 1))
        rng.shuffle(lens)
        for (si, ei), n in zip(occ, lens):
            fam[si][ei] = (k, [base[0] + j for j in range(n)] if n > 1 else list(base))
    return fam


def shuffle_tokens(fam, rng):
    """values no longer increase with the source index: which source holds the dupsort-smallest value of a key is arbitrary"""
    toks = sorted(set(t for src in fam for _, ts in src for t in ts))
    perm = list(toks)
    rng.shuffle(perm)
    mp = dict(zip(toks, perm))
    return [[(k, [mp[t] for t in ts]) for k, ts in src] for src in fam]


def cancelling(fam, rng):
    """give keys held by several sources values made of cancelling tokens (0x8000 and up: the merge function keeps only the parity of
    their number), so that merged values shrink and vanish: the same token in all holders, sometimes next to an ordinary one"""
    holders = {}
    for si, src in enumerate(fam):
        for k, _ in src:
            holders.setdefault(k, []).append(si)
    out = [list(src) for src in fam]
    n = 0
    for k, hs in holders.items():
        if len(hs) < 2 or rng.random() < 0.3:
            continue
        tok = 0x8000 + n
        n += 1
        for si in hs:
            extra = [tok] if rng.random() < 0.85 else []
            if rng.random() < 0.25:
                extra = sorted(extra + [0x100 + 7 * n + si])
            out[si] = [(kk, extra if kk == k else ts) for kk, ts in out[si]]
    return out


def fam_to_tla(fam):
    def ent(k, toks):
        return "[k |-> %s, v |-> %s]" % (shapes.tla_bytes(k), shapes.tla_bytes(tok_bytes(toks)))
    return shapes.tla_seq([shapes.tla_seq([ent(k, t) for k, t in src]) for src in fam])


def write_mc_merger(wd, fam, targets, bounds, merge, dupsort, fixf2=True, fixf8=True, name="MCM"):
    with open(os.path.join(wd, name + ".tla"), "w") as f:
        f.write("---- MODULE %s ----\nEXTENDS MC_Merger\nmcS == %s\nmcT == %s\nmcB == %s\n====\n" % (
            name, fam_to_tla(fam), shapes.tla_seq([shapes.tla_bytes(t) for t in targets]),
            shapes.tla_seq([shapes.bound_to_tla(b) for b in bounds])))
    T = lambda x: "TRUE" if x else "FALSE"
    with open(os.path.join(wd, name + ".cfg"), "w") as f:
        f.write("SPECIFICATION Spec\nCONSTANTS\n Srcs <- mcS\n TargetSeq <- mcT\n BoundSeq <- mcB\n MergeOn = %s\n DupsortOn = %s\n FixF2 = %s\n FixF8 = %s\n"
                "INVARIANT Refines\nINVARIANT NullOk\nINVARIANT HeapOk\nCHECK_DEADLOCK FALSE\n" % (T(merge), T(dupsort), T(fixf2), T(fixf8)))
    return name


def model_graph(ctx, wd, fam, targets, bounds, merge, dupsort, dump=True, fixf2=True, fixf8=True, name="MCM"):
    write_mc_merger(wd, fam, targets, bounds, merge, dupsort, fixf2, fixf8, name)
    dot = os.path.join(wd, name + ".dot")
    extra = ["-dump", "dot,actionlabels", dot] if dump else []
    r = core.tlc(name, name + ".cfg", workers=4, cwd=wd, extra=extra, timeout=900, java_opts=["-DTLA-Library=" + core.SPEC, "-Xss32m"])
    return r, (dot if dump else None)


def fam_targets(fam, rng, cap=12):
    keys = sorted(set(k for src in fam for k, _ in src))
    cand = set([b""])
    for k in keys:
        cand |= shapes.neighbours(k)
    rest = sorted(cand - set(keys))
    rng.shuffle(rest)
    t = keys + rest
    return sorted(set(t[:cap])) if len(t) > cap else sorted(set(t))


def fam_bounds(fam, targets, rng):
    keys = sorted(set(k for src in fam for k, _ in src)) or [b"a"]
    b = [("iter", b"", b""), ("get", rng.choice(keys), b""), ("get", rng.choice(targets), b""),
         ("prefix", rng.choice(keys)[:1], b""), ("prefix", b"", b"")]
    for _ in range(2):
        x, y = rng.choice(targets), rng.choice(targets)
        if x > y and rng.random() < 0.8:
            x, y = y, x
        b.append(("range", x, y))
    seen, out = set(), []
    for x in b:
        if x not in seen:
            seen.add(x); out.append(x)
    return out


def setup_lines(wd, fam, variant, merge, dupsort, failtok=-1, comp="none", twice=False):
    """Script lines creating the sources and merger 0 over them. variant: 'readers' | 'user' | 'nested' | 'mixed'"""
    L = ["scratch " + wd]
    srcs = []
    for s, src in enumerate(fam):
        use_user = variant == "user" or (variant == "mixed" and s % 2 == 1)
        if use_user:
            L.append("u_init %d" % s)
            order = list(src)
            for k, toks in order:
                L.append("u_add %d %s T%s" % (s, shapes.hexs(k), ",".join(str(t) for t in sorted(toks))))
            srcs.append("u:%d" % s)
        else:
            path = os.path.join(wd, "s%d.mtbl" % s)
            if os.path.exists(path):
                os.unlink(path)
            L.append("w_init %d %s %s default 1024 2 -1 0" % (s, path, comp))
            for k, toks in src:
                L.append("w_add %d %s T%s" % (s, shapes.hexs(k), ",".join(str(t) for t in sorted(toks))))
            L.append("w_close %d" % s)
            L.append("r_init %d %s 0 0" % (s, path))
            srcs.append("r:%d" % s)
    if variant == "nested" and len(srcs) >= 2:
        L.append("m_init 1 %d %d %d" % (merge, failtok, dupsort))
        for x in srcs[:2]:
            L.append("m_add 1 " + x)
        L.append("m_init 0 %d %d %d" % (merge, failtok, dupsort))
        L.append("m_add 0 m:1")
        if twice:
            L.append("m_add 0 m:1")       # the same merger as two sources of the outer one: two of its iterators advance in turn
        for x in srcs[2:]:
            L.append("m_add 0 " + x)
    else:
        L.append("m_init 0 %d %d %d" % (merge, failtok, dupsort))
        for x in srcs:
            L.append("m_add 0 " + x)
    return L


def teardown_lines(fam, variant):
    L = ["m_destroy 0"]
    if variant == "nested" and len(fam) >= 2:
        L.append("m_destroy 1")
    for s, src in enumerate(fam):
        use_user = variant == "user" or (variant == "mixed" and s % 2 == 1)
        L.append(("u_destroy %d" if use_user else "r_destroy %d") % s)
    return L


def run_script(ctx, b, wd, lines, name):
    evs, rc, err = core.run_drv(b, "\n".join(lines) + "\n", wd, name)
    return core.convert_events(evs), rc, err


def replay(ctx, path):
    from . import writerside as W
    return W.replay(ctx, path)
