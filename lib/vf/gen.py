"""Generators: tables, writer configurations, script fragments."""
import os
from .shapes import hexs

COMPS = ["none", "snappy", "zlib", "lz4", "lz4hc", "zstd"]
ALPHA6 = [0x00, 0x01, 0x61, 0x62, 0xFE, 0xFF]


class VGen:
    """value specs with a unique seed per value: G<seed>x<len>"""
    def __init__(self, start=1):
        self.n = start

    def val(self, length):
        self.n += 1
        return "G%dx%d" % (self.n, length)


def rand_key(rng, alpha, maxlen):
    n = rng.randint(0, maxlen)
    return bytes(rng.choice(alpha) for _ in range(n))


def rand_keys(rng, n, alpha=None, maxlen=4, prefix=b""):
    alpha = alpha or ALPHA6
    s = set()
    tries = 0
    while len(s) < n and tries < n * 50:
        s.add(prefix + rand_key(rng, alpha, maxlen))
        tries += 1
    return sorted(s)


def writer_cfg(rng=None, comp="none", level="default", bs=1024, ri=2, pool=-1, prefix=0):
    return {"comp": comp, "level": level, "bs": bs, "ri": ri, "pool": pool, "prefix": prefix}


def rand_cfg(rng):
    if rng.random() < 0.06:         # NULL options argument: every writer parameter at its default
        return {"comp": "nullopt", "level": "default", "bs": "default", "ri": "default", "pool": -1, "prefix": rng.choice([0, 0, 513])}
    comp = rng.choice(COMPS)
    level = rng.choice(["default", "default", "-5", "0", "1", "5", "9", "99"])
    if rng.random() < 0.05:         # block sizes that do not fit 31 / 32 bits ("one block"): 2^31, 2^32, 2^32 + 4096, SIZE_MAX
        return {"comp": comp, "level": level, "bs": rng.choice([1 << 31, 1 << 32, (1 << 32) + 4096, (1 << 64) - 1]),
                "ri": rng.choice([1, 2, 16]), "pool": -1, "prefix": 0}
    return {"comp": comp, "level": level, "bs": rng.choice([1, 1024, 1024, 2048, 8192]),
            "ri": rng.choice([1, 2, 3, 16]), "pool": -1, "prefix": rng.choice([0, 0, 1, 513, 4096])}


def w_init_line(w, path, cfg):
    return "w_init %d %s %s %s %s %s %d %d%s" % (w, path, cfg["comp"], cfg["level"], cfg["bs"], cfg["ri"], cfg["pool"], cfg["prefix"], " sparse" if cfg.get("sparse") else "")


def write_table_lines(w, path, cfg, entries):
    """entries: list of (key bytes, valspec)"""
    out = [w_init_line(w, path, cfg)]
    for k, v in entries:
        out.append("w_add %d %s %s" % (w, hexs(k), v))
    out.append("w_close %d" % w)
    return out


def open_line(i, src, bound):
    kind, k0, k1 = bound
    if kind == "iter":
        return "it_iter %d %s" % (i, src)
    if kind == "get":
        return "it_get %d %s %s" % (i, src, hexs(k0))
    if kind == "prefix":
        return "it_prefix %d %s %s" % (i, src, hexs(k0))
    return "it_range %d %s %s %s" % (i, src, hexs(k0), hexs(k1))


def shape_tables(rng, vg):
    """Named table shapes for the reader model: (name, cfg, entries). Values sized to force block cuts."""
    shapes = []

    def mk(keys, vlen):
        return [(k, vg.val(vlen(i) if callable(vlen) else vlen)) for i, k in enumerate(keys)]
    ks = rand_keys(rng, 9, maxlen=3)
    shapes.append(("one_block_ri2", writer_cfg(ri=2), mk(ks, 5)))
    ks = rand_keys(rng, 22, maxlen=3)
    shapes.append(("five_blocks_ri2", writer_cfg(ri=2), mk(ks, 200)))
    ks = rand_keys(rng, 8, maxlen=3)
    shapes.append(("one_entry_blocks", writer_cfg(ri=1), mk(ks, 1100)))
    ks = rand_keys(rng, 40, maxlen=4)
    shapes.append(("many_runs_ri3", writer_cfg(ri=3, bs=8192), mk(ks, 30)))          # >= 8 restart runs: gallop doubles, binary search runs
    ks = rand_keys(rng, 30, maxlen=4)
    shapes.append(("ri16", writer_cfg(ri=16, bs=2048), mk(ks, lambda i: 90)))
    ks = rand_keys(rng, 26, maxlen=3)
    shapes.append(("ri1_prefix513", writer_cfg(ri=1, prefix=513), mk(ks, 150)))       # non-zero first offset
    ks = rand_keys(rng, 36, alpha=[0x61, 0x62], maxlen=6)
    shapes.append(("long_index_ri2", writer_cfg(ri=2), mk(ks, 520)))                  # index with several restart runs
    # block boundaries that take the 16-bit branch of the separator rule with a carry (last key ..s FF x, next key ..s+1 00 y)
    ks = [bytes([0x61, 0x10 + i, 0xFF if i % 2 == 0 else 0x00, 0x41 + (i % 3)]) for i in range(18)]
    shapes.append(("sep16_carry", writer_cfg(ri=2), mk(ks, 300)))
    return shapes
