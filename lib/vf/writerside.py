"""Writer-side corpus shared by C01 C08 C09 C10: tables written by the real writer (TLC behaviours of MC_Writer and
byte-level random inputs), projected by the independent decoder, read back through the real reader and the tools,
all judged by TLC against the abstract specification (Trace_Mtbl)."""
import os, re, json
from . import core, build, gen, shapes, projection as P

KEYS_SIM = [b"", b"\x00", b"a", b"aa", b"ab", b"ab\x00", b"a\xff", b"b", b"\xfe\xff", b"\xff", b"\xff\xff"]


def tlc_writer_model(ctx, quick):
    """Exhaustive bounded check of the writer rules (design level)."""
    cfg = "MC_Writer_small.cfg"
    if quick:
        wd = ctx.sub("mcw")
        txt = open(os.path.join(core.SPEC, cfg)).read().replace("MaxAdds = 5", "MaxAdds = 4")
        open(os.path.join(wd, "MCWq.cfg"), "w").write(txt)
        open(os.path.join(wd, "MCWq.tla"), "w").write(open(os.path.join(core.SPEC, "MC_Writer_small.tla")).read().replace("MC_Writer_small", "MCWq"))
        r = core.tlc("MCWq", "MCWq.cfg", workers=8, cwd=wd, timeout=900, java_opts=["-DTLA-Library=" + core.SPEC])
    else:
        r = core.tlc("MC_Writer_small", cfg, workers=12, timeout=1800)
    if not r.ok:
        raise core.Infra("MC_Writer failed (specification problem, not a verdict on the code):\n" + r.out[-3000:])
    ctx.add("states", r.distinct)
    ctx.add("transitions", r.generated)
    # the separator law for every ordered pair of keys up to length 3 (quick) / 4 (thorough) over the six-byte alphabet
    wd = ctx.sub("mcb")
    open(os.path.join(wd, "B.cfg"), "w").write(open(os.path.join(core.SPEC, "MC_Bytes.cfg")).read().replace("MaxLen = 3", "MaxLen = %d" % (3 if quick else 4)))
    open(os.path.join(wd, "B.tla"), "w").write(open(os.path.join(core.SPEC, "MC_Bytes.tla")).read().replace("MODULE MC_Bytes", "MODULE B"))
    rb = core.tlc("B", "B.cfg", workers=8, cwd=wd, timeout=1800, java_opts=["-DTLA-Library=" + core.SPEC])
    if not rb.ok:
        raise core.Infra("MC_Bytes (separator law) failed (specification problem):\n" + rb.out[-3000:])
    ctx.add("states", rb.distinct)
    ctx.add("transitions", rb.generated)
    ctx.cov["separator_law_pairs"] = rb.distinct
    return r


def tlc_behaviours(ctx, num, depth=8):
    """Behaviours of MC_Writer_sim -> corpus items."""
    r = core.tlc("MC_Writer_sim", "MC_Writer_sim.cfg", workers=4, simulate="num=%d" % max(1, num // 4),
                 extra=["-depth", str(depth), "-seed", str(ctx.seed)], timeout=600)
    if r.inv_violated or r.error:
        raise core.Infra("MC_Writer_sim failed:\n" + r.out[-3000:])
    items = []
    vg = gen.VGen(300000)
    for m in re.finditer(r'<<\s*"HIST",(.*?)>>\s*>>\s*>>', r.out, re.S):
        nums = [int(x) for x in re.findall(r"-?\d+", m.group(1))]
        cx, ri, prefix = nums[0], nums[1], nums[2]
        rest = nums[3:]
        adds, exp = [], []
        for i in range(0, len(rest) - 3, 4):
            ki, vl, ok, cut = rest[i:i + 4]
            adds.append((KEYS_SIM[ki - 1], vg.val(vl)))
            exp.append((ok, cut))
        items.append({"name": "sim%d" % len(items), "cfg": gen.writer_cfg(ri=ri, prefix=prefix, bs=1024), "adds": adds, "origin": "tlc", "exp": exp})
    ctx.add("tlc_behaviours", len(items))
    return items


def random_items(ctx, n, pools=False):
    rng = ctx.rng
    items = []
    for t in range(n):
        vg = gen.VGen(500000 + t * 5000)
        cfg = gen.rand_cfg(rng)
        klass = rng.choice(["plain", "plain", "unordered", "bigvals", "bigkeys", "prefixes", "empty", "emptykey", "cutprobe", "sepcarry", "lonely"])
        alpha = rng.choice([list(range(256)), gen.ALPHA6, [0x61, 0x62], [0x7f, 0x80, 0xff]])
        adds = []
        if klass == "empty":
            keys = []
        elif klass == "lonely":
            # the smallest entry there is (empty key, empty value: three bytes) alone in its block: as the whole table, or cut off by a
            # next entry that does not fit beside it
            keys = [b""] + ([] if rng.random() < 0.4 else [b"\x00", b"a"][:rng.choice([1, 2])])
        elif klass == "bigkeys":
            base = rng.choice([127, 128, 16383, 16384, 300])
            keys = sorted(set(bytes([rng.choice(alpha)]) * (base + rng.choice([-1, 0, 0, 1])) + gen.rand_key(rng, alpha, 2) for _ in range(rng.randint(1, 5))))
        elif klass == "sepcarry":
            # adjacent keys whose first differing bytes are consecutive and followed by FF / 00: the 16-bit separator branch with carry
            p0 = bytes(rng.choice(alpha) for _ in range(rng.choice([0, 1, 5])))
            keys = sorted(set(p0 + bytes([0x20 + i, rng.choice([0xFF, 0xFF, 0x00, 0xFE]), rng.choice(alpha)]) + gen.rand_key(rng, alpha, 2) for i in range(rng.randint(4, 40))))
        elif klass == "prefixes":
            p = bytes(rng.choice(alpha) for _ in range(rng.choice([3, 40, 200])))
            keys = sorted(set(p + gen.rand_key(rng, alpha, 3) for _ in range(rng.randint(2, 60))))
        else:
            keys = gen.rand_keys(rng, rng.choice([1, 3, 10, 40, 120]), alpha=alpha, maxlen=rng.choice([2, 4, 9]))
        if klass == "emptykey" or rng.random() < 0.2:
            keys = sorted(set(keys + [b""]))
        for k in keys:
            if klass == "sepcarry":
                vl = rng.choice([200, 300, 500])
            elif klass == "bigvals":
                vl = rng.choice([0, 127, 128, 129, 256, 16383, 16384, 70000, 3000])
            elif klass == "lonely":
                vl = 0 if k == b"" else rng.choice([9000, 1100, 0])
            elif klass == "emptykey" and k == b"":
                vl = rng.choice([0, 128, 256, 16384, 5])
            else:
                vl = rng.choice([0, 0, 1, 2, 30, 100, 127, 128, 300, 1000])
            adds.append((k, vg.val(vl)))
        if klass in ("unordered", "cutprobe"):
            # insert refusals: equal keys, smaller keys, prefixes/extensions, right before/after a cut
            out = []
            for (k, v) in adds:
                out.append((k, v))
                if rng.random() < 0.4:
                    cand = [k, k[:-1], k + b"\x00", (k[:-1] + bytes([max(0, k[-1] - 1)])) if k else b"", b"", b"\xff" * 9]
                    kk = rng.choice(cand)
                    out.append((kk, vg.val(rng.choice([0, 5, 900, 1100]))))
            adds = out
        pool = -1
        if pools and rng.random() < 0.5:
            pool = rng.choice([0, 1, 3])
        if t % 23 == 11:
            cfg = dict(cfg, prefix=(1 << 32) + rng.choice([12345, 1, 4096]) if t % 46 == 11 else (1 << 31) + 77, sparse=True)      # table starts beyond 4 GiB / 2 GiB in a sparse file
            klass = "hugeprefix"
        items.append({"name": "rnd%d" % t, "cfg": cfg, "adds": adds, "origin": "random", "klass": klass, "poolsize": pool,
                      "verify": rng.randint(0, 1), "madv": rng.randint(0, 1)})
    if pools:
        # blocks whose entry bytes end within a few bytes of 64 KiB / 128 KiB (buffers that grow by doubling have their
        # boundaries there): two entries, block size 1 MiB, the second value swept over every length around the boundary
        for (bound, ri) in ((65536, 1), (65536, 16), (131072, 2)) if not ctx.quick() else ((65536, 1), (65536, 16)):
            for d in range(-44, 10) if not ctx.quick() else range(-28, 6):
                vg = gen.VGen(950000 + bound // 1000 + d)
                adds = [(b"a", vg.val(100)), (b"b", vg.val(bound - 120 + d))]
                items.append({"name": "cap%d_%d_%d" % (bound // 1024, ri, d + 50), "cfg": gen.writer_cfg(comp="none", bs=1 << 20, ri=ri), "adds": adds,
                              "origin": "random", "klass": "capacity", "poolsize": -1, "verify": 1, "madv": 0})
        # the block-closing rule at its threshold: a first block of m entries (m a multiple of the restart interval, and not), then a
        # probe entry whose value length sweeps the few bytes around "finished size + 15 + key + value reaches the block size"
        def _fin(keys, vals, ri):
            tot, prev, nres = 0, b"", 0
            for i, (k, v) in enumerate(zip(keys, vals)):
                if i % ri == 0:
                    sh = 0
                    nres += 1
                else:
                    sh = 0
                    while sh < min(len(prev), len(k)) and prev[sh] == k[sh]:
                        sh += 1
                tot += 3 + (len(k) - sh) + v          # lengths below 128: one byte each
                prev = k
            return tot + 4 * max(1, nres) + 4
        for (ri, m) in ((1, 10), (2, 10), (16, 16), (4, 8), (16, 12), (8, 16)) if not ctx.quick() else ((1, 10), (16, 16), (4, 8)):
            keys = [b"c%02d" % i for i in range(m)]
            vl = 40 if m > 12 else 50
            thr = 1024 - 15 - 3 - _fin(keys, [vl] * m, ri)
            if not (10 < thr < 16000):
                continue
            for d in range(-7, 4):
                vg = gen.VGen(970000 + 100 * ri + m)
                adds = [(k, vg.val(vl)) for k in keys] + [(b"d00", vg.val(thr + d)), (b"d01", vg.val(5))]
                items.append({"name": "cut%d_%d_%d" % (ri, m, d + 10), "cfg": gen.writer_cfg(comp="none", bs=1024, ri=ri), "adds": adds,
                              "origin": "random", "klass": "cutsweep", "poolsize": -1, "verify": 1, "madv": 0})
        # restart intervals of 255 and more with more entries than that in one block (counters wider than a byte)
        for ri in ((256, 300) if ctx.quick() else (255, 256, 257, 300, 1000)):
            vg = gen.VGen(980000 + ri)
            nent = 700 if ri < 1000 else 1300
            adds = [(b"%04d" % i, vg.val(i % 3)) for i in range(nent)]
            items.append({"name": "wri%d" % ri, "cfg": gen.writer_cfg(comp="none", bs=16384, ri=ri), "adds": adds,
                          "origin": "random", "klass": "wideri", "poolsize": -1, "verify": 1, "madv": 0})
        # many blocks through a pool of several real threads, every compression type (blocks are compressed on the workers:
        # several compressions of one kind run at the same time)
        reps = 2 if ctx.quick() else 12
        for ci, comp in enumerate(gen.COMPS * reps):
            vg = gen.VGen(900000 + ci * 700)
            adds = [(("p%04d" % i).encode(), vg.val(rng.choice([300, 500, 700]))) for i in range(80)]
            cfg = dict(gen.writer_cfg(comp=comp, bs=1024, ri=rng.choice([2, 16])), level=rng.choice(["default", "default", "1", "9"]))
            items.append({"name": "pm%d" % ci, "cfg": cfg, "adds": adds, "origin": "random", "klass": "pooledmulti", "poolsize": rng.choice([2, 4, 8]),
                          "verify": 1, "madv": 0})
    return items


def preexisting_items(ctx, n):
    """C08: mtbl_writer_init on an existing path."""
    items = []
    kinds = ["file", "emptyfile", "table", "dir", "symlink", "dangling", "symlink_dir"]
    for t in range(n):
        items.append({"name": "pre%d" % t, "cfg": gen.writer_cfg(), "adds": [], "origin": "pre", "pre": kinds[t % len(kinds)]})
    return items


def item_script(wd, it):
    path = os.path.join(wd, it["name"] + ".mtbl")
    it["path"] = path
    L = ["scratch " + wd]
    cfg = dict(it["cfg"])
    pre = it.get("pre")
    if pre:
        if pre == "file":
            L.append("mkfile %s G9x100" % path)
        elif pre == "emptyfile":
            L.append("mkfile %s -" % path)
        elif pre == "table":
            L += ["w_init 1 %s none default 1024 2 -1 0" % path, "w_add 1 61 G5x5", "w_close 1"]
        elif pre == "dir":
            L.append("mkdir %s" % path)
        elif pre == "symlink":
            L.append("mkfile %s.target G8x50" % path)
            L.append("symlink %s.target %s" % (path, path))
        elif pre == "dangling":           # a symbolic link whose target does not exist: still an existing path
            L.append("absent %s.target" % path)
            L.append("symlink %s.target %s" % (path, path))
        elif pre == "symlink_dir":
            L.append("mkdir %s.target" % path)
            L.append("symlink %s.target %s" % (path, path))
        if pre in ("file", "emptyfile"):
            L.append("hash " + path)
        L.append(gen.w_init_line(0, path, cfg))
        if pre in ("file", "emptyfile"):
            L.append("hash " + path)
        if pre in ("symlink", "dangling"):
            L.append("hash %s.target" % path)
        return L
    ps = it.get("poolsize", -1)
    if ps >= 0:
        L.append("pool_init 0 %d" % ps)
        cfg["pool"] = 0
    L.append(gen.w_init_line(0, path, cfg))
    for k, v in it["adds"]:
        L.append("w_add 0 %s %s" % (shapes.hexs(k), v))
    L.append("w_close 0")
    if ps >= 0:
        L.append("pool_destroy 0")
    if (len(it["name"]) + len(it["adds"])) % 9 == 4:        # NULL reader options (defaults) for some of the read-backs
        L.append("r_init 0 %s nullopt 0" % path)
    else:
        L.append("r_init 0 %s %d %d" % (path, it.get("verify", 1), it.get("madv", 0)))
    L += ["r_meta 0", "it_iter 1 r:0", "it_drain 1", "it_destroy 1"]
    # a few seeks as well (the seek path computes block positions on its own): first, middle and last key offered, forwards and back
    ks = [k for k, v in it["adds"]]
    if ks:
        L.append("it_iter 2 r:0")
        for k in (ks[len(ks) // 2], ks[-1], ks[0], ks[len(ks) // 3]):
            L += ["it_seek 2 %s" % shapes.hexs(k), "it_next 2 2"]
        L.append("it_destroy 2")
    L.append("r_destroy 0")
    return L


def dump_variants(rng, it, accepted):
    """option sets for mtbl_dump chosen from the accepted entries"""
    out = [dict()]
    if not accepted:
        return out + [dict(kp=b"a")]
    k, vspec = rng.choice(accepted)
    out.append(dict(kp=k[:max(1, len(k) // 2)] if k else b"\x00"))
    if len(k) > 0:
        out.append(dict(mink=len(k)))
    out.append(dict(mink=len(k) + 1, kp=k[:1]) if k else dict(mink=1))
    m = re.match(r"G(\d+)x(\d+)", vspec)
    vl = int(m.group(2))
    if vl > 0:
        out.append(dict(minv=vl))
    out.append(dict(minv=vl + 1))
    if all(int(re.match(r"G(\d+)x(\d+)", v).group(2)) <= 1024 for _, v in accepted) and vl > 0:
        vb = P.xs_bytes(int(m.group(1)), vl)
        out.append(dict(vp=vb[:max(1, vl // 2)]))
        out.append(dict(vp=b"\x00"))
    # combinations of -k and -v: a value shorter than the key prefix, and a -v argument that extends a stored value
    short = [(kk, vv) for kk, vv in accepted if len(kk) >= 2 and 0 < int(re.match(r"G(\d+)x(\d+)", vv).group(2)) < len(kk) and int(re.match(r"G(\d+)x(\d+)", vv).group(2)) <= 1024]
    combos = []
    if short:
        kk, vv = rng.choice(short)
        mm = re.match(r"G(\d+)x(\d+)", vv)
        vb = P.xs_bytes(int(mm.group(1)), int(mm.group(2)))
        combos.append(dict(kp=kk, vp=vb[:1]))
    smallv = [(kk, vv) for kk, vv in accepted if int(re.match(r"G(\d+)x(\d+)", vv).group(2)) <= 64]
    if smallv and all(int(re.match(r"G(\d+)x(\d+)", v).group(2)) <= 1024 for _, v in accepted):
        kk, vv = rng.choice(smallv)
        mm = re.match(r"G(\d+)x(\d+)", vv)
        vb = P.xs_bytes(int(mm.group(1)), int(mm.group(2)))
        combos.append(dict(vp=vb + bytes([rng.choice([0, 1, 2, 255])])))
        if kk:
            combos.append(dict(kp=kk[:1], vp=vb[:max(1, len(vb) // 2)] if vb else b"\x00"))
    rng.shuffle(out)
    return out[:3] + combos


def run_items(ctx, b, tools, items, judge, batch=40, with_tools=True, label="w"):
    """Run corpus items, build judged traces, validate with TLC. Returns list of (item, exec records, line) rejections
    and list of (item, reason) abnormal terminations."""
    rejected, abnormal = [], []
    for bi in range(0, len(items), batch):
        chunk = items[bi:bi + batch]
        wd = ctx.sub("%s_b%d" % (label, bi // batch))
        lines = []
        for it in chunk:
            lines += item_script(wd, it) + ["---"]
        evs, rc, err = core.run_drv(b, "\n".join(lines) + "\n", wd, "corpus", fork=True, timeout=900)
        recs = core.convert_events(evs)
        execs = core.split_execs(recs)
        if len(execs) != len(chunk):
            raise core.Infra("driver produced %d executions for %d items (rc=%s) %s" % (len(execs), len(chunk), rc, err[-500:]))
        allrecs = []
        per_item = []
        for it, ex in zip(chunk, execs):
            rel = it["cfg"]["prefix"] if it["cfg"]["prefix"] >= P.BIG else 0
            if rel:
                for e in ex:
                    if e["e"] == "WInit":
                        e["prefix"] = e["prefix"] - rel
                    if e["e"] == "RMeta":
                        e["index_block_offset"] = e["index_block_offset"] - rel
            out = [ex[0], {"e": "Judge", "props": judge}]
            ext = [e for e in ex if e["e"] == "Exit"]
            if ext and (ext[0]["code"] != 0 or ext[0]["sig"] != 0):
                abnormal.append((it, "child ended with code %s signal %s" % (ext[0]["code"], ext[0]["sig"])))
                per_item.append(None)
                continue
            accepted = []
            closed = False
            for e in ex[1:]:
                out.append(e)
                if e["e"] == "WAdd" and e["w"] == 0 and e["ok"]:
                    accepted.append(e)
                if e["e"] == "WClose" and e["w"] == 0:
                    closed = True
                    out.append(P.file_struct(it["path"], it["cfg"]["prefix"], it["cfg"].get("sparse", False)))
            if closed and with_tools and not it.get("pre"):
                acc = [(bytes(e["k"]), None) for e in accepted]
                accspec = []
                ai = 0
                for (k, v) in it["adds"]:
                    if ai < len(accepted) and list(k) == accepted[ai]["k"]:
                        # the ai-th accepted add corresponds to the first matching script add in order
                        accspec.append((k, v))
                        ai += 1
                info = P.run_info(tools, it["path"])
                if rel and "index_block_offset" in info:
                    info["index_block_offset"] -= rel
                out.append(info)
                for opt in dump_variants(ctx.rng, it, accspec if len(accspec) == len(accepted) else []):
                    out.append(P.run_dump(tools, it["path"], **opt))
            per_item.append(out)
            allrecs += out
            ctx.add("files", 1 if closed else 0)
        bad = core.validate_batch(ctx, allrecs, "%s_b%d" % (label, bi // batch))
        for ex, line in bad:
            # find the item by the path in its records
            x = next((r.get("x") for r in ex if r.get("e") == "Reset"), None)
            it = chunk[x] if x is not None and x < len(chunk) else None
            rejected.append((it, ex, line))
        # remove files of this batch
        for it in chunk:
            for suffix in ("", ".target"):
                p = it.get("path", "") + suffix
                if p and os.path.isfile(p) and not os.path.islink(p):
                    try:
                        os.unlink(p)
                    except OSError:
                        pass
    return rejected, abnormal


EVENT_PROPERTY = {"WInit": "C08", "WAdd": "C08", "FileHash": "C08", "FileStruct": "C09", "RMeta": "C10", "Info": "C10",
                  "Next": "C01", "Dump": "C01", "ROpen": "C01", "Open": "C01"}


def report_all(ctx, rejected, abnormal):
    for it, ex, line in rejected:
        ev = ex[line - 1] if 0 < line <= len(ex) else {}
        brief = json.dumps({k: v for k, v in ev.items() if k != "S"})[:300]
        if ev.get("e") == "FileStruct":
            brief = "decoded structure of %s is not a well-formed image of the accepted entries" % ev.get("path")
        core.report(ctx, "%s: trace line %d not explained by the specification: %s" % (it["name"] if it else "?", line, brief),
                    {"kind": "trace", "trace": ex, "line": line, "item": {k: (v if not isinstance(v, list) else [[a.hex(), c] for a, c in v]) for k, v in (it or {}).items() if k in ("name", "cfg", "adds", "klass", "poolsize", "pre")}})
    for it, why in abnormal:
        core.report(ctx, "%s: %s" % (it["name"], why),
                    {"kind": "abnormal", "why": why, "item": {"name": it["name"], "cfg": it["cfg"], "adds": [[a.hex(), c] for a, c in it["adds"]], "poolsize": it.get("poolsize")}})


def replay(ctx, path):
    obj = json.load(open(path))
    if obj.get("kind") == "trace":
        p = os.path.join(ctx.sub("replay"), "t.ndjson")
        core.write_trace(p, obj["trace"])
        ok, depth, r = core.validate_trace(p)
        print("replay: trace %s (depth %s of %d lines)" % ("accepted" if ok else "rejected", depth, len(obj["trace"])))
        ctx.cleanup()
        return 0 if ok else 1
    print("replay: %s" % obj.get("why", "re-run the check with the same seed"))
    ctx.cleanup()
    return 1
