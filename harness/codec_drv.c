/*
 * codec_drv - drives the pure functions of libmtbl (C15 compression, C16 varint/fixed, C17 crc32c) and logs
 * arguments and results as ndjson for validation by TLC (Trace_Codec / Trace_Varint / Trace_Crc).
 *
 * usage: codec_drv crc <out>           prefix CRCs of the defined streams, all alignments, all implementations
 *        codec_drv crcrand <seed> <n>  random large buffers against the bitwise reference (prints mismatches)
 *        codec_drv varint <out>        varint / fixed vectors
 *        codec_drv sweep <stride>      2^32 sweep of the 32-bit varint functions against the reference (prints mismatches)
 *        codec_drv comp <out> <tier>   compression round trips, each call in a child process
 */
#define _GNU_SOURCE
#include <assert.h>
#include <pthread.h>
#include <stdbool.h>
#include <stdint.h>
#include <stdio.h>
#include <stdlib.h>
#include <string.h>
#include <sys/wait.h>
#include <unistd.h>

#include <mtbl.h>

uint32_t my_crc32c_slicing(const uint8_t *, size_t);
uint32_t my_crc32c_sse42(const uint8_t *, size_t);
bool my_crc32c_sse42_supported(void);

static uint32_t ref_crc(const uint8_t *b, size_t n) {
	uint32_t c = ~0u;
	for (size_t i = 0; i < n; i++) {
		c ^= b[i];
		for (int k = 0; k < 8; k++) c = (c >> 1) ^ (0x82F63B78u & -(c & 1));
	}
	return ~c;
}
/* ---- buffers of 4 GiB and more: sparse anonymous memory, a few islands of non-zero bytes; the reference walks the islands
 * bit by bit and crosses each run of zero bytes with the n-th power of the "one zero byte" operator (the register update is
 * linear over GF(2)), cross-checked against the plain bitwise loop on a 3 MiB buffer before it is trusted */
#include <sys/mman.h>
static uint32_t ref_step_state(uint32_t c, const uint8_t *b, size_t n) {
	for (size_t i = 0; i < n; i++) {
		c ^= b[i];
		for (int k = 0; k < 8; k++) c = (c >> 1) ^ (0x82F63B78u & -(c & 1));
	}
	return c;
}
static uint32_t gf2_apply(const uint32_t *m, uint32_t v) { uint32_t r = 0; for (int i = 0; v; i++, v >>= 1) if (v & 1) r ^= m[i]; return r; }
static uint32_t ref_zero_run(uint32_t c, uint64_t n) {
	uint32_t m[32], t[32];
	static const uint8_t z = 0;
	for (int i = 0; i < 32; i++) m[i] = ref_step_state(1u << i, &z, 1);
	while (n) {
		if (n & 1) c = gf2_apply(m, c);
		for (int i = 0; i < 32; i++) t[i] = gf2_apply(m, m[i]);
		memcpy(m, t, sizeof m);
		n >>= 1;
	}
	return c;
}
struct island { uint64_t off; uint32_t len; };
static uint32_t ref_crc_sparse(const uint8_t *b, uint64_t n, const struct island *is, int nis) {
	uint32_t c = ~0u;
	uint64_t pos = 0;
	for (int i = 0; i < nis && is[i].off < n; i++) {
		uint64_t end = is[i].off + is[i].len > n ? n : is[i].off + is[i].len;
		c = ref_zero_run(c, is[i].off - pos);
		c = ref_step_state(c, b + is[i].off, (size_t)(end - is[i].off));
		pos = end;
	}
	c = ref_zero_run(c, n - pos);
	return ~c;
}
static int do_crcbig(int tier) {
	int sse = my_crc32c_sse42_supported();
	long bad = 0, checks = 0;
	/* the sparse reference against the plain loop */
	{
		size_t n = 3u << 20;
		uint8_t *b = calloc(1, n);
		struct island is[3] = { { 5, 40 }, { 1u << 20, 100 }, { n - 33, 33 } };
		for (int i = 0; i < 3; i++) for (uint32_t j = 0; j < is[i].len; j++) b[is[i].off + j] = (uint8_t)(j * 37 + i + 1);
		if (ref_crc_sparse(b, n, is, 3) != ref_crc(b, n)) { printf("MISMATCH the sparse reference disagrees with the bitwise loop\n"); return 2; }
		free(b);
	}
	uint64_t total = (tier ? (1ull << 33) : (1ull << 32)) + (1u << 16);
	uint8_t *b = mmap(NULL, total, PROT_READ | PROT_WRITE, MAP_PRIVATE | MAP_ANONYMOUS | MAP_NORESERVE, -1, 0);
	if (b == MAP_FAILED) { printf("crcbig: cannot map %llu bytes\n", (unsigned long long)total); return 2; }
	struct island is[5] = { { 3, 61 }, { (1ull << 31) - 7, 19 }, { (1ull << 32) - 9, 70 }, { (1ull << 33) - 5, 44 }, { total - 100, 100 } };
	int nis = 5;
	for (int i = 0; i < nis; i++) if (is[i].off + is[i].len <= total) for (uint32_t j = 0; j < is[i].len; j++) b[is[i].off + j] = (uint8_t)(j * 91 + 7 * i + 1);
	uint64_t lens[8] = { (1ull << 32) - 1, 1ull << 32, (1ull << 32) + 43, (1ull << 32) + 4099, (1ull << 33) + 21, 0, 0, 0 };
	int nl = tier ? 5 : 3;
	for (int li = 0; li < nl; li++) {
		for (int al = 0; al < 2; al++) {
			uint64_t n = lens[li] - (uint64_t)al;
			struct island js[5];
			int nj = 0;
			for (int i = 0; i < nis; i++) if (is[i].off + is[i].len > (uint64_t)al) { js[nj] = is[i]; if (js[nj].off < (uint64_t)al) { js[nj].len -= (uint32_t)((uint64_t)al - js[nj].off); js[nj].off = 0; } else js[nj].off -= (uint64_t)al; nj++; }
			uint32_t r = ref_crc_sparse(b + al, n, js, nj);
			uint32_t d = mtbl_crc32c(b + al, n);
			if (d != r) { bad++; printf("MISMATCH dispatch len=%llu align=%d got %08x want %08x\n", (unsigned long long)n, al, d, r); }
			if (sse) { uint32_t h = my_crc32c_sse42(b + al, n); if (h != r) { bad++; printf("MISMATCH sse42 len=%llu align=%d got %08x want %08x\n", (unsigned long long)n, al, h, r); } }
			checks += 1 + sse;
			if (al == 0 || tier) { uint32_t t = my_crc32c_slicing(b + al, n); if (t != r) { bad++; printf("MISMATCH slicing len=%llu align=%d got %08x want %08x\n", (unsigned long long)n, al, t, r); } checks++; }
		}
	}
	munmap(b, total);
	printf("crcbig checks=%ld bad=%ld\n", checks, bad);
	return bad != 0;
}

/* reference LEB128 (transliteration of Varint.tla: digits base 128, least significant first, high bit = continuation) */
static size_t ref_enc(uint8_t *p, uint64_t v) {
	size_t n = 0;
	do { uint8_t d = v & 127; v >>= 7; p[n++] = d | (v ? 128 : 0); } while (v);
	return n;
}

static uint8_t stream_byte(int s, long i) {
	switch (s) {
	case 0: return 0;                                  /* RFC 3720: 32 bytes of zeros at length 32 */
	case 1: return 0xFF;                               /* RFC 3720: 32 bytes of ones */
	case 2: return (uint8_t)i;                         /* RFC 3720: incrementing */
	case 3: return (uint8_t)(31 - i);                  /* RFC 3720: decrementing (meaningful up to 32) */
	case 4: return (uint8_t)(i / 8);                   /* every byte value at every position modulo 8 */
	default: return (uint8_t)((i / 8) + i * 131);      /* mixed */
	}
}
static const int stream_len[] = { 40, 40, 40, 32, 2048, 1100 };


/* a buffer of len bytes at alignment al (mod 8) between two PROT_NONE pages: tail = 1 puts its end within 7 bytes of the page
 * behind it (the closest an aligned start allows), tail = 0 puts its start al bytes behind the page in front of it.
 * A read outside a valid buffer by more than that distance faults. */
static uint8_t *galloc(size_t len, int al, int tail, void **map, size_t *maplen) {
	size_t pages = (len + 16 + 4095) / 4096 + 2;
	uint8_t *m = mmap(NULL, pages * 4096, PROT_NONE, MAP_PRIVATE | MAP_ANONYMOUS, -1, 0);
	if (m == MAP_FAILED) return NULL;
	mprotect(m + 4096, (pages - 2) * 4096, PROT_READ | PROT_WRITE);
	*map = m; *maplen = pages * 4096;
	if (!tail) return m + 4096 + al;
	size_t e = (8 - ((len + (size_t)al) % 8)) % 8;
	return m + (pages - 1) * 4096 - e - len;
}

/* the first checksum of the process, asked for by an initialiser that runs before every default-priority constructor (a C++ static
 * object, another library's constructor): the dispatch between the two implementations must already work then */
static uint32_t early_crc;
static int early_done;
__attribute__((constructor(101))) static void early_user(void) {
	early_crc = mtbl_crc32c((const uint8_t *)"123456789", 9);
	early_done = 1;
}

static int do_crc(const char *out) {
	FILE *f = fopen(out, "w");
	if (!f) return 2;
	int sse = my_crc32c_sse42_supported();
	static uint8_t big[4096 + 16];
	if (!early_done || early_crc != ref_crc((const uint8_t *)"123456789", 9)) {
		printf("MISMATCH first checksum of the process (asked for before main): got %08x\n", early_crc);
		fclose(f);
		return 1;
	}
	for (int s = 0; s < 6; s++) {
		fprintf(f, "{\"e\":\"Stream\",\"s\":%d,\"sse42\":%s}\n", s, sse ? "true" : "false");
		for (int len = 0; len <= stream_len[s]; len++) {
			if (len > 0) fprintf(f, "{\"e\":\"Byte\",\"b\":%d}\n", stream_byte(s, len - 1));
			fprintf(f, "{\"e\":\"Crc\",\"len\":%d,\"r\":[", len);
			bool first = true;
			for (int al = 0; al < 8; al++) {
				for (int i = 0; i < len; i++) big[al + i] = stream_byte(s, i);
				uint32_t r[12];
				int n = 0;
				r[n++] = mtbl_crc32c(big + al, (size_t)len);
				r[n++] = my_crc32c_slicing(big + al, (size_t)len);
				if (sse) r[n++] = my_crc32c_sse42(big + al, (size_t)len);
				r[n++] = ref_crc(big + al, (size_t)len);        /* the reference is judged by TLC as well */
				/* the same bytes with unreadable memory right behind / in front of them */
				for (int tail = 0; tail < 2; tail++) {
					void *map; size_t ml;
					uint8_t *g = galloc((size_t)len, al, tail, &map, &ml);
					if (!g) continue;
					memcpy(g, big + al, (size_t)len);
					r[n++] = mtbl_crc32c(g, (size_t)len);
					r[n++] = my_crc32c_slicing(g, (size_t)len);
					if (sse) r[n++] = my_crc32c_sse42(g, (size_t)len);
					munmap(map, ml);
				}
				for (int k = 0; k < n; k++) {
					fprintf(f, "%s[%u,%u]", first ? "" : ",", r[k] >> 16, r[k] & 0xFFFF);
					first = false;
				}
			}
			fprintf(f, "]}\n");
		}
	}
	fclose(f);
	return 0;
}

static uint64_t xs(uint64_t *x) { *x ^= *x << 13; *x ^= *x >> 7; *x ^= *x << 17; return *x; }

static int do_crcrand(uint64_t seed, int n) {
	int sse = my_crc32c_sse42_supported();
	uint64_t x = seed * 2654435761u + 88172645463325252ull;
	long bad = 0, checks = 0;
	for (int t = 0; t < n; t++) {
		size_t len = (size_t)(xs(&x) % (t % 7 == 0 ? 4000000 : 70000));
		int al = (int)(xs(&x) % 8);
		void *map; size_t ml;
		uint8_t *buf = galloc(len, al, t % 2, &map, &ml);       /* unreadable memory behind (odd t) or in front of the buffer */
		if (!buf) continue;
		for (size_t i = 0; i < len; i++) buf[i] = (uint8_t)(xs(&x) >> 11);
		uint32_t r = ref_crc(buf, len);
		if (mtbl_crc32c(buf, len) != r) { bad++; printf("MISMATCH dispatch len=%zu align=%d\n", len, al); }
		if (my_crc32c_slicing(buf, len) != r) { bad++; printf("MISMATCH slicing len=%zu align=%d\n", len, al); }
		if (sse && my_crc32c_sse42(buf, len) != r) { bad++; printf("MISMATCH sse42 len=%zu align=%d\n", len, al); }
		checks += 2 + sse;
		munmap(map, ml);
	}
	printf("crcrand checks=%ld bad=%ld\n", checks, bad);
	return bad != 0;
}

static void pr_digits(FILE *f, uint64_t v) {
	fprintf(f, "[");
	bool first = true;
	do { fprintf(f, "%s%u", first ? "" : ",", (unsigned)(v & 127)); v >>= 7; first = false; } while (v);
	fprintf(f, "]");
}
static void pr_bytes(FILE *f, const uint8_t *p, size_t n) {
	fprintf(f, "[");
	for (size_t i = 0; i < n; i++) fprintf(f, "%s%u", i ? "," : "", p[i]);
	fprintf(f, "]");
}

static void one_varint(FILE *f, uint64_t v, int al) {
	uint8_t raw[64];
	memset(raw, 0xAA, sizeof raw);
	uint8_t *a = raw + 8 + al;
	size_t n64 = mtbl_varint_encode64(a, v);
	uint64_t d64 = 0;
	size_t c64 = mtbl_varint_decode64(a, &d64);
	uint8_t refb[16];
	size_t nr = ref_enc(refb, v);
	fprintf(f, "{\"e\":\"Var\",\"w\":64,\"align\":%d,\"v\":", al); pr_digits(f, v);
	fprintf(f, ",\"enc\":"); pr_bytes(f, a, n64);
	fprintf(f, ",\"n\":%zu,\"len\":%u,\"packed\":%u,\"dec_n\":%zu,\"dec\":", n64, mtbl_varint_length(v), mtbl_varint_length_packed(a, n64), c64);
	pr_digits(f, d64);
	fprintf(f, ",\"ref\":"); pr_bytes(f, refb, nr);
	fprintf(f, ",\"trunc\":%u,\"guard\":%s}\n", n64 > 1 ? mtbl_varint_length_packed(a, n64 - 1) : 0, (a[-1] == 0xAA && a[n64] == 0xAA) ? "true" : "false");
	if (v <= 0xFFFFFFFFull) {
		memset(raw, 0xAA, sizeof raw);
		size_t n32 = mtbl_varint_encode32(a, (uint32_t)v);
		uint32_t d32 = 0;
		size_t c32 = mtbl_varint_decode32(a, &d32);
		fprintf(f, "{\"e\":\"Var\",\"w\":32,\"align\":%d,\"v\":", al); pr_digits(f, v);
		fprintf(f, ",\"enc\":"); pr_bytes(f, a, n32);
		fprintf(f, ",\"n\":%zu,\"len\":%u,\"packed\":%u,\"dec_n\":%zu,\"dec\":", n32, mtbl_varint_length(v), mtbl_varint_length_packed(a, n32), c32);
		pr_digits(f, d32);
		fprintf(f, ",\"ref\":"); pr_bytes(f, refb, nr);
		fprintf(f, ",\"trunc\":%u,\"guard\":%s}\n", n32 > 1 ? mtbl_varint_length_packed(a, n32 - 1) : 0, (a[-1] == 0xAA && a[n32] == 0xAA) ? "true" : "false");
	}
}

static void one_fixed(FILE *f, uint64_t v, int al) {
	uint8_t raw[64];
	memset(raw, 0xAA, sizeof raw);
	uint8_t *a = raw + 8 + al;
	size_t n = mtbl_fixed_encode64(a, v);
	uint8_t le[8];
	for (int i = 0; i < 8; i++) le[i] = (uint8_t)(v >> (8 * i));
	fprintf(f, "{\"e\":\"Fixed\",\"w\":64,\"align\":%d,\"v\":", al); pr_bytes(f, le, 8);
	fprintf(f, ",\"enc\":"); pr_bytes(f, a, 8);
	uint64_t d = mtbl_fixed_decode64(a);
	for (int i = 0; i < 8; i++) le[i] = (uint8_t)(d >> (8 * i));
	fprintf(f, ",\"n\":%zu,\"dec\":", n); pr_bytes(f, le, 8);
	fprintf(f, ",\"guard\":%s}\n", (a[-1] == 0xAA && a[8] == 0xAA) ? "true" : "false");
	memset(raw, 0xAA, sizeof raw);
	n = mtbl_fixed_encode32(a, (uint32_t)v);
	for (int i = 0; i < 4; i++) le[i] = (uint8_t)(v >> (8 * i));
	fprintf(f, "{\"e\":\"Fixed\",\"w\":32,\"align\":%d,\"v\":", al); pr_bytes(f, le, 4);
	fprintf(f, ",\"enc\":"); pr_bytes(f, a, 4);
	uint32_t d2 = mtbl_fixed_decode32(a);
	for (int i = 0; i < 4; i++) le[i] = (uint8_t)(d2 >> (8 * i));
	fprintf(f, ",\"n\":%zu,\"dec\":", n); pr_bytes(f, le, 4);
	fprintf(f, ",\"guard\":%s}\n", (a[-1] == 0xAA && a[4] == 0xAA) ? "true" : "false");
}

static int do_varint(const char *out) {
	FILE *f = fopen(out, "w");
	if (!f) return 2;
	uint64_t x = 88172645463325252ull;
	for (int al = 0; al < 8; al++) {
		/* every bit-length boundary 2^7k-1, 2^7k, 2^7k+1 and every power of two +-2 */
		for (int k = 0; k <= 64; k++)
			for (int d = -2; d <= 2; d++) {
				uint64_t v = (k == 64 ? 0 : (1ull << k)) + (uint64_t)d;
				one_varint(f, v, al);
			}
		/* walking ones / zeros */
		for (int k = 0; k < 64; k++) { one_varint(f, 1ull << k, al); one_varint(f, ~(1ull << k), al); one_fixed(f, 1ull << k, al); one_fixed(f, ~(1ull << k), al); }
		for (int t = 0; t < 40; t++) { uint64_t v = xs(&x) >> (xs(&x) % 64); one_varint(f, v, al); one_fixed(f, xs(&x), al); }
		one_fixed(f, 0, al); one_fixed(f, ~0ull, al); one_fixed(f, 0x0102030405060708ull, al);
	}
	/* truncated and over-long byte strings for length_packed */
	static const uint8_t pats[][12] = {
		{0x00}, {0x7f}, {0x80}, {0x80, 0x00}, {0x80, 0x80}, {0xff, 0xff, 0xff, 0xff, 0x0f}, {0xff, 0xff, 0xff, 0xff, 0xff, 0xff, 0xff, 0xff, 0xff, 0x01},
		{0x80, 0x80, 0x80, 0x80, 0x80, 0x80, 0x80, 0x80, 0x80, 0x80, 0x80, 0x01}, {0xff, 0xff, 0xff, 0xff, 0xff, 0xff, 0xff, 0xff, 0xff, 0xff, 0xff, 0xff},
		{0x81, 0x01}, {0x80, 0x80, 0x80, 0x80, 0x80, 0x80, 0x80, 0x80, 0x80, 0x00},
	};
	for (size_t p = 0; p < sizeof pats / sizeof pats[0]; p++)
		for (size_t avail = 0; avail <= 12; avail++) {
			fprintf(f, "{\"e\":\"Packed\",\"buf\":"); pr_bytes(f, pats[p], 12);
			fprintf(f, ",\"avail\":%zu,\"ret\":%u}\n", avail, mtbl_varint_length_packed(pats[p], avail));
		}
	fclose(f);
	return 0;
}

struct sweep_arg { uint64_t lo, hi, stride; long bad; };
static void *sweep_thread(void *v) {
	struct sweep_arg *a = v;
	for (uint64_t x = a->lo; x < a->hi; x += a->stride) {
		uint8_t e[16], r[16];
		size_t n = mtbl_varint_encode32(e, (uint32_t)x), m = ref_enc(r, x);
		uint32_t d;
		if (n != m || memcmp(e, r, n) || mtbl_varint_length(x) != n || mtbl_varint_length_packed(e, n) != n ||
		    mtbl_varint_decode32(e, &d) != n || d != (uint32_t)x) {
			if (a->bad < 5) printf("MISMATCH varint32 v=%llu\n", (unsigned long long)x);
			a->bad++;
		}
		uint64_t d64;
		size_t n64 = mtbl_varint_encode64(e, x);
		if (n64 != m || memcmp(e, r, m) || mtbl_varint_decode64(e, &d64) != m || d64 != x) a->bad++;
	}
	return NULL;
}
static int do_sweep(uint64_t stride) {
	enum { T = 16 };
	pthread_t th[T];
	struct sweep_arg a[T];
	uint64_t span = (1ull << 32) / T;
	for (int i = 0; i < T; i++) {
		a[i] = (struct sweep_arg){ i * span, (i + 1) * span, stride, 0 };
		pthread_create(&th[i], NULL, sweep_thread, &a[i]);
	}
	long bad = 0;
	for (int i = 0; i < T; i++) { pthread_join(th[i], NULL); bad += a[i].bad; }
	printf("sweep values=%llu bad=%ld\n", (unsigned long long)((1ull << 32) / stride), bad);
	return bad != 0;
}

static void fill(uint8_t *p, size_t n, int klass, uint64_t seed) {
	uint64_t x = seed * 0x9E3779B97F4A7C15ull + 1;
	for (size_t i = 0; i < n; i++) {
		switch (klass) {
		case 0: p[i] = 0; break;
		case 1: p[i] = (uint8_t)i; break;
		case 2: p[i] = (uint8_t)(xs(&x) >> 24); break;
		default: p[i] = "abcabcabd"[i % 9]; break;
		}
	}
}
static const char *algname[] = { "none", "snappy", "zlib", "lz4", "lz4hc", "zstd" };

/* one call in a child: prints outcome code: 0 fail, 1 ok+roundtrip, 2 ok but roundtrip wrong, child signal -> abort */
static void comp_case(FILE *f, int alg, bool has_level, int level, size_t n, int klass) {
	fflush(f);
	pid_t pid = fork();
	if (pid == 0) {
		uint8_t *in = malloc(n + 1), *out = NULL, *back = NULL;
		size_t on = 0, bn = 0;
		fill(in, n, klass, n * 31 + (uint64_t)klass);
		mtbl_res r = has_level ? mtbl_compress_level((mtbl_compression_type)alg, level, in, n, &out, &on)
				       : mtbl_compress((mtbl_compression_type)alg, in, n, &out, &on);
		if (r != mtbl_res_success) _exit(10);
		r = mtbl_decompress((mtbl_compression_type)alg, out, on, &back, &bn);
		if (r != mtbl_res_success) _exit(12);
		if (bn != n || (n && memcmp(in, back, n) != 0)) _exit(13);
		_exit(11);
	}
	int st = 0;
	waitpid(pid, &st, 0);
	const char *outcome = "abort";
	bool rt = false;
	if (WIFEXITED(st)) {
		int c = WEXITSTATUS(st);
		if (c == 10) outcome = "fail";
		else if (c == 11) { outcome = "ok"; rt = true; }
		else if (c == 12) { outcome = "ok"; rt = false; }
		else if (c == 13) { outcome = "ok"; rt = false; }
		else outcome = "abort";
	}
	fprintf(f, "{\"e\":\"Comp\",\"alg\":\"%s\",\"haslevel\":%s,\"level\":%d,\"n\":%zu,\"class\":%d,\"outcome\":\"%s\",\"rt\":%s}\n",
		algname[alg], has_level ? "true" : "false", level, n, klass, outcome, rt ? "true" : "false");
}

static int do_comp(const char *out, const char *tier) {
	FILE *f = fopen(out, "w");
	if (!f) return 2;
	bool thorough = !strcmp(tier, "thorough");
	static const int levels[] = { -100000, -5, -1, 0, 1, 3, 6, 9, 12, 19, 22, 25, 99, 100000 };
	/* names */
	static const char *names[] = { "none", "snappy", "zlib", "lz4", "lz4hc", "zstd", "ZLIB", "Zstd", "LZ4HC", "gzip", "", "zlib ", "lz", "snappy2", "NONE" };
	for (size_t i = 0; i < sizeof names / sizeof names[0]; i++) {
		mtbl_compression_type t = (mtbl_compression_type)77;
		mtbl_res r = mtbl_compression_type_from_str(names[i], &t);
		const char *back = r == mtbl_res_success ? mtbl_compression_type_to_str(t) : NULL;
		fprintf(f, "{\"e\":\"Name\",\"s\":\"%s\",\"ok\":%s,\"id\":%d,\"back\":\"%s\"}\n", names[i], r == mtbl_res_success ? "true" : "false",
			r == mtbl_res_success ? (int)t : -1, back ? back : "");
	}
	/* every name with one character replaced by every other byte value, with one character added at either end, with one character
	 * removed, and in every mix of upper and lower case */
	static const char *canon[] = { "none", "snappy", "zlib", "lz4", "lz4hc", "zstd" };
	for (int ci = 0; ci < 6; ci++) {
		size_t L = strlen(canon[ci]);
		char buf[16];
		for (size_t pos = 0; pos <= L + 1; pos++)
			for (int c = 1; c < 256; c++) {
				if (pos < L) { memcpy(buf, canon[ci], L + 1); buf[pos] = (char)c; }
				else if (pos == L) { memcpy(buf, canon[ci], L); buf[L] = (char)c; buf[L + 1] = 0; }
				else { buf[0] = (char)c; memcpy(buf + 1, canon[ci], L + 1); }
				mtbl_compression_type t = (mtbl_compression_type)77;
				mtbl_res r = mtbl_compression_type_from_str(buf, &t);
				fprintf(f, "{\"e\":\"NameB\",\"sb\":[");
				for (size_t i = 0; buf[i]; i++) fprintf(f, i ? ",%u" : "%u", (unsigned char)buf[i]);
				fprintf(f, "],\"ok\":%s,\"id\":%d}\n", r == mtbl_res_success ? "true" : "false", r == mtbl_res_success ? (int)t : -1);
			}
		for (unsigned mask = 0; mask < (1u << L); mask++) {
			for (size_t i = 0; i < L; i++) buf[i] = (mask >> i & 1) && canon[ci][i] >= 'a' && canon[ci][i] <= 'z' ? (char)(canon[ci][i] - 32) : canon[ci][i];
			buf[L] = 0;
			mtbl_compression_type t = (mtbl_compression_type)77;
			mtbl_res r = mtbl_compression_type_from_str(buf, &t);
			fprintf(f, "{\"e\":\"NameB\",\"sb\":[");
			for (size_t i = 0; buf[i]; i++) fprintf(f, i ? ",%u" : "%u", (unsigned char)buf[i]);
			fprintf(f, "],\"ok\":%s,\"id\":%d}\n", r == mtbl_res_success ? "true" : "false", r == mtbl_res_success ? (int)t : -1);
		}
		for (size_t pos = 0; pos < L; pos++) {
			memcpy(buf, canon[ci], pos); memcpy(buf + pos, canon[ci] + pos + 1, L - pos);
			mtbl_compression_type t = (mtbl_compression_type)77;
			mtbl_res r = mtbl_compression_type_from_str(buf, &t);
			fprintf(f, "{\"e\":\"NameB\",\"sb\":[");
			for (size_t i = 0; buf[i]; i++) fprintf(f, i ? ",%u" : "%u", (unsigned char)buf[i]);
			fprintf(f, "],\"ok\":%s,\"id\":%d}\n", r == mtbl_res_success ? "true" : "false", r == mtbl_res_success ? (int)t : -1);
		}
	}
	for (int t = 0; t <= 5; t++) {
		const char *s = mtbl_compression_type_to_str((mtbl_compression_type)t);
		fprintf(f, "{\"e\":\"ToStr\",\"id\":%d,\"s\":\"%s\"}\n", t, s ? s : "");
	}
	for (int alg = 1; alg <= 5; alg++)
		for (int klass = 0; klass < 4; klass++)
			for (size_t n = 0; n <= 64; n++) {
				comp_case(f, alg, false, 0, n, klass);
				for (size_t li = 0; li < sizeof levels / sizeof levels[0]; li++) {
					if (!thorough && (n % 4 != 0 && n > 12) && li % 3 != 0) continue;
					comp_case(f, alg, true, levels[li], n, klass);
				}
			}
	static const size_t bigs[] = { 127, 128, 1000, 4096, 65535, 65536, 100000, 1048576, 8388608 };
	for (int alg = 1; alg <= 5; alg++)
		for (int klass = 0; klass < 4; klass++)
			for (size_t bi = 0; bi < sizeof bigs / sizeof bigs[0]; bi++) {
				if (!thorough && bigs[bi] > 1048576) continue;
				comp_case(f, alg, false, 0, bigs[bi], klass);
				comp_case(f, alg, true, bi % 2 ? 1 : 9, bigs[bi], klass);
				if (thorough) { comp_case(f, alg, true, -5, bigs[bi], klass); comp_case(f, alg, true, 99, bigs[bi], klass); }
			}
	fprintf(f, "{\"e\":\"Done\"}\n");
	fclose(f);
	return 0;
}

int main(int argc, char **argv) {
	if (argc >= 3 && !strcmp(argv[1], "crc")) return do_crc(argv[2]);
	if (argc >= 4 && !strcmp(argv[1], "crcrand")) return do_crcrand(strtoull(argv[2], NULL, 10), atoi(argv[3]));
	if (argc >= 3 && !strcmp(argv[1], "crcbig")) return do_crcbig(atoi(argv[2]));
	if (argc >= 3 && !strcmp(argv[1], "varint")) return do_varint(argv[2]);
	if (argc >= 3 && !strcmp(argv[1], "sweep")) return do_sweep(strtoull(argv[2], NULL, 10));
	if (argc >= 4 && !strcmp(argv[1], "comp")) return do_comp(argv[2], argv[3]);
	fprintf(stderr, "usage: codec_drv crc|crcrand|varint|sweep|comp ...\n");
	return 2;
}
