/*
 * mtbl_drv - script interpreter binding the TLA+ specifications to libmtbl.
 *
 * usage: mtbl_drv [-f] script log
 *
 * The script is text, one operation per line, tokens separated by blanks.
 * A line "---" separates executions; with -f every execution runs in a
 * forked child and the parent records how the child ended.  Every
 * operation appends exactly one JSON line (one write(2)) to the log at its
 * return: the operation, its arguments and what the library returned.
 * Nothing internal to the library is ever read.
 *
 * Byte strings in scripts: '+'-joined components
 *   -            empty
 *   <hex>        literal bytes
 *   G<seed>x<n>  n bytes of the xorshift stream for seed
 *   C<hh>x<n>    byte hh repeated n times
 *   T<a>,<b>,... token bag: each token two bytes big endian
 * Byte strings in the log: keys always hex; values hex when <= 1024 bytes,
 * otherwise {"n":len,"h":"fnv64"}.
 */
#define _GNU_SOURCE
#include <assert.h>
#include <ctype.h>
#include <dirent.h>
#include <errno.h>
#include <fcntl.h>
#include <pthread.h>
#include <signal.h>
#include <stdarg.h>
#include <stdbool.h>
#include <stdint.h>
#include <stdio.h>
#include <stdlib.h>
#include <string.h>
#include <sys/mman.h>
#include <sys/stat.h>
#include <sys/wait.h>
#include <time.h>
#include <unistd.h>

#include <mtbl.h>

#ifdef VS_SCHED
#include "vs_sched.h"
#undef pthread_mutex_init
#undef pthread_mutex_lock
#undef pthread_mutex_unlock
#undef pthread_mutex_destroy
#undef pthread_cond_init
#undef pthread_cond_wait
#undef pthread_cond_signal
#undef pthread_cond_broadcast
#undef pthread_mutex_trylock
#undef pthread_cond_destroy
#undef pthread_create
#undef pthread_join
#endif

/* ------------------------------------------------------------------ log */

static int log_fd = -1;
static pthread_mutex_t log_mx = PTHREAD_MUTEX_INITIALIZER;

struct sbuf { char *p; size_t n, cap; };

static void sb_need(struct sbuf *s, size_t k) {
	if (s->n + k + 1 > s->cap) {
		s->cap = (s->n + k + 1) * 2 + 64;
		s->p = realloc(s->p, s->cap);
	}
}
static void sb_printf(struct sbuf *s, const char *fmt, ...) {
	va_list ap;
	va_start(ap, fmt);
	int k = vsnprintf(NULL, 0, fmt, ap);
	va_end(ap);
	sb_need(s, (size_t)k);
	va_start(ap, fmt);
	vsnprintf(s->p + s->n, (size_t)k + 1, fmt, ap);
	va_end(ap);
	s->n += (size_t)k;
}
static void sb_hex(struct sbuf *s, const uint8_t *b, size_t n) {
	static const char hx[] = "0123456789abcdef";
	sb_need(s, 2 * n + 2);
	s->p[s->n++] = '"';
	for (size_t i = 0; i < n; i++) {
		s->p[s->n++] = hx[b[i] >> 4];
		s->p[s->n++] = hx[b[i] & 15];
	}
	s->p[s->n++] = '"';
	s->p[s->n] = 0;
}
static uint64_t fnv64(const uint8_t *b, size_t n) {
	uint64_t h = 1469598103934665603ULL;
	for (size_t i = 0; i < n; i++) { h ^= b[i]; h *= 1099511628211ULL; }
	return h;
}
static void sb_val(struct sbuf *s, const uint8_t *b, size_t n) {
	if (n <= 1024) sb_hex(s, b, n);
	else sb_printf(s, "{\"n\":%zu,\"h\":\"%016llx\"}", n, (unsigned long long)fnv64(b, n));
}
static void sb_emit(struct sbuf *s) {
	sb_need(s, 1);
	s->p[s->n++] = '\n';
	pthread_mutex_lock(&log_mx);
	size_t off = 0;
	while (off < s->n) {
		ssize_t w = write(log_fd, s->p + off, s->n - off);
		if (w < 0) { if (errno == EINTR) continue; break; }
		off += (size_t)w;
	}
	pthread_mutex_unlock(&log_mx);
	free(s->p);
	s->p = NULL; s->n = s->cap = 0;
}

/* ------------------------------------------------------- byte strings */

struct bytes { uint8_t *p; size_t n; };

static void xs_fill(uint8_t *p, size_t n, uint64_t seed) {
	uint64_t x = seed * 0x9E3779B97F4A7C15ULL + 0x2545F4914F6CDD1DULL;
	if (x == 0) x = 1;
	for (size_t i = 0; i < n; i++) {
		x ^= x << 13; x ^= x >> 7; x ^= x << 17;
		p[i] = (uint8_t)(x >> 24);
	}
}
static int hexv(int c) {
	if (c >= '0' && c <= '9') return c - '0';
	if (c >= 'a' && c <= 'f') return c - 'a' + 10;
	if (c >= 'A' && c <= 'F') return c - 'A' + 10;
	return -1;
}
static struct bytes parse_bytes(const char *tok) {
	struct bytes b = { malloc(1), 0 };
	size_t cap = 1;
	const char *s = tok;
	while (*s) {
		const char *e = strchr(s, '+');
		size_t L = e ? (size_t)(e - s) : strlen(s);
		if (L == 1 && s[0] == '-') {
			/* empty */
		} else if (s[0] == 'G' || s[0] == 'C') {
			char *q;
			unsigned long long a = strtoull(s + 1, &q, s[0] == 'C' ? 16 : 10);
			assert(*q == 'x');
			size_t n = strtoull(q + 1, NULL, 10);
			if (b.n + n + 1 > cap) { cap = (b.n + n + 1) * 2; b.p = realloc(b.p, cap); }
			if (s[0] == 'G') xs_fill(b.p + b.n, n, a);
			else memset(b.p + b.n, (int)a, n);
			b.n += n;
		} else if (s[0] == 'T') {
			const char *q = s + 1;
			while (q < s + L) {
				char *r;
				unsigned long t = strtoul(q, &r, 10);
				if (b.n + 3 > cap) { cap = (b.n + 3) * 2; b.p = realloc(b.p, cap); }
				b.p[b.n++] = (uint8_t)(t >> 8);
				b.p[b.n++] = (uint8_t)t;
				q = (*r == ',') ? r + 1 : r;
				if (r == q && *r != ',') break;
			}
		} else {
			assert(L % 2 == 0);
			if (b.n + L / 2 + 1 > cap) { cap = (b.n + L / 2 + 1) * 2; b.p = realloc(b.p, cap); }
			for (size_t i = 0; i < L; i += 2) {
				int h = hexv(s[i]), l = hexv(s[i + 1]);
				assert(h >= 0 && l >= 0);
				b.p[b.n++] = (uint8_t)(h * 16 + l);
			}
		}
		if (!e) break;
		s = e + 1;
	}
	return b;
}

/* ------------------------------------------------------------- seams */

/* clock seam: fileset.c is compiled with -Dclock_gettime=vs_clock_gettime */
static long clock_secs = -1;
static long clock_base = 0;	/* added to the seconds handed to the library (times around 2^31 and 2^32); events report the script's seconds */
static long clock_nsec = 0;
static long clock_reads = 0;
int vs_clock_gettime(clockid_t id, struct timespec *ts);
int vs_clock_gettime(clockid_t id, struct timespec *ts) {
	if (clock_secs < 0) return clock_gettime(id, ts);
	__atomic_add_fetch(&clock_reads, 1, __ATOMIC_SEQ_CST);
	ts->tv_sec = clock_base + clock_secs;
	ts->tv_nsec = __atomic_add_fetch(&clock_nsec, 1, __ATOMIC_SEQ_CST);
	return 0;
}

/* mkstemp seam: sorter.c is compiled with -Dmkstemp=vs_mkstemp */
static long n_sorter_adds = 0;
int vs_mkstemp(char *tmpl);
int vs_mkstemp(char *tmpl) {
	struct sbuf s = {0};
	sb_printf(&s, "{\"e\":\"Spill\",\"tmpl\":\"%s\",\"nadd\":%ld}", tmpl,
		  __atomic_load_n(&n_sorter_adds, __ATOMIC_SEQ_CST));
	sb_emit(&s);
	return mkstemp(tmpl);
}

/* write seam: writer.c is compiled with -Dwrite=vs_write */
struct wfault { long call; int kind; long n; };	/* kind: 1 partial n, 2 eintr, 3 zero, 4 error errno n */
static struct wfault wfaults[4096];
static int n_wfaults = 0;
static long write_calls = 0;
static int write_log = 0;
static int write_allone = 0;
/* close seam (writer.c, sorter.c, reader.c are compiled with -Dclose=vs_close): a close() that fails with EBADF is a close of a
 * descriptor the object no longer owns (a second close); with several threads it would hit whoever got that number meanwhile */
int vs_close(int fd);
int vs_close(int fd) {
	int r = close(fd);
	if (r < 0 && errno == EBADF) {
		struct sbuf s = {0};
		sb_printf(&s, "{\"e\":\"BadClose\",\"fd\":%d}", fd);
		sb_emit(&s);
	}
	return r;
}
ssize_t vs_write(int fd, const void *buf, size_t n);
ssize_t vs_write(int fd, const void *buf, size_t n) {
	long c = __atomic_add_fetch(&write_calls, 1, __ATOMIC_SEQ_CST);
	ssize_t ret;
	int kind = 0; long arg = 0;
	for (int i = 0; i < n_wfaults; i++)
		if (wfaults[i].call == c) { kind = wfaults[i].kind; arg = wfaults[i].n; }
	if (kind == 0 && write_allone && n > 1) { kind = 1; arg = 1; }
	if (kind == 1) {
		size_t k = (size_t)arg;
		if (k >= n) k = n;
		if (k < 1) k = 1;
		ret = write(fd, buf, k);
	} else if (kind == 2) {
		errno = EINTR; ret = -1;
	} else if (kind == 3) {
		ret = 0;
	} else if (kind == 4) {
		errno = (int)arg; ret = -1;
	} else {
		ret = write(fd, buf, n);
	}
	if (write_log) {
		int e = errno;
		struct sbuf s = {0};
		sb_printf(&s, "{\"e\":\"Write\",\"call\":%ld,\"req\":%zu,\"ret\":%zd,\"errno\":%d,\"ptr\":%llu}",
			  c, n, ret, ret < 0 ? e : 0, (unsigned long long)(uintptr_t)buf);
		sb_emit(&s);
		errno = e;
	}
	return ret;
}

/* writev / pwrite seams (writer.c: -Dwritev=vs_writev -Dpwrite=vs_pwrite): a writer that gathers its output differently still goes
 * through the same fault script - one call of the script per system call, whatever its form */
#include <sys/uio.h>
ssize_t vs_writev(int fd, const struct iovec *iov, int iovcnt);
ssize_t vs_writev(int fd, const struct iovec *iov, int iovcnt) {
	size_t total = 0;
	for (int i = 0; i < iovcnt; i++) total += iov[i].iov_len;
	uint8_t *tmp = malloc(total + 1);
	size_t off = 0;
	for (int i = 0; i < iovcnt; i++) { memcpy(tmp + off, iov[i].iov_base, iov[i].iov_len); off += iov[i].iov_len; }
	ssize_t r = vs_write(fd, tmp, total);
	int e = errno;
	free(tmp);
	errno = e;
	return r;
}
ssize_t vs_pwrite(int fd, const void *buf, size_t n, off_t offset);
ssize_t vs_pwrite(int fd, const void *buf, size_t n, off_t offset) {
	off_t cur = lseek(fd, 0, SEEK_CUR);
	if (lseek(fd, offset, SEEK_SET) < 0) return -1;
	ssize_t r = vs_write(fd, buf, n);
	int e = errno;
	lseek(fd, cur, SEEK_SET);
	errno = e;
	return r;
}

/* mmap seam: reader.c is compiled with -Dmmap=vs_mmap -Dmunmap=vs_munmap */
static int guard_mode = 0;	/* 0 off, 1 image flush against the right guard, 2 against the left guard */
struct gmap { void *base; size_t total; void *img; size_t len; };
static struct gmap gmaps[256];
void *vs_mmap(void *addr, size_t len, int prot, int flags, int fd, off_t off);
int vs_munmap(void *addr, size_t len);
void *vs_mmap(void *addr, size_t len, int prot, int flags, int fd, off_t off) {
	if (!guard_mode) return mmap(addr, len, prot, flags, fd, off);
	long pg = sysconf(_SC_PAGESIZE);
	size_t body = (len + (size_t)pg - 1) / (size_t)pg * (size_t)pg;
	size_t total = body + 2 * (size_t)pg * 16;
	uint8_t *base = mmap(NULL, total, PROT_NONE, MAP_PRIVATE | MAP_ANONYMOUS, -1, 0);
	if (base == MAP_FAILED) return MAP_FAILED;
	uint8_t *bodyp = base + (size_t)pg * 16;
	if (mprotect(bodyp, body, PROT_READ | PROT_WRITE) != 0) return MAP_FAILED;
	uint8_t *img = guard_mode == 1 ? bodyp + (body - len) : bodyp;
	/* fill slack with a pattern, then the file image */
	memset(bodyp, 0xA5, body);
	size_t got = 0;
	while (got < len) {
		ssize_t r = pread(fd, img + got, len - got, off + (off_t)got);
		if (r <= 0) break;
		got += (size_t)r;
	}
	/* slack bytes inside the page cannot be protected; the page-level guard catches far accesses,
	 * ASan-independent. For the left mode the image starts at a page start. */
	mprotect(bodyp, body, PROT_READ);
	for (int i = 0; i < 256; i++) if (!gmaps[i].base) {
		gmaps[i] = (struct gmap){ base, total, img, len };
		break;
	}
	(void)prot; (void)flags; (void)addr;
	return img;
}
int vs_munmap(void *addr, size_t len) {
	for (int i = 0; i < 256; i++) if (gmaps[i].base && gmaps[i].img == addr) {
		int r = munmap(gmaps[i].base, gmaps[i].total);
		gmaps[i].base = NULL;
		return r;
	}
	return munmap(addr, len);
}

/* ------------------------------------------------------------ objects */

#define NSLOT 64
static struct mtbl_threadpool *pools[NSLOT];
static struct mtbl_writer *writers[NSLOT];
static struct mtbl_reader *readers[NSLOT];
static struct mtbl_merger *mergers[NSLOT];
static struct mtbl_sorter *sorters[NSLOT];
static struct mtbl_fileset *filesets[NSLOT];
static int fs_mcid[NSLOT];	/* id of the merge closure registered with each fileset handle, -1 none */

struct itslot {
	struct mtbl_iter *it;
	bool used;
	/* last buffers handed out */
	const uint8_t *kp, *vp;
	size_t kn, vn;
	uint8_t *kcopy, *vcopy;
	bool have;
};
static struct itslot iters[256];

/* merge callbacks */
struct mergeclos { int mode; int failtok; int id; unsigned magic; };
static struct dupclos { unsigned magic; } the_dupclos = { 0x44555053 };
static struct mergeclos mclos[256];
static int n_mclos = 0;
static int merge_log = 1;

static void merge_bag(void *clos, const uint8_t *key, size_t len_key,
		      const uint8_t *v0, size_t n0, const uint8_t *v1, size_t n1,
		      uint8_t **out, size_t *nout)
{
	struct mergeclos *mc = clos;
	if (!(mc >= mclos && mc < mclos + 256 && mc->magic == 0x4d434c53)) {
		/* the library handed the callback a closure other than the one registered with it */
		struct sbuf s = {0};
		sb_printf(&s, "{\"e\":\"BadClosure\",\"fn\":\"merge\"}");
		sb_emit(&s);
		*out = NULL; *nout = 0;
		return;
	}
	/* operands are sorted sequences of 2-byte big-endian tokens; result: sorted multiset union */
	uint8_t *r = malloc(n0 + n1 + 1);
	size_t i = 0, j = 0, k = 0;
	bool fail = false;
	while (i + 1 < n0 || j + 1 < n1) {
		unsigned a = i + 1 < n0 ? (unsigned)(v0[i] << 8 | v0[i + 1]) : 0x10000;
		unsigned b = j + 1 < n1 ? (unsigned)(v1[j] << 8 | v1[j + 1]) : 0x10000;
		unsigned t;
		if (a <= b) { t = a; i += 2; } else { t = b; j += 2; }
		if ((int)t == mc->failtok) fail = true;
		/* tokens from 0x8000 on cancel in pairs (the bag keeps their parity): a merged value can be shorter than its operands, and empty */
		if (t >= 0x8000 && k >= 2 && r[k - 2] == (uint8_t)(t >> 8) && r[k - 1] == (uint8_t)t) { k -= 2; continue; }
		r[k++] = (uint8_t)(t >> 8); r[k++] = (uint8_t)t;
	}
	if (merge_log) {
		struct sbuf s = {0};
		sb_printf(&s, "{\"e\":\"MergeCall\",\"m\":%d,\"k\":", mc->id);
		sb_hex(&s, key, len_key);
		sb_printf(&s, ",\"a\":"); sb_val(&s, v0, n0);
		sb_printf(&s, ",\"b\":"); sb_val(&s, v1, n1);
		sb_printf(&s, ",\"fail\":%s}", fail ? "true" : "false");
		sb_emit(&s);
	}
	/* failure is reported by handing back no value: for keys whose length is a multiple of 3 by storing NULL explicitly, otherwise by returning without
	 * touching the result arguments (the library hands them in cleared for every call) */
	if (fail) { free(r); if (len_key % 3 == 0) { *out = NULL; *nout = 0; } return; }
	*out = r; *nout = k;
}
static int dupsort_bytes(void *clos, const uint8_t *key, size_t len_key,
			 const uint8_t *v0, size_t n0, const uint8_t *v1, size_t n1)
{
	(void)key; (void)len_key;
	if (clos != &the_dupclos) {
		struct sbuf s = {0};
		sb_printf(&s, "{\"e\":\"BadClosure\",\"fn\":\"dupsort\"}");
		sb_emit(&s);
	}
	size_t n = n0 < n1 ? n0 : n1;
	int r = memcmp(v0, v1, n);
	if (r) return r;
	return n0 < n1 ? -1 : n0 > n1 ? 1 : 0;
}
static struct mergeclos *new_mclos(int mode, int failtok) {
	struct mergeclos *mc = &mclos[n_mclos];
	mc->mode = mode; mc->failtok = failtok; mc->id = n_mclos; mc->magic = 0x4d434c53;
	n_mclos++;
	return mc;
}

/* user-defined sources: in-memory table; every next() hands out freshly allocated buffers and
 * poisons + frees the previous ones */
struct uent { struct bytes k, v; };
struct usrc { struct uent *e; size_t n, cap; struct mtbl_source *src; };
static struct usrc usrcs[NSLOT];
struct uiter { struct usrc *u; size_t pos; int kind; struct bytes k0, k1; uint8_t *lastk, *lastv; size_t lkn, lvn; };

static int bcmp2(const uint8_t *a, size_t an, const uint8_t *b, size_t bn) {
	size_t n = an < bn ? an : bn;
	int r = n ? memcmp(a, b, n) : 0;
	if (r) return r;
	return an < bn ? -1 : an > bn ? 1 : 0;
}
static size_t u_lower(struct usrc *u, const uint8_t *k, size_t n) {
	size_t i = 0;
	while (i < u->n && bcmp2(u->e[i].k.p, u->e[i].k.n, k, n) < 0) i++;
	return i;
}
static void u_release(struct uiter *it) {
	if (it->lastk) { memset(it->lastk, 0xDD, it->lkn); free(it->lastk); it->lastk = NULL; }
	if (it->lastv) { memset(it->lastv, 0xDD, it->lvn); free(it->lastv); it->lastv = NULL; }
}
static mtbl_res u_seek(void *v, const uint8_t *k, size_t n) {
	struct uiter *it = v;
	u_release(it);
	it->pos = u_lower(it->u, k, n);
	return mtbl_res_success;
}
static mtbl_res u_next(void *v, const uint8_t **k, size_t *kn, const uint8_t **val, size_t *vn) {
	struct uiter *it = v;
	u_release(it);
	if (it->pos >= it->u->n) return mtbl_res_failure;
	struct uent *e = &it->u->e[it->pos];
	switch (it->kind) {
	case 1: if (bcmp2(e->k.p, e->k.n, it->k0.p, it->k0.n) != 0) { it->pos = it->u->n; return mtbl_res_failure; } break;
	case 2: if (!(e->k.n >= it->k0.n && (it->k0.n == 0 || memcmp(e->k.p, it->k0.p, it->k0.n) == 0))) { it->pos = it->u->n; return mtbl_res_failure; } break;
	case 3: if (bcmp2(e->k.p, e->k.n, it->k1.p, it->k1.n) > 0) { it->pos = it->u->n; return mtbl_res_failure; } break;
	}
	it->pos++;
	it->lkn = e->k.n; it->lvn = e->v.n;
	it->lastk = malloc(e->k.n + 1); memcpy(it->lastk, e->k.p, e->k.n);
	it->lastv = malloc(e->v.n + 1); memcpy(it->lastv, e->v.p, e->v.n);
	*k = it->lastk; *kn = e->k.n; *val = it->lastv; *vn = e->v.n;
	return mtbl_res_success;
}
static void u_free(void *v) {
	struct uiter *it = v;
	u_release(it);
	free(it->k0.p); free(it->k1.p);
	free(it);
}
static struct bytes bdup(const uint8_t *p, size_t n) {
	struct bytes b = { malloc(n + 1), n };
	if (n) memcpy(b.p, p, n);
	return b;
}
static struct mtbl_iter *u_mk(struct usrc *u, int kind, const uint8_t *k0, size_t n0, const uint8_t *k1, size_t n1) {
	struct uiter *it = calloc(1, sizeof(*it));
	it->u = u; it->kind = kind;
	it->k0 = bdup(k0, n0); it->k1 = bdup(k1, n1);
	it->pos = kind ? u_lower(u, k0, n0) : 0;
	return mtbl_iter_init(u_seek, u_next, u_free, it);
}
static struct mtbl_iter *u_iter(void *c) { return u_mk(c, 0, NULL, 0, NULL, 0); }
static struct mtbl_iter *u_get(void *c, const uint8_t *k, size_t n) { return u_mk(c, 1, k, n, NULL, 0); }
static struct mtbl_iter *u_prefix(void *c, const uint8_t *k, size_t n) { return u_mk(c, 2, k, n, NULL, 0); }
static struct mtbl_iter *u_range(void *c, const uint8_t *k0, size_t n0, const uint8_t *k1, size_t n1) { return u_mk(c, 3, k0, n0, k1, n1); }

static const struct mtbl_source *get_source(const char *tok) {
	int n = atoi(tok + 2);
	switch (tok[0]) {
	case 'r': assert(readers[n]); return mtbl_reader_source(readers[n]);
	case 'm': assert(mergers[n]); return mtbl_merger_source(mergers[n]);
	case 'f': assert(filesets[n]); return mtbl_fileset_source(filesets[n]);
	case 'u': assert(usrcs[n].src); return usrcs[n].src;
	}
	fprintf(stderr, "bad source %s\n", tok);
	abort();
}

/* fileset filters */
struct fnfilter { char chars[64]; };
static struct fnfilter fnfilters[256];
static int n_fnfilters = 0;
static bool fname_filter(const char *fname, void *clos) {
	struct fnfilter *f = clos;
	if (!(f >= fnfilters && f < fnfilters + 256)) {
		struct sbuf s = {0};
		sb_printf(&s, "{\"e\":\"BadClosure\",\"fn\":\"fname_filter\"}");
		sb_emit(&s);
		return true;
	}
	const char *b = strrchr(fname, '/');
	b = b ? b + 1 : fname;
	return strchr(f->chars, b[0]) != NULL;
}
static bool reader_filter(struct mtbl_reader *r, void *clos) {
	long mode = (long)clos;
	if (mode != 1 && mode != 2) {
		struct sbuf s = {0};
		sb_printf(&s, "{\"e\":\"BadClosure\",\"fn\":\"reader_filter\"}");
		sb_emit(&s);
	}
	uint64_t n = mtbl_metadata_count_entries(mtbl_reader_metadata(r));
	return mode == 1 ? (n % 2 == 0) : (n % 2 == 1);
}

/* --------------------------------------------------------- observations */

static int count_fds(void) {
	int n = 0;
	DIR *d = opendir("/proc/self/fd");
	if (!d) return -1;
	struct dirent *e;
	while ((e = readdir(d))) if (e->d_name[0] != '.') n++;
	closedir(d);
	return n - 1;	/* the directory stream itself */
}
static int count_maps(const char *needle) {
	FILE *f = fopen("/proc/self/maps", "r");
	if (!f) return -1;
	char line[4096], prev_path[4096] = "";
	unsigned long prev_end = 0, prev_off_end = 0;
	int n = 0;
	/* one mapping of a file can show as several adjacent lines (madvise over a part of it splits the kernel's record): lines of
	 * the same file that continue the previous line's address range are the same mapping */
	while (fgets(line, sizeof line, f)) {
		if (!strstr(line, needle)) { prev_path[0] = 0; continue; }
		unsigned long a = 0, b = 0, off = 0;
		sscanf(line, "%lx-%lx %*s %lx", &a, &b, &off);
		const char *path = strchr(line, '/');
		if (!path) path = "";
		/* ... and the file offset continues too (two mappings of one file that happen to be neighbours both start at offset 0) */
		if (!(prev_path[0] && a == prev_end && off == prev_off_end && !strcmp(path, prev_path))) n++;
		prev_end = b;
		prev_off_end = off + (b - a);
		snprintf(prev_path, sizeof prev_path, "%s", path);
	}
	fclose(f);
	return n;
}
static int count_dir(const char *path) {
	DIR *d = opendir(path);
	if (!d) return -1;
	int n = 0;
	struct dirent *e;
	while ((e = readdir(d))) if (strcmp(e->d_name, ".") && strcmp(e->d_name, "..")) n++;
	closedir(d);
	return n;
}
static int count_threads(void) {
	return count_dir("/proc/self/task");
}

#if defined(__SANITIZE_ADDRESS__)
int __lsan_do_recoverable_leak_check(void);
#define HAVE_LSAN 1
#else
#define HAVE_LSAN 0
#endif

/* ------------------------------------------------------------ interpreter */

static void check_intact(struct itslot *s, struct sbuf *out) {
	if (!s->have) return;
	bool ok = memcmp(s->kp, s->kcopy, s->kn) == 0 && memcmp(s->vp, s->vcopy, s->vn) == 0;
	if (!ok) sb_printf(out, ",\"intact\":false");
	free(s->kcopy); free(s->vcopy);
	s->kcopy = s->vcopy = NULL;
	s->have = false;
}
static void remember(struct itslot *s, const uint8_t *k, size_t kn, const uint8_t *v, size_t vn) {
	s->kp = k; s->kn = kn; s->vp = v; s->vn = vn;
	s->kcopy = malloc(kn + 1); memcpy(s->kcopy, k, kn);
	s->vcopy = malloc(vn + 1); memcpy(s->vcopy, v, vn);
	s->have = true;
}

static mtbl_compression_type comp_of(const char *s) {
	mtbl_compression_type t;
	if (mtbl_compression_type_from_str(s, &t) != mtbl_res_success) { fprintf(stderr, "bad comp %s\n", s); abort(); }
	return t;
}

#define MAXTOK 1024
static char scratch_dir[1024] = ".";

static void run_line(char *line) {
	char *tok[MAXTOK];
	int nt = 0;
	for (char *p = strtok(line, " \t\r\n"); p && nt < MAXTOK; p = strtok(NULL, " \t\r\n")) tok[nt++] = p;
	if (nt == 0 || tok[0][0] == '#') return;
	const char *op = tok[0];
	struct sbuf s = {0};
#define ARG(i) (assert((i) < nt), tok[i])
#define IARG(i) atol(ARG(i))

	if (!strcmp(op, "pool_init")) {
		int p = IARG(1);
		pools[p] = mtbl_threadpool_init((size_t)IARG(2));
		sb_printf(&s, "{\"e\":\"PoolInit\",\"p\":%d,\"n\":%ld}", p, IARG(2));
	} else if (!strcmp(op, "pool_destroy")) {
		int p = IARG(1);
		mtbl_threadpool_destroy(&pools[p]);
		sb_printf(&s, "{\"e\":\"PoolDestroy\",\"p\":%d}", p);
	} else if (!strcmp(op, "w_init")) {
		/* w_init W path comp level bs ri pool prefixlen [fd]      comp = "nullopt": the options argument is NULL (all defaults) */
		int w = IARG(1);
		struct mtbl_writer_options *o = mtbl_writer_options_init();
		bool nullopt = !strcmp(ARG(3), "nullopt");
		if (nullopt) { mtbl_writer_options_destroy(&o); tok[3] = (char *)"default"; }
		if (!nullopt && strcmp(ARG(3), "default")) mtbl_writer_options_set_compression(o, comp_of(ARG(3)));
		if (!nullopt && strcmp(ARG(4), "default")) mtbl_writer_options_set_compression_level(o, (int)IARG(4));
		if (!nullopt && strcmp(ARG(5), "default")) mtbl_writer_options_set_block_size(o, (size_t)strtoull(ARG(5), NULL, 10));
		if (!nullopt && strcmp(ARG(6), "default")) mtbl_writer_options_set_block_restart_interval(o, (size_t)IARG(6));
		if (!nullopt && IARG(7) >= 0) mtbl_writer_options_set_threadpool(o, pools[IARG(7)]);
		long long plen = atoll(ARG(8));
		if (plen > 0 || (nt > 9 && (!strcmp(ARG(9), "fd") || !strcmp(ARG(9), "sparse")))) {
			int fd = open(ARG(2), O_WRONLY | O_CREAT | O_EXCL, 0644);
			if (fd < 0) { writers[w] = NULL; }
			else {
				if (nt > 9 && !strcmp(ARG(9), "sparse")) {
					/* reserve the initial bytes as a hole: the table starts plen bytes into the file */
					off_t o = lseek(fd, (off_t)plen, SEEK_SET);
					assert(o == (off_t)plen);
				} else {
					uint8_t *pre = malloc((size_t)plen + 1);
					xs_fill(pre, (size_t)plen, 77);
					ssize_t wr = plen ? write(fd, pre, (size_t)plen) : 0;
					assert(wr == plen);
					free(pre);
				}
				writers[w] = mtbl_writer_init_fd(fd, o);
				close(fd);
			}
		} else {
			writers[w] = mtbl_writer_init(ARG(2), o);
		}
		mtbl_writer_options_destroy(&o);
		sb_printf(&s, "{\"e\":\"WInit\",\"w\":%d,\"path\":\"%s\",\"pool\":%ld,\"fd\":%s,\"prefix\":%lld,\"comp\":%d,\"level\":\"%s\",\"bs\":%llu,\"ri\":%ld,\"ok\":%s}",
			  w, ARG(2), IARG(7), (plen > 0 || (nt > 9 && (!strcmp(ARG(9), "fd") || !strcmp(ARG(9), "sparse")))) ? "true" : "false", plen,
			  strcmp(ARG(3), "default") ? (int)comp_of(ARG(3)) : 2, ARG(4),
			  strcmp(ARG(5), "default") ? strtoull(ARG(5), NULL, 10) : 8192ULL, strcmp(ARG(6), "default") ? IARG(6) : 16L,
			  writers[w] ? "true" : "false");
	} else if (!strcmp(op, "w_add")) {
		int w = IARG(1);
		struct bytes k = parse_bytes(ARG(2)), v = parse_bytes(ARG(3));
		mtbl_res r = mtbl_writer_add(writers[w], k.p, k.n, v.p, v.n);
		sb_printf(&s, "{\"e\":\"WAdd\",\"w\":%d,\"k\":", w); sb_hex(&s, k.p, k.n);
		sb_printf(&s, ",\"v\":"); sb_val(&s, v.p, v.n);
		sb_printf(&s, ",\"kn\":%zu,\"vn\":%zu,\"ok\":%s}", k.n, v.n, r == mtbl_res_success ? "true" : "false");
		free(k.p); free(v.p);
	} else if (!strcmp(op, "w_close")) {
		int w = IARG(1);
		mtbl_writer_destroy(&writers[w]);
		writers[w] = NULL;
		sb_printf(&s, "{\"e\":\"WClose\",\"w\":%d}", w);
	} else if (!strcmp(op, "r_init")) {
		/* r_init R path verify madvise [fd]      verify = "nullopt": the options argument is NULL (all defaults) */
		int r = IARG(1);
		struct mtbl_reader_options *o = mtbl_reader_options_init();
		if (!strcmp(ARG(3), "nullopt")) mtbl_reader_options_destroy(&o);
		else {
			mtbl_reader_options_set_verify_checksums(o, IARG(3) != 0);
			mtbl_reader_options_set_madvise_random(o, IARG(4) != 0);
		}
		if (nt > 5 && !strcmp(ARG(5), "fd")) {
			int fd = open(ARG(2), O_RDONLY);
			readers[r] = fd >= 0 ? mtbl_reader_init_fd(fd, o) : NULL;
			if (fd >= 0) close(fd);
		} else {
			readers[r] = mtbl_reader_init(ARG(2), o);
		}
		mtbl_reader_options_destroy(&o);
		sb_printf(&s, "{\"e\":\"ROpen\",\"r\":%d,\"path\":\"%s\",\"ok\":%s}", r, ARG(2), readers[r] ? "true" : "false");
	} else if (!strcmp(op, "r_meta")) {
		int r = IARG(1);
		const struct mtbl_metadata *m = mtbl_reader_metadata(readers[r]);
		sb_printf(&s, "{\"e\":\"RMeta\",\"r\":%d,\"version\":%d,\"index_block_offset\":%llu,\"data_block_size\":%llu,"
			  "\"compression\":%llu,\"count_entries\":%llu,\"count_data_blocks\":%llu,\"bytes_data_blocks\":%llu,"
			  "\"bytes_index_block\":%llu,\"bytes_keys\":%llu,\"bytes_values\":%llu}", r,
			  (int)mtbl_metadata_file_version(m),
			  (unsigned long long)mtbl_metadata_index_block_offset(m),
			  (unsigned long long)mtbl_metadata_data_block_size(m),
			  (unsigned long long)mtbl_metadata_compression_algorithm(m),
			  (unsigned long long)mtbl_metadata_count_entries(m),
			  (unsigned long long)mtbl_metadata_count_data_blocks(m),
			  (unsigned long long)mtbl_metadata_bytes_data_blocks(m),
			  (unsigned long long)mtbl_metadata_bytes_index_block(m),
			  (unsigned long long)mtbl_metadata_bytes_keys(m),
			  (unsigned long long)mtbl_metadata_bytes_values(m));
	} else if (!strcmp(op, "r_destroy")) {
		int r = IARG(1);
		mtbl_reader_destroy(&readers[r]);
		sb_printf(&s, "{\"e\":\"RDestroy\",\"r\":%d}", r);
	} else if (!strcmp(op, "it_iter") || !strcmp(op, "it_get") || !strcmp(op, "it_prefix") || !strcmp(op, "it_range")) {
		int i = IARG(1);
		const struct mtbl_source *src = get_source(ARG(2));
		struct itslot *sl = &iters[i];
		memset(sl, 0, sizeof(*sl));
		sl->used = true;
		if (!strcmp(op, "it_iter")) {
			sl->it = mtbl_source_iter(src);
			sb_printf(&s, "{\"e\":\"Open\",\"i\":%d,\"src\":\"%s\",\"kind\":\"iter\"", i, ARG(2));
		} else if (!strcmp(op, "it_range")) {
			struct bytes k0 = parse_bytes(ARG(3)), k1 = parse_bytes(ARG(4));
			sl->it = mtbl_source_get_range(src, k0.p, k0.n, k1.p, k1.n);
			sb_printf(&s, "{\"e\":\"Open\",\"i\":%d,\"src\":\"%s\",\"kind\":\"range\",\"k0\":", i, ARG(2));
			sb_hex(&s, k0.p, k0.n); sb_printf(&s, ",\"k1\":"); sb_hex(&s, k1.p, k1.n);
			/* the caller's buffers need not outlive the call */
			memset(k0.p, 0xEE, k0.n); memset(k1.p, 0xEE, k1.n);
			free(k0.p); free(k1.p);
		} else {
			struct bytes k0 = parse_bytes(ARG(3));
			if (!strcmp(op, "it_get")) sl->it = mtbl_source_get(src, k0.p, k0.n);
			else sl->it = mtbl_source_get_prefix(src, k0.p, k0.n);
			sb_printf(&s, "{\"e\":\"Open\",\"i\":%d,\"src\":\"%s\",\"kind\":\"%s\",\"k0\":", i, ARG(2), op[3] == 'g' ? "get" : "prefix");
			sb_hex(&s, k0.p, k0.n);
			memset(k0.p, 0xEE, k0.n);
			free(k0.p);
		}
		sb_printf(&s, ",\"null\":%s}", sl->it ? "false" : "true");
	} else if (!strcmp(op, "it_next")) {
		int i = IARG(1);
		long reps = nt > 2 ? IARG(2) : 1;
		for (long q = 0; q < reps; q++) {
			struct itslot *sl = &iters[i];
			const uint8_t *k = NULL, *v = NULL; size_t kn = 0, vn = 0;
			sb_printf(&s, "{\"e\":\"Next\",\"i\":%d", i);
			check_intact(sl, &s);
			mtbl_res r = mtbl_iter_next(sl->it, &k, &kn, &v, &vn);
			if (r == mtbl_res_success) {
				sb_printf(&s, ",\"ok\":true,\"k\":"); sb_hex(&s, k, kn);
				sb_printf(&s, ",\"v\":"); sb_val(&s, v, vn);
				sb_printf(&s, ",\"vn\":%zu}", vn);
				remember(sl, k, kn, v, vn);
			} else {
				sb_printf(&s, ",\"ok\":false}");
			}
			sb_emit(&s);
		}
		return;
	} else if (!strcmp(op, "it_drain")) {
		/* it_drain I : next until failure, one event per call, plus one more call after the failure */
		int i = IARG(1);
		struct itslot *sl = &iters[i];
		int fails = 0;
		while (fails < 2) {
			const uint8_t *k = NULL, *v = NULL; size_t kn = 0, vn = 0;
			sb_printf(&s, "{\"e\":\"Next\",\"i\":%d", i);
			check_intact(sl, &s);
			mtbl_res r = mtbl_iter_next(sl->it, &k, &kn, &v, &vn);
			if (r == mtbl_res_success) {
				sb_printf(&s, ",\"ok\":true,\"k\":"); sb_hex(&s, k, kn);
				sb_printf(&s, ",\"v\":"); sb_val(&s, v, vn);
				sb_printf(&s, ",\"vn\":%zu}", vn);
				remember(sl, k, kn, v, vn);
			} else {
				sb_printf(&s, ",\"ok\":false}");
				fails++;
			}
			sb_emit(&s);
		}
		return;
	} else if (!strcmp(op, "it_seek")) {
		int i = IARG(1);
		struct itslot *sl = &iters[i];
		struct bytes k = parse_bytes(ARG(2));
		sb_printf(&s, "{\"e\":\"Seek\",\"i\":%d,\"k\":", i); sb_hex(&s, k.p, k.n);
		check_intact(sl, &s);
		/* seek targets live in one buffer that the caller reuses for every seek on every iterator (same address, new contents;
		 * overwritten as soon as the call has returned): the library has to take the bytes, not the address */
		static uint8_t seekbuf[1 << 16];
		const uint8_t *target = k.p;
		if (k.n <= sizeof seekbuf) { memcpy(seekbuf, k.p, k.n); target = seekbuf; }
		mtbl_res r = mtbl_iter_seek(sl->it, target, k.n);
		sb_printf(&s, ",\"ok\":%s}", r == mtbl_res_success ? "true" : "false");
		memset(seekbuf, 0xEE, k.n <= sizeof seekbuf ? k.n : 0);
		memset(k.p, 0xEE, k.n);
		free(k.p);
	} else if (!strcmp(op, "null_destroys")) {
		/* every destroy function on a handle that holds no object, twice (a destroy function clears the handle): documented no-ops */
		for (int rep = 0; rep < 2; rep++) {
			struct mtbl_iter *a = NULL; mtbl_iter_destroy(&a);
			struct mtbl_reader *b = NULL; mtbl_reader_destroy(&b);
			struct mtbl_reader_options *c = NULL; mtbl_reader_options_destroy(&c);
			struct mtbl_writer *d = NULL; mtbl_writer_destroy(&d);
			struct mtbl_writer_options *e = NULL; mtbl_writer_options_destroy(&e);
			struct mtbl_merger *f = NULL; mtbl_merger_destroy(&f);
			struct mtbl_merger_options *g = NULL; mtbl_merger_options_destroy(&g);
			struct mtbl_sorter *h = NULL; mtbl_sorter_destroy(&h);
			struct mtbl_sorter_options *i2 = NULL; mtbl_sorter_options_destroy(&i2);
			struct mtbl_fileset *j = NULL; mtbl_fileset_destroy(&j);
			struct mtbl_fileset_options *k = NULL; mtbl_fileset_options_destroy(&k);
			struct mtbl_source *l = NULL; mtbl_source_destroy(&l);
			struct mtbl_threadpool *m = NULL; mtbl_threadpool_destroy(&m);
			/* and option objects created and destroyed untouched, the handle cleared by the call */
			struct mtbl_reader_options *ro = mtbl_reader_options_init(); mtbl_reader_options_destroy(&ro); mtbl_reader_options_destroy(&ro);
			struct mtbl_writer_options *wo = mtbl_writer_options_init(); mtbl_writer_options_destroy(&wo); mtbl_writer_options_destroy(&wo);
			struct mtbl_merger_options *mo = mtbl_merger_options_init(); mtbl_merger_options_destroy(&mo); mtbl_merger_options_destroy(&mo);
			struct mtbl_sorter_options *so = mtbl_sorter_options_init(); mtbl_sorter_options_destroy(&so); mtbl_sorter_options_destroy(&so);
			struct mtbl_fileset_options *fo = mtbl_fileset_options_init(); mtbl_fileset_options_destroy(&fo); mtbl_fileset_options_destroy(&fo);
			if (ro || wo || mo || so || fo) { sb_printf(&s, "{\"e\":\"BadClosure\",\"fn\":\"destroy did not clear the handle\"}"); sb_emit(&s); }
		}
		sb_printf(&s, "{\"e\":\"Note\",\"t\":\"null_destroys\"}");
	} else if (!strcmp(op, "it_destroy")) {
		int i = IARG(1);
		struct itslot *sl = &iters[i];
		sb_printf(&s, "{\"e\":\"Close\",\"i\":%d", i);
		check_intact(sl, &s);
		mtbl_iter_destroy(&sl->it);
		sl->used = false;
		sb_printf(&s, "}");
	} else if (!strcmp(op, "m_init")) {
		/* m_init M mergemode failtok dupsort */
		int m = IARG(1);
		struct mtbl_merger_options *o = mtbl_merger_options_init();
		int mcid = -1;
		if (IARG(2)) { mcid = n_mclos; mtbl_merger_options_set_merge_func(o, merge_bag, new_mclos((int)IARG(2), (int)IARG(3))); }
		if (IARG(4)) mtbl_merger_options_set_dupsort_func(o, dupsort_bytes, &the_dupclos);
		mergers[m] = mtbl_merger_init(o);
		mtbl_merger_options_destroy(&o);
		sb_printf(&s, "{\"e\":\"MInit\",\"m\":%d,\"merge\":%ld,\"failtok\":%ld,\"dupsort\":%ld,\"mc\":%d}", m, IARG(2), IARG(3), IARG(4), mcid);
	} else if (!strcmp(op, "m_add")) {
		int m = IARG(1);
		mtbl_merger_add_source(mergers[m], get_source(ARG(2)));
		sb_printf(&s, "{\"e\":\"MAdd\",\"m\":%d,\"src\":\"%s\"}", m, ARG(2));
	} else if (!strcmp(op, "m_destroy")) {
		int m = IARG(1);
		mtbl_merger_destroy(&mergers[m]);
		sb_printf(&s, "{\"e\":\"MDestroy\",\"m\":%d}", m);
	} else if (!strcmp(op, "src_write")) {
		const struct mtbl_source *src = get_source(ARG(1));
		int w = IARG(2);
		mtbl_res r = mtbl_source_write(src, writers[w]);
		sb_printf(&s, "{\"e\":\"SrcWrite\",\"src\":\"%s\",\"w\":%d,\"ok\":%s}", ARG(1), w, r == mtbl_res_success ? "true" : "false");
	} else if (!strcmp(op, "u_init")) {
		int u = IARG(1);
		memset(&usrcs[u], 0, sizeof usrcs[u]);
		usrcs[u].src = mtbl_source_init(u_iter, u_get, u_prefix, u_range, NULL, &usrcs[u]);
		sb_printf(&s, "{\"e\":\"UInit\",\"u\":%d}", u);
	} else if (!strcmp(op, "u_add")) {
		int u = IARG(1);
		struct usrc *us = &usrcs[u];
		if (us->n == us->cap) { us->cap = us->cap * 2 + 8; us->e = realloc(us->e, us->cap * sizeof(*us->e)); }
		us->e[us->n].k = parse_bytes(ARG(2));
		us->e[us->n].v = parse_bytes(ARG(3));
		sb_printf(&s, "{\"e\":\"UAdd\",\"u\":%d,\"k\":", u); sb_hex(&s, us->e[us->n].k.p, us->e[us->n].k.n);
		sb_printf(&s, ",\"v\":"); sb_val(&s, us->e[us->n].v.p, us->e[us->n].v.n);
		sb_printf(&s, "}");
		us->n++;
	} else if (!strcmp(op, "u_destroy")) {
		int u = IARG(1);
		struct usrc *us = &usrcs[u];
		for (size_t i = 0; i < us->n; i++) { free(us->e[i].k.p); free(us->e[i].v.p); }
		free(us->e);
		mtbl_source_destroy(&us->src);
		memset(us, 0, sizeof *us);
		sb_printf(&s, "{\"e\":\"UDestroy\",\"u\":%d}", u);
	} else if (!strcmp(op, "s_init")) {
		/* s_init S maxmem tmpdir mergemode failtok pool */
		int si = IARG(1);
		struct mtbl_sorter_options *o = mtbl_sorter_options_init();
		if (strcmp(ARG(2), "default")) mtbl_sorter_options_set_max_memory(o, (size_t)strtoull(ARG(2), NULL, 10));
		if (strcmp(ARG(3), "default")) mtbl_sorter_options_set_temp_dir(o, ARG(3));
		if (IARG(4)) mtbl_sorter_options_set_merge_func(o, merge_bag, new_mclos((int)IARG(4), (int)IARG(5)));
		if (IARG(6) >= 0) mtbl_sorter_options_set_threadpool(o, pools[IARG(6)]);
		sorters[si] = mtbl_sorter_init(o);
		mtbl_sorter_options_destroy(&o);
		__atomic_store_n(&n_sorter_adds, 0, __ATOMIC_SEQ_CST);
		sb_printf(&s, "{\"e\":\"SInit\",\"s\":%d,\"maxmem\":\"%s\",\"tmpdir\":\"%s\",\"merge\":%ld,\"failtok\":%ld,\"pool\":%ld}", si, ARG(2), ARG(3), IARG(4), IARG(5), IARG(6));
	} else if (!strcmp(op, "s_add")) {
		int si = IARG(1);
		struct bytes k = parse_bytes(ARG(2)), v = parse_bytes(ARG(3));
		__atomic_add_fetch(&n_sorter_adds, 1, __ATOMIC_SEQ_CST);
		mtbl_res r = mtbl_sorter_add(sorters[si], k.p, k.n, v.p, v.n);
		sb_printf(&s, "{\"e\":\"SAdd\",\"s\":%d,\"k\":", si); sb_hex(&s, k.p, k.n);
		sb_printf(&s, ",\"v\":"); sb_val(&s, v.p, v.n);
		sb_printf(&s, ",\"kn\":%zu,\"vn\":%zu,\"ok\":%s}", k.n, v.n, r == mtbl_res_success ? "true" : "false");
		memset(k.p, 0xEE, k.n); memset(v.p, 0xEE, v.n);
		free(k.p); free(v.p);
	} else if (!strcmp(op, "s_iter")) {
		int si = IARG(1), i = IARG(2);
		struct itslot *sl = &iters[i];
		memset(sl, 0, sizeof(*sl));
		sl->used = true;
		sl->it = mtbl_sorter_iter(sorters[si]);
		sb_printf(&s, "{\"e\":\"SIter\",\"s\":%d,\"i\":%d,\"null\":%s}", si, i, sl->it ? "false" : "true");
	} else if (!strcmp(op, "s_write")) {
		int si = IARG(1), w = IARG(2);
		mtbl_res r = mtbl_sorter_write(sorters[si], writers[w]);
		sb_printf(&s, "{\"e\":\"SWrite\",\"s\":%d,\"w\":%d,\"ok\":%s}", si, w, r == mtbl_res_success ? "true" : "false");
	} else if (!strcmp(op, "s_destroy")) {
		int si = IARG(1);
		mtbl_sorter_destroy(&sorters[si]);
		sorters[si] = NULL;
		sb_printf(&s, "{\"e\":\"SDestroy\",\"s\":%d}", si);
	} else if (!strcmp(op, "fs_init") || !strcmp(op, "fs_dup")) {
		/* fs_init F setfile interval mergemode dupsort fnfilter rdfilter
		 * fs_dup  F orig    interval mergemode dupsort fnfilter rdfilter */
		int f = IARG(1);
		struct mtbl_fileset_options *o = mtbl_fileset_options_init();
		if (strcmp(ARG(3), "default")) {
			uint32_t iv = !strcmp(ARG(3), "never") ? MTBL_FILESET_RELOAD_INTERVAL_NEVER : (uint32_t)strtoul(ARG(3), NULL, 10);
			mtbl_fileset_options_set_reload_interval(o, iv);
		}
		fs_mcid[f] = -1;
		if (IARG(4)) { fs_mcid[f] = n_mclos; mtbl_fileset_options_set_merge_func(o, merge_bag, new_mclos((int)IARG(4), -1)); }
		if (IARG(5)) mtbl_fileset_options_set_dupsort_func(o, dupsort_bytes, &the_dupclos);
		if (strcmp(ARG(6), "-")) {
			struct fnfilter *ff = &fnfilters[n_fnfilters++];
			snprintf(ff->chars, sizeof ff->chars, "%s", ARG(6));
			mtbl_fileset_options_set_filename_filter_func(o, fname_filter, ff);
		}
		if (IARG(7)) mtbl_fileset_options_set_reader_filter_func(o, reader_filter, (void *)IARG(7));
		if (!strcmp(op, "fs_init")) {
			filesets[f] = mtbl_fileset_init(ARG(2), o);
			sb_printf(&s, "{\"e\":\"FsInit\",\"f\":%d,\"setfile\":\"%s\"", f, ARG(2));
		} else {
			filesets[f] = mtbl_fileset_dup(filesets[IARG(2)], o);
			sb_printf(&s, "{\"e\":\"FsDup\",\"f\":%d,\"orig\":%ld", f, IARG(2));
		}
		mtbl_fileset_options_destroy(&o);
		sb_printf(&s, ",\"interval\":\"%s\",\"merge\":%ld,\"dupsort\":%ld,\"fnfilter\":\"%s\",\"rdfilter\":%ld}", ARG(3), IARG(4), IARG(5), ARG(6), IARG(7));
	} else if (!strcmp(op, "fs_reload")) {
		int f = IARG(1);
		mtbl_fileset_reload(filesets[f]);
		sb_printf(&s, "{\"e\":\"FsReload\",\"f\":%d}", f);
	} else if (!strcmp(op, "fs_reload_now")) {
		int f = IARG(1);
		mtbl_fileset_reload_now(filesets[f]);
		sb_printf(&s, "{\"e\":\"FsReloadNow\",\"f\":%d}", f);
	} else if (!strcmp(op, "fs_partition")) {
		/* fs_partition F chars M1 M2: files whose name starts with one of chars go to merger M1, the others to M2 */
		int f = IARG(1), m1 = IARG(3), m2 = IARG(4);
		struct fnfilter *ff = &fnfilters[n_fnfilters++];
		snprintf(ff->chars, sizeof ff->chars, "%s", ARG(2));
		mtbl_fileset_partition(filesets[f], fname_filter, ff, &mergers[m1], &mergers[m2]);
		sb_printf(&s, "{\"e\":\"FsPartition\",\"f\":%d,\"chars\":", f);
		sb_hex(&s, (const uint8_t *)ff->chars, strlen(ff->chars));
		sb_printf(&s, ",\"m1\":%d,\"m2\":%d,\"mc\":%d}", m1, m2, fs_mcid[f]);
	} else if (!strcmp(op, "fs_destroy")) {
		int f = IARG(1);
		mtbl_fileset_destroy(&filesets[f]);
		sb_printf(&s, "{\"e\":\"FsDestroy\",\"f\":%d}", f);
	} else if (!strcmp(op, "clockbase")) {
		clock_base = atol(ARG(1));
		return;
	} else if (!strcmp(op, "clock")) {
		clock_secs = IARG(1);
		sb_printf(&s, "{\"e\":\"Clock\",\"t\":%ld}", clock_secs);
	} else if (!strcmp(op, "setfile")) {
		/* setfile path mtime name... : rewrite in place (same inode), then stamp mtime */
		FILE *fp = fopen(ARG(1), "w");
		assert(fp);
		sb_printf(&s, "{\"e\":\"SetFile\",\"path\":\"%s\",\"mtime\":%ld,\"names\":[", ARG(1), IARG(2));
		for (int i = 3; i < nt; i++) {
			fprintf(fp, "%s\n", tok[i]);
			sb_printf(&s, "%s\"%s\"", i > 3 ? "," : "", tok[i]);
		}
		fclose(fp);
		struct timespec ts[2] = { { IARG(2), 0 }, { IARG(2), 0 } };
		int r = utimensat(AT_FDCWD, ARG(1), ts, 0);
		assert(r == 0);
		sb_printf(&s, "]}");
	} else if (!strcmp(op, "mkfile")) {
		struct bytes b = parse_bytes(ARG(2));
		int fd = open(ARG(1), O_WRONLY | O_CREAT | O_TRUNC, 0644);
		assert(fd >= 0);
		ssize_t wr = b.n ? write(fd, b.p, b.n) : 0;
		assert(wr == (ssize_t)b.n);
		close(fd);
		sb_printf(&s, "{\"e\":\"MkFile\",\"path\":\"%s\",\"n\":%zu,\"h\":\"%016llx\"}", ARG(1), b.n, (unsigned long long)fnv64(b.p, b.n));
		free(b.p);
	} else if (!strcmp(op, "hash")) {
		FILE *fp = fopen(ARG(1), "rb");
		uint64_t h = 1469598103934665603ULL; long n = 0; int c;
		if (fp) { while ((c = fgetc(fp)) != EOF) { h ^= (uint8_t)c; h *= 1099511628211ULL; n++; } fclose(fp); }
		sb_printf(&s, "{\"e\":\"FileHash\",\"path\":\"%s\",\"n\":%ld,\"h\":\"%016llx\",\"exists\":%s}", ARG(1), n, (unsigned long long)h, fp ? "true" : "false");
	} else if (!strcmp(op, "absent")) {
		/* absent path: declares that nothing exists at path (checked) */
		struct stat sb;
		sb_printf(&s, "{\"e\":\"Absent\",\"path\":\"%s\",\"exists\":%s}", ARG(1), lstat(ARG(1), &sb) == 0 ? "true" : "false");
	} else if (!strcmp(op, "symlink")) {
		int r = symlink(ARG(1), ARG(2));
		sb_printf(&s, "{\"e\":\"Symlink\",\"target\":\"%s\",\"path\":\"%s\",\"ok\":%s}", ARG(1), ARG(2), r == 0 ? "true" : "false");
	} else if (!strcmp(op, "mkdir")) {
		int r = mkdir(ARG(1), 0755);
		sb_printf(&s, "{\"e\":\"Mkdir\",\"path\":\"%s\",\"ok\":%s}", ARG(1), r == 0 ? "true" : "false");
	} else if (!strcmp(op, "rm")) {
		int r = unlink(ARG(1));
		sb_printf(&s, "{\"e\":\"Rm\",\"path\":\"%s\",\"ok\":%s}", ARG(1), r == 0 ? "true" : "false");
	} else if (!strcmp(op, "cp")) {
		char cmd[4096];
		snprintf(cmd, sizeof cmd, "cp '%s' '%s'", ARG(1), ARG(2));
		int r = system(cmd);
		sb_printf(&s, "{\"e\":\"Cp\",\"from\":\"%s\",\"to\":\"%s\",\"ok\":%s}", ARG(1), ARG(2), r == 0 ? "true" : "false");
	} else if (!strcmp(op, "scratch")) {
		snprintf(scratch_dir, sizeof scratch_dir, "%s", ARG(1));
		return;
	} else if (!strcmp(op, "obs")) {
		/* obs [tmpdir] : process-level observation */
		int fds = count_fds(), maps = count_maps(scratch_dir), thr = count_threads();
		int tmpn = nt > 1 ? count_dir(ARG(1)) : -1;
		sb_printf(&s, "{\"e\":\"Obs\",\"fds\":%d,\"maps\":%d,\"threads\":%d,\"tmpfiles\":%d}", fds, maps, thr, tmpn);
	} else if (!strcmp(op, "leakcheck")) {
		int leaks = -1;
#if HAVE_LSAN
		leaks = __lsan_do_recoverable_leak_check();
#endif
		sb_printf(&s, "{\"e\":\"LeakCheck\",\"leaks\":%d}", leaks);
	} else if (!strcmp(op, "wfault")) {
		/* wfault call kind n */
		const char *k = ARG(2);
		int kind = !strcmp(k, "partial") ? 1 : !strcmp(k, "eintr") ? 2 : !strcmp(k, "zero") ? 3 : !strcmp(k, "error") ? 4 : 0;
		wfaults[n_wfaults++] = (struct wfault){ IARG(1), kind, nt > 3 ? IARG(3) : 0 };
		return;
	} else if (!strcmp(op, "wopts")) {
		/* wopts log allone */
		write_log = (int)IARG(1);
		write_allone = (int)IARG(2);
		return;
	} else if (!strcmp(op, "wreset")) {
		n_wfaults = 0;
		__atomic_store_n(&write_calls, 0, __ATOMIC_SEQ_CST);
		return;
	} else if (!strcmp(op, "guard")) {
		guard_mode = (int)IARG(1);
		return;
	} else if (!strcmp(op, "mergelog")) {
		merge_log = (int)IARG(1);
		return;
	} else if (!strcmp(op, "setenv")) {
		/* setenv NAME VALUE | setenv NAME -   (documented environment knobs of the library, e.g. MTBL_READER_MADVISE_RANDOM) */
		if (nt > 2 && strcmp(ARG(2), "-")) setenv(ARG(1), ARG(2), 1); else unsetenv(ARG(1));
		return;
	} else if (!strcmp(op, "sched_dec")) {
		return;		/* consumed by run_exec before the scheduler starts */
	} else if (!strcmp(op, "note")) {
		sb_printf(&s, "{\"e\":\"Note\",\"t\":\"%s\"}", nt > 1 ? ARG(1) : "");
	} else {
		fprintf(stderr, "mtbl_drv: unknown op %s\n", op);
		exit(2);
	}
	sb_emit(&s);
}

static void on_abort(int sig) {
	/* every event is already written; just die with the signal */
	signal(sig, SIG_DFL);
	raise(sig);
}

#ifdef VS_SCHED
static void drv_on_deadlock(void) {
	struct sbuf s = {0};
	sb_printf(&s, "{\"e\":\"Deadlock\"}");
	sb_emit(&s);
}
#endif

static void run_exec(char **lines, size_t n, long xno) {
#ifdef VS_SCHED
	/* every execution runs under the deterministic scheduler: seed, spurious wake-up percentage, mode and number of
	 * forced preemptions come from the environment; the execution number is added to the seed */
	unsigned long seed = strtoul(getenv("VS_SEED") ? getenv("VS_SEED") : "1", NULL, 10) + (unsigned long)xno;
	int spur = atoi(getenv("VS_SPUR") ? getenv("VS_SPUR") : "0");
	int mode = atoi(getenv("VS_MODE") ? getenv("VS_MODE") : "0");
	int npre = atoi(getenv("VS_NPRE") ? getenv("VS_NPRE") : "0");
	vs_on_deadlock = drv_on_deadlock;
	vs_config(mode, 1, npre, 400, seed);
	bool systematic = false;
	if (n > 0 && !strncmp(lines[0], "sched_dec ", 10)) {
		/* sched_dec <policy> [step:choice ...]: no preemption except at the given steps (systematic exploration) */
		long st[8]; int ch[8]; int nd = 0, policy = 0, off = 0;
		const char *q = lines[0] + 10;
		if (sscanf(q, "%d%n", &policy, &off) == 1) q += off;
		while (nd < 8 && sscanf(q, " %ld:%d%n", &st[nd], &ch[nd], &off) == 2) { q += off; nd++; }
		vs_decisions(nd, st, ch, policy);
		systematic = true;
	}
	vs_begin(seed, systematic ? 0 : spur);
#else
	(void)xno;
#endif
	for (size_t i = 0; i < n; i++) run_line(lines[i]);
#ifdef VS_SCHED
	int steps = vs_end();
	struct sbuf s = {0};
	sb_printf(&s, "{\"e\":\"Sched\",\"steps\":%d,\"maxlive\":%d,\"invalid\":%d}", steps, vs_max_threads_seen, vs_decision_invalid);
	sb_emit(&s);
#endif
}

int main(int argc, char **argv) {
	bool do_fork = false;
	int ai = 1;
	if (ai < argc && !strcmp(argv[ai], "-f")) { do_fork = true; ai++; }
	if (argc - ai < 2) { fprintf(stderr, "usage: mtbl_drv [-f] script log\n"); return 2; }
	FILE *fp = fopen(argv[ai], "r");
	if (!fp) { perror(argv[ai]); return 2; }
	log_fd = open(argv[ai + 1], O_WRONLY | O_CREAT | O_APPEND, 0644);
	if (log_fd < 0) { perror(argv[ai + 1]); return 2; }
	signal(SIGABRT, on_abort);

	char **lines = NULL; size_t nl = 0, cap = 0;
	char *line = NULL; size_t len = 0;
	long xno = 0;
	bool eof = false;
	while (!eof) {
		ssize_t g = getline(&line, &len, fp);
		if (g < 0) eof = true;
		bool sep = eof || !strncmp(line, "---", 3);
		if (!sep) {
			if (nl == cap) { cap = cap * 2 + 64; lines = realloc(lines, cap * sizeof(*lines)); }
			lines[nl++] = strdup(line);
			continue;
		}
		if (nl == 0) continue;
		struct sbuf s = {0};
		sb_printf(&s, "{\"e\":\"Reset\",\"x\":%ld}", xno);
		sb_emit(&s);
		if (do_fork) {
			fflush(NULL);
			pid_t pid = fork();
			if (pid == 0) {
				/* watchdog: an execution that does not end (e.g. a decoder spinning on damaged input) is ended by
				 * SIGALRM and shows as {"e":"Exit","sig":14}; the other executions of the script still run */
				const char *wt = getenv("VS_EXEC_TIMEOUT");
				alarm(wt ? (unsigned)atoi(wt) : 300);
				run_exec(lines, nl, xno);
				_exit(0);
			}
			int st = 0;
			waitpid(pid, &st, 0);
			sb_printf(&s, "{\"e\":\"Exit\",\"x\":%ld,\"code\":%d,\"sig\":%d}", xno,
				  WIFEXITED(st) ? WEXITSTATUS(st) : -1, WIFSIGNALED(st) ? WTERMSIG(st) : 0);
			sb_emit(&s);
		} else {
			run_exec(lines, nl, xno);
		}
		for (size_t i = 0; i < nl; i++) free(lines[i]);
		nl = 0;
		xno++;
	}
	free(lines); free(line);
	fclose(fp);
	return 0;
}
