#define VS_SCHED_IMPL
#include "vs_sched.h"
#include <semaphore.h>
#include <stdio.h>
#include <stdlib.h>
#include <string.h>
#include <unistd.h>
#include <assert.h>
#define MAXT 512
#define MAXO 1024
enum { OP_NONE, OP_START, OP_LOCK, OP_UNLOCK, OP_CW_REL, OP_CW_ACQ, OP_SIGNAL, OP_CREATE, OP_JOIN, OP_MISC };
struct vthr { int used, finished, reaped; pthread_t pt; sem_t go; int op, o1, o2; void *(*fn)(void *); void *arg; void *ret; };
struct vmx { unsigned magic; int id; };
struct vcv { unsigned magic; int id; };
static struct vthr T[MAXT]; static int nT;
static int owner[MAXO]; static int nM;                 /* mutex owner, -1 free */
static unsigned char waiting[MAXO][MAXT]; static int nC;  /* cond waiters */
static __thread int me = -1;
static unsigned long rng; static int sp_pct;
static int vs_mode = 0;      /* 0 uniform random, 1 preemption-bounded: keep the running thread, switch at a few random steps */
static int vs_post = 1;      /* extra preemption point after every unlock */
static long vs_pre[8]; static int vs_npre = 0;   /* steps at which a preemption is forced (mode 1) */
/* mode 2: systematic - run without preemption except at the given steps, where the dec_choice-th other enabled thread is taken;
   when the running thread blocks, the next thread is chosen by a fixed policy (0 lowest id, 1 highest id, 2 round robin) */
static long dec_step[8]; static int dec_choice[8]; static int n_dec = 0; static int vs_policy = 0; int vs_decision_invalid = 0;
/* mode 3: follow a given order of mutex acquisitions (thread, mutex) taken from a TLC behaviour of ThreadPool.tla */
static int lo_t[4096], lo_m[4096]; static int lo_n = 0, lo_pos = 0; int vs_lockorder_drift = 0;
int vs_deadlock; int vs_max_threads_seen; static long steps; void (*vs_on_deadlock)(void);
static FILE *logf;
static unsigned long rnd(void){ rng ^= rng << 13; rng ^= rng >> 7; rng ^= rng << 17; return rng; }
static int lo_ok(int t,int m){ return vs_mode!=3 || lo_pos>=lo_n || (lo_t[lo_pos]==t && lo_m[lo_pos]==m); }
static int enabled(int t){ struct vthr *x=&T[t]; if(!x->used||x->finished) return 0;
  switch(x->op){ case OP_LOCK: return owner[x->o1] < 0 && lo_ok(t,x->o1); case OP_CW_ACQ: return !waiting[x->o1][t] && owner[x->o2] < 0 && lo_ok(t,x->o2);
    case OP_JOIN: return T[x->o1].finished; case OP_NONE: return 0; default: return 1; } }
/* pick next thread to run; called by the thread that is yielding (it has set its op) or exiting */
static int pick(void){ int c[MAXT], n=0; for(int t=0;t<nT;t++) if(enabled(t)) c[n++]=t;
  if(n==0){ return -1; }
  if(vs_mode==3){ if(lo_pos<lo_n) for(int j=0;j<n;j++) if(c[j]==lo_t[lo_pos] && (T[c[j]].op==OP_LOCK||T[c[j]].op==OP_CW_ACQ)) return c[j]; return c[0]; }
  if(vs_mode==2){
    if(me>=0 && enabled(me)){
      for(int i=0;i<n_dec;i++) if(dec_step[i]==steps){ int k=dec_choice[i], seen=0; for(int j=0;j<n;j++) if(c[j]!=me){ if(seen==k) return c[j]; seen++; } vs_decision_invalid=1; }
      return me; }
    if(vs_policy==0) return c[0];
    if(vs_policy==1) return c[n-1];
    for(int j=0;j<n;j++) if(c[j]>me) return c[j];
    return c[0]; }
  if(vs_mode==1 && me>=0 && enabled(me)){ int forced=0; for(int i=0;i<vs_npre;i++) if(vs_pre[i]==steps) forced=1;
    if(!forced) return me;
    if(n>1){ int k; do { k=c[rnd()%n]; } while(k==me); return k; } }
  return c[rnd()%n]; }
static void maybe_spurious(void){ if(sp_pct<=0) return; for(int c=0;c<nC;c++) for(int t=0;t<nT;t++) if(waiting[c][t] && (int)(rnd()%100)<sp_pct){ waiting[c][t]=0; if(logf) fprintf(logf,"{\"e\":\"spurious\",\"t\":%d,\"c\":%d}\n",t,c);} }
static void yield_op(int op,int o1,int o2){ struct vthr *x=&T[me]; x->op=op; x->o1=o1; x->o2=o2; steps++;
  maybe_spurious();
  int nx=pick();
  if(nx<0){ int all=1; for(int t=0;t<nT;t++) if(T[t].used&&!T[t].finished) all=0; if(!all){ vs_deadlock=1; if(vs_mode==3){ fprintf(stderr,"VS: lock order of the model cannot be followed at position %d of %d\n",lo_pos,lo_n); _exit(4);} fprintf(stderr,"VS: DEADLOCK after %ld steps\n",steps); if(vs_on_deadlock) vs_on_deadlock(); for(int t=0;t<nT;t++) if(T[t].used&&!T[t].finished) fprintf(stderr,"  thread %d blocked on op %d obj %d/%d\n",t,T[t].op,T[t].o1,T[t].o2); _exit(3);} return; }
  if(nx!=me){ sem_post(&T[nx].go); sem_wait(&x->go); }
  if(logf) fprintf(logf,"{\"e\":\"step\",\"t\":%d,\"op\":%d,\"o1\":%d,\"o2\":%d}\n",me,op,o1,o2);
  x->op=OP_NONE; }
static void *tramp(void *a){ int id=(int)(long)a; me=id; sem_wait(&T[id].go); if(logf) fprintf(logf,"{\"e\":\"step\",\"t\":%d,\"op\":%d}\n",me,OP_START); T[id].op=OP_NONE;
  T[id].ret=T[id].fn(T[id].arg);
  if(logf) fprintf(logf,"{\"e\":\"exit\",\"t\":%d}\n",me);
  T[id].finished=1; T[id].op=OP_NONE; int nx=pick(); if(nx>=0) sem_post(&T[nx].go); else { int all=1; for(int t=0;t<nT;t++) if(T[t].used&&!T[t].finished) all=0; if(!all){ vs_deadlock=1; if(vs_mode==3){ fprintf(stderr,"VS: lock order of the model cannot be followed at position %d of %d (thread exit)\n",lo_pos,lo_n); _exit(4);} fprintf(stderr,"VS: DEADLOCK at thread exit\n"); if(vs_on_deadlock) vs_on_deadlock(); _exit(3);} }
  return NULL; }
void vs_config(int mode,int post,int npre,long horizon,unsigned long seed){ vs_mode=mode; vs_post=post; vs_npre=npre>8?8:npre; unsigned long x=seed*6364136223846793005UL+1442695040888963407UL; for(int i=0;i<vs_npre;i++){ x^=x<<13; x^=x>>7; x^=x<<17; vs_pre[i]=(long)(x%(unsigned long)(horizon>0?horizon:1)); } }
void vs_decisions(int n,const long *st,const int *ch,int policy){ vs_mode=2; vs_post=1; n_dec=n>8?8:n; for(int i=0;i<n_dec;i++){ dec_step[i]=st[i]; dec_choice[i]=ch[i]; } vs_policy=policy; vs_decision_invalid=0; }
void vs_lockorder(int n,const int *t,const int *m){ vs_mode=3; vs_post=1; lo_n=n>4096?4096:n; lo_pos=0; for(int i=0;i<lo_n;i++){ lo_t[i]=t[i]; lo_m[i]=m[i]; } }
int vs_lockorder_left(void){ return lo_n-lo_pos; }
void vs_begin(unsigned long seed,int spurious_pct){ memset(T,0,sizeof T); nT=1; nM=nC=0; memset(waiting,0,sizeof waiting); T[0].used=1; sem_init(&T[0].go,0,0); me=0; rng=seed*2654435761UL+88172645463325252UL; sp_pct=spurious_pct; steps=0; vs_deadlock=0; vs_max_threads_seen=0; const char *lp=getenv("VS_LOG"); logf= lp? fopen(lp,"a"):NULL; if(logf) fprintf(logf,"{\"e\":\"begin\"}\n"); }
int vs_end(void){ if(logf){fclose(logf);logf=NULL;} for(int t=1;t<nT;t++) assert(T[t].finished); return (int)steps; }
int vs_mutex_init(pthread_mutex_t *m,const pthread_mutexattr_t *a){ (void)a; struct vmx *x=(struct vmx*)m; x->magic=0x564d5831; x->id=nM; assert(nM<MAXO); owner[nM++]=-1; return 0; }
int vs_mutex_destroy(pthread_mutex_t *m){ struct vmx *x=(struct vmx*)m; assert(x->magic==0x564d5831); assert(owner[x->id]<0); x->magic=0; return 0; }
int vs_mutex_lock(pthread_mutex_t *m){ struct vmx *x=(struct vmx*)m; assert(x->magic==0x564d5831); yield_op(OP_LOCK,x->id,0); assert(owner[x->id]<0); owner[x->id]=me; if(vs_mode==3&&lo_pos<lo_n) lo_pos++; return 0; }
int vs_mutex_unlock(pthread_mutex_t *m){ struct vmx *x=(struct vmx*)m; assert(x->magic==0x564d5831); yield_op(OP_UNLOCK,x->id,0); assert(owner[x->id]==me); owner[x->id]=-1;
  if(vs_post) yield_op(OP_MISC,x->id,0);   /* the code after an unlock is a separate step: another thread may run in between */
  return 0; }
int vs_cond_init(pthread_cond_t *c,const pthread_condattr_t *a){ (void)a; struct vcv *x=(struct vcv*)c; x->magic=0x56435631; x->id=nC++; assert(nC<=MAXO); return 0; }
int vs_cond_destroy(pthread_cond_t *c){ struct vcv *x=(struct vcv*)c; assert(x->magic==0x56435631); for(int t=0;t<nT;t++) assert(!waiting[x->id][t]); x->magic=0; return 0; }
int vs_cond_wait(pthread_cond_t *c,pthread_mutex_t *m){ struct vcv *x=(struct vcv*)c; struct vmx *y=(struct vmx*)m; assert(x->magic==0x56435631&&y->magic==0x564d5831);
  yield_op(OP_CW_REL,x->id,y->id); assert(owner[y->id]==me); owner[y->id]=-1; waiting[x->id][me]=1;
  yield_op(OP_CW_ACQ,x->id,y->id); assert(owner[y->id]<0); owner[y->id]=me; if(vs_mode==3&&lo_pos<lo_n) lo_pos++; return 0; }
int vs_cond_signal(pthread_cond_t *c){ struct vcv *x=(struct vcv*)c; assert(x->magic==0x56435631); yield_op(OP_SIGNAL,x->id,0);
  int w[MAXT],n=0; for(int t=0;t<nT;t++) if(waiting[x->id][t]) w[n++]=t; if(n){ int t=(vs_mode==2)? w[vs_policy==1? n-1:0] : w[rnd()%n]; waiting[x->id][t]=0; if(logf) fprintf(logf,"{\"e\":\"wake\",\"c\":%d,\"t\":%d}\n",x->id,t); } return 0; }
int vs_cond_broadcast(pthread_cond_t *c){ struct vcv *x=(struct vcv*)c; assert(x->magic==0x56435631); yield_op(OP_SIGNAL,x->id,0); for(int t=0;t<nT;t++) if(waiting[x->id][t]){ waiting[x->id][t]=0; if(logf) fprintf(logf,"{\"e\":\"wake\",\"c\":%d,\"t\":%d}\n",x->id,t); } return 0; }
int vs_mutex_trylock(pthread_mutex_t *m){ struct vmx *x=(struct vmx*)m; assert(x->magic==0x564d5831); yield_op(OP_MISC,x->id,0); if(owner[x->id]>=0) return 16 /* EBUSY */; owner[x->id]=me; return 0; }
int vs_self(void){ return me; }
int vs_create(pthread_t *pt,const pthread_attr_t *a,void *(*fn)(void*),void *arg){ (void)a; yield_op(OP_CREATE,0,0); assert(nT<MAXT); int id=nT++; struct vthr *x=&T[id]; memset(x,0,sizeof *x); x->used=1; x->fn=fn; x->arg=arg; x->op=OP_START; sem_init(&x->go,0,0);
  int live=0; for(int t=1;t<nT;t++) if(T[t].used&&!T[t].finished) live++; if(live>vs_max_threads_seen) vs_max_threads_seen=live;
  int r=pthread_create(&x->pt,NULL,tramp,(void*)(long)id); assert(r==0); memcpy(pt,&id,sizeof id);
  if(vs_post) yield_op(OP_MISC,0,0);   /* the code after a create is a separate step: the new thread may run before its creator's next statement */
  return 0; }
int vs_join(pthread_t pt,void **ret){ int id; memcpy(&id,&pt,sizeof id); yield_op(OP_JOIN,id,0); assert(T[id].finished); pthread_join(T[id].pt,NULL); T[id].reaped=1; if(ret)*ret=T[id].ret; return 0; }
