/* merge DSO for the mtbl_merge tool (MTBL_MERGE_DSO / MTBL_MERGE_FUNC_PREFIX=vsbag): bag union of 2-byte big-endian tokens, tokens from 0x8000 on cancelling in pairs */
#include <stdint.h>
#include <stdlib.h>
#include <stddef.h>
/* two prefixes: "vsbag" has the optional init / free functions and a merge function that insists on the state its init
 * function returned (a merge call with any other closure reports failure); "vsplain" is the merge function alone */
#include <stdio.h>
struct vsstate { unsigned magic; unsigned long calls; };
void *vsbag_init_func(void);
void vsbag_free_func(void *clos);
void vsbag_func(void *clos, const uint8_t *key, size_t len_key, const uint8_t *v0, size_t n0, const uint8_t *v1, size_t n1, uint8_t **out, size_t *nout);
void vsplain_func(void *clos, const uint8_t *key, size_t len_key, const uint8_t *v0, size_t n0, const uint8_t *v1, size_t n1, uint8_t **out, size_t *nout);
void *vsbag_init_func(void) { struct vsstate *st = calloc(1, sizeof *st); st->magic = 0x56534247; return st; }
void vsbag_free_func(void *clos) { struct vsstate *st = clos; if (st == NULL || st->magic != 0x56534247) { fprintf(stderr, "vsbag: free called with a foreign closure\n"); return; } st->magic = 0; free(st); }
void vsbag_func(void *clos, const uint8_t *key, size_t len_key, const uint8_t *v0, size_t n0, const uint8_t *v1, size_t n1, uint8_t **out, size_t *nout)
{
	struct vsstate *st = clos;
	if (st == NULL || st->magic != 0x56534247) { fprintf(stderr, "vsbag: merge called without the state returned by the init function\n"); *out = NULL; *nout = 0; return; }
	st->calls++;
	vsplain_func(NULL, key, len_key, v0, n0, v1, n1, out, nout);
}
void vsplain_func(void *clos, const uint8_t *key, size_t len_key, const uint8_t *v0, size_t n0, const uint8_t *v1, size_t n1, uint8_t **out, size_t *nout)
{
	(void)clos; (void)key; (void)len_key;
	uint8_t *r = malloc(n0 + n1 + 1);
	size_t i = 0, j = 0, k = 0;
	while (i + 1 < n0 || j + 1 < n1) {
		unsigned a = i + 1 < n0 ? (unsigned)(v0[i] << 8 | v0[i + 1]) : 0x10000;
		unsigned b = j + 1 < n1 ? (unsigned)(v1[j] << 8 | v1[j + 1]) : 0x10000;
		unsigned t;
		if (a <= b) { t = a; i += 2; } else { t = b; j += 2; }
		if (t >= 0x8000 && k >= 2 && r[k - 2] == (uint8_t)(t >> 8) && r[k - 1] == (uint8_t)t) { k -= 2; continue; }      /* as in mtbl_drv.c */
		r[k++] = (uint8_t)(t >> 8); r[k++] = (uint8_t)t;
	}
	*out = r; *nout = k;
}
