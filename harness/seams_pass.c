/* pass-through definitions of the seam functions for harness programs that do not steer them */
#define _GNU_SOURCE
#include <sys/mman.h>
#include <sys/types.h>
#include <stdlib.h>
#include <time.h>
#include <unistd.h>
ssize_t vs_write(int fd, const void *buf, size_t n) { return write(fd, buf, n); }
int vs_clock_gettime(clockid_t id, struct timespec *ts) { return clock_gettime(id, ts); }
int vs_mkstemp(char *tmpl) { return mkstemp(tmpl); }
void *vs_mmap(void *a, size_t l, int p, int f, int fd, off_t o) { return mmap(a, l, p, f, fd, o); }
int vs_munmap(void *a, size_t l) { return munmap(a, l); }
int vs_close(int fd) { return close(fd); }
#include <sys/uio.h>
ssize_t vs_writev(int fd, const struct iovec *iov, int n) { return writev(fd, iov, n); }
ssize_t vs_pwrite(int fd, const void *buf, size_t n, off_t o) { return pwrite(fd, buf, n, o); }
