#ifndef VS_SCHED_H
#define VS_SCHED_H
#include <pthread.h>
int vs_mutex_init(pthread_mutex_t *, const pthread_mutexattr_t *);
int vs_mutex_lock(pthread_mutex_t *);
int vs_mutex_unlock(pthread_mutex_t *);
int vs_mutex_destroy(pthread_mutex_t *);
int vs_cond_init(pthread_cond_t *, const pthread_condattr_t *);
int vs_cond_wait(pthread_cond_t *, pthread_mutex_t *);
int vs_cond_signal(pthread_cond_t *);
int vs_cond_broadcast(pthread_cond_t *);
int vs_mutex_trylock(pthread_mutex_t *);
int vs_cond_destroy(pthread_cond_t *);
int vs_create(pthread_t *, const pthread_attr_t *, void *(*)(void *), void *);
int vs_join(pthread_t, void **);
#ifndef VS_SCHED_IMPL
#define pthread_mutex_init vs_mutex_init
#define pthread_mutex_lock vs_mutex_lock
#define pthread_mutex_unlock vs_mutex_unlock
#define pthread_mutex_destroy vs_mutex_destroy
#define pthread_cond_init vs_cond_init
#define pthread_cond_wait vs_cond_wait
#define pthread_cond_signal vs_cond_signal
#define pthread_cond_broadcast vs_cond_broadcast
#define pthread_mutex_trylock vs_mutex_trylock
#define pthread_cond_destroy vs_cond_destroy
#define pthread_create vs_create
#define pthread_join vs_join
#endif
/* harness API */
void vs_config(int mode, int post_unlock_yield, int npreempt, long horizon, unsigned long seed);
void vs_decisions(int n, const long *steps, const int *choices, int policy);   /* systematic mode: preempt only at these steps */
extern int vs_decision_invalid;
void vs_lockorder(int n, const int *threads, const int *mutexes);   /* follow a model behaviour's order of mutex acquisitions */
int vs_lockorder_left(void);
void vs_begin(unsigned long seed, int spurious_pct);   /* registers calling thread as thread 0 */
int  vs_end(void);                                       /* returns number of scheduling steps */
extern int vs_deadlock;                                  /* set when no thread is enabled */
extern int vs_max_threads_seen;
extern void (*vs_on_deadlock)(void);                    /* called before the process exits with status 3 */
#endif
