/*
 * block_drv - the block builder and the block iterator of mtbl/block_builder.c and mtbl/block.c driven directly
 * (block_iter_prev and block_iter_seek_to_last have no caller inside the library, so no public call reaches them).
 * usage: block_drv <script> <out.ndjson>
 * script lines (byte strings in hex, "-" = empty):
 *   block <restart interval> <reuse> k:v k:v ...   build a block (reuse = 1: block_builder_reset of the previous builder)
 *   targets t t t ...                               seek targets of the following commands
 *   sys                                             every (positioning op; m x next; prev until invalid) on fresh iterators
 *   walk <seed> <len>                               one iterator, random ops
 * One JSON line per call, logged after it returned: what the iterator says (valid, key, value).
 */
#include "mtbl-private.h"
#include <stdio.h>

#define MAXE 64
static FILE *out;
static uint8_t *keys[MAXE], *vals[MAXE]; static size_t lk[MAXE], lv[MAXE]; static size_t n;
static uint8_t *tg[256]; static size_t ltg[256]; static size_t ntg;
static struct block_builder *bb; static size_t bb_ri;
static struct block *blk; static struct block_iter *bi;

static size_t unhex(const char *s, size_t len, uint8_t **o) {
	if (len == 1 && s[0] == '-') { *o = malloc(1); return 0; }
	*o = malloc(len / 2 + 1);
	for (size_t i = 0; i < len / 2; i++) { unsigned x; sscanf(s + 2 * i, "%2x", &x); (*o)[i] = (uint8_t)x; }
	return len / 2;
}
static void jb(const uint8_t *p, size_t l) {
	fputc('[', out);
	for (size_t i = 0; i < l; i++) fprintf(out, i ? ",%u" : "%u", p[i]);
	fputc(']', out);
}
static void state(void) {
	const uint8_t *k, *v; size_t a, b;
	bool valid = block_iter_valid(bi);
	bool got = block_iter_get(bi, &k, &a, &v, &b);
	fprintf(out, ",\"valid\":%s,\"got\":%s", valid ? "true" : "false", got ? "true" : "false");
	if (got) { fprintf(out, ",\"k\":"); jb(k, a); fprintf(out, ",\"v\":"); jb(v, b); }
	fprintf(out, "}\n");
}
static void fresh(void) {
	if (bi) block_iter_destroy(&bi);
	bi = block_iter_init(blk);
	fprintf(out, "{\"e\":\"BNew\""); state();
}
/* 0 first, 1 last, 2 next, 3 prev, 4+i seek target i; returns 0 if the op was not applicable */
static int op(size_t o) {
	if (o == 3 && !block_iter_valid(bi)) return 0;
	if (o == 0) { block_iter_seek_to_first(bi); fprintf(out, "{\"e\":\"BOp\",\"op\":\"first\""); }
	else if (o == 1) { block_iter_seek_to_last(bi); fprintf(out, "{\"e\":\"BOp\",\"op\":\"last\""); }
	else if (o == 2) { bool r = block_iter_next(bi); fprintf(out, "{\"e\":\"BOp\",\"op\":\"next\",\"ret\":%s", r ? "true" : "false"); }
	else if (o == 3) { block_iter_prev(bi); fprintf(out, "{\"e\":\"BOp\",\"op\":\"prev\""); }
	else { size_t i = o - 4; block_iter_seek(bi, tg[i], ltg[i]); fprintf(out, "{\"e\":\"BOp\",\"op\":\"seek\",\"t\":"); jb(tg[i], ltg[i]); }
	state();
	return 1;
}

int main(int argc, char **argv) {
	if (argc < 3) return 2;
	FILE *in = fopen(argv[1], "r"); out = fopen(argv[2], "w");
	if (!in || !out) return 2;
	char *line = NULL; size_t cap = 0;
	while (getline(&line, &cap, in) != -1) {
		char *save; char *w = strtok_r(line, " \n", &save);
		if (!w) continue;
		if (!strcmp(w, "block")) {
			size_t ri = strtoull(strtok_r(NULL, " \n", &save), NULL, 10);
			int reuse = atoi(strtok_r(NULL, " \n", &save));
			if (bi) block_iter_destroy(&bi);
			if (blk) block_destroy(&blk);
			for (size_t i = 0; i < n; i++) { free(keys[i]); free(vals[i]); }
			n = 0;
			if (bb && (!reuse || ri != bb_ri)) block_builder_destroy(&bb);
			int reused = bb != NULL;
			if (bb) block_builder_reset(bb); else { bb = block_builder_init(ri); bb_ri = ri; }
			bool empty0 = block_builder_empty(bb);
			size_t est0 = block_builder_current_size_estimate(bb);
			char *t;
			while ((t = strtok_r(NULL, " \n", &save)) != NULL && n < MAXE) {
				char *c = strchr(t, ':');
				lk[n] = unhex(t, (size_t)(c - t), &keys[n]);
				lv[n] = unhex(c + 1, strlen(c + 1), &vals[n]);
				block_builder_add(bb, keys[n], lk[n], vals[n], lv[n]);
				n++;
			}
			bool empty1 = block_builder_empty(bb);
			size_t est = block_builder_current_size_estimate(bb);
			uint8_t *buf; size_t sz;
			block_builder_finish(bb, &buf, &sz);
			blk = block_init(buf, sz, true);
			fprintf(out, "{\"e\":\"BBlock\",\"ri\":%zu,\"reused\":%s,\"empty0\":%s,\"empty1\":%s,\"est0\":%zu,\"est\":%zu,\"size\":%zu,\"keys\":[",
			    ri, reused ? "true" : "false", empty0 ? "true" : "false", empty1 ? "true" : "false", est0, est, sz);
			for (size_t i = 0; i < n; i++) { if (i) fputc(',', out); jb(keys[i], lk[i]); }
			fprintf(out, "],\"vals\":[");
			for (size_t i = 0; i < n; i++) { if (i) fputc(',', out); jb(vals[i], lv[i]); }
			fprintf(out, "]}\n");
			bi = NULL;
		} else if (!strcmp(w, "targets")) {
			for (size_t i = 0; i < ntg; i++) free(tg[i]);
			ntg = 0; char *t;
			while ((t = strtok_r(NULL, " \n", &save)) != NULL && ntg < 256) { ltg[ntg] = unhex(t, strlen(t), &tg[ntg]); ntg++; }
		} else if (!strcmp(w, "sys")) {
			for (size_t p = 0; p < 2 + ntg; p++) {
				size_t po = p < 2 ? p : p + 2;
				for (size_t m = 0; m <= n + 1; m++) {
					fresh();
					op(po);
					for (size_t i = 0; i < m; i++) op(2);
					for (size_t i = 0; i < n + 2 && op(3); i++) ;
					/* after running off the front: a positioning op again, then one step either way */
					op(po); op(m % 2 ? 2 : 3);
				}
			}
		} else if (!strcmp(w, "walk")) {
			unsigned seed = (unsigned)strtoul(strtok_r(NULL, " \n", &save), NULL, 10);
			size_t len = strtoull(strtok_r(NULL, " \n", &save), NULL, 10);
			fresh();
			for (size_t i = 0; i < len; i++) {
				unsigned r = rand_r(&seed) % 16;
				size_t o = r < 4 ? 2 : r < 9 ? 3 : r < 10 ? 0 : r < 11 ? 1 : 4 + (ntg ? rand_r(&seed) % ntg : 0);
				if (o >= 4 && !ntg) o = 0;
				op(o);
			}
		}
	}
	if (bi) block_iter_destroy(&bi);
	if (blk) block_destroy(&blk);
	if (bb) block_builder_destroy(&bb);
	for (size_t i = 0; i < n; i++) { free(keys[i]); free(vals[i]); }
	for (size_t i = 0; i < ntg; i++) free(tg[i]);
	free(line);
	fclose(out); fclose(in);
	return 0;
}
