/*
 * race_drv - the concurrent uses the API allows, run with real threads under ThreadSanitizer (C14).
 *
 * usage: race_drv <scenario> <dir> <seed> <comp>
 *   writers   K caller threads, each with its own pooled writer, sharing one pool (released together by a barrier)
 *   sorters   K caller threads, each with its own pooled sorter (small memory limit: several chunks), sharing one pool
 *   mixed     pooled writers and pooled sorters from different threads on one pool
 *   readers   N threads iterating / querying / seeking one open reader through their own iterators
 *   single    one caller thread, several pooled writers and a pooled sorter on one pool (the pool's own handoffs)
 *   abandon   pooled sorters with dispatched chunks destroyed without ever being iterated or written
 *   manyjobs  a sorter on a pool of 256 threads with 256 chunk jobs all in flight at once (each parked inside the merge callback)
 *             when the iterator is made: the iterator must wait for every one of them
 *   failmerge a pooled sorter whose merge function gives up inside a chunk job while the caller keeps adding; the sorter is then
 *             destroyed without being iterated (the failure of a chunk reaches the sorter from the result handler's thread)
 *   sortedge  pooled sorters iterated right after n adds, for a run of consecutive n longer than one spill period: for one of
 *             them the last add is the one that dispatches its batch (nothing buffered when the iterator is made)
 * Every scenario checks its functional result too (files read back completely, sorter output count).
 * ThreadSanitizer reports are counted by the runtime (TSAN_OPTIONS=exitcode=66).
 */
#define _GNU_SOURCE
#include <assert.h>
#include <pthread.h>
#include <sched.h>
#include <stdbool.h>
#include <stdint.h>
#include <stdio.h>
#include <stdlib.h>
#include <string.h>
#include <unistd.h>
#include <time.h>
#include <mtbl.h>

static pthread_barrier_t bar;
static const char *dir;
static mtbl_compression_type comp;
static struct mtbl_threadpool *pool;
static uint64_t seed;
static int failures;

static uint64_t xs(uint64_t *x) { *x ^= *x << 13; *x ^= *x >> 7; *x ^= *x << 17; return *x; }
static void jitter(uint64_t *x) { if (xs(x) % 4 == 0) sched_yield(); if (xs(x) % 64 == 0) usleep(50); }

static void merge_cat(void *clos, const uint8_t *k, size_t lk, const uint8_t *v0, size_t n0, const uint8_t *v1, size_t n1, uint8_t **out, size_t *nout) {
	(void)clos; (void)k; (void)lk;
	*out = malloc(n0 + n1 + 1);
	memcpy(*out, v0, n0); memcpy(*out + n0, v1, n1);
	*nout = n0 + n1;
}

/* manyjobs: the merge callback (run by the pool's workers while they write a chunk) parks until released */
static pthread_mutex_t park_m = PTHREAD_MUTEX_INITIALIZER;
static pthread_cond_t park_c = PTHREAD_COND_INITIALIZER;
static int parked, released;
static void merge_park(void *clos, const uint8_t *k, size_t lk, const uint8_t *v0, size_t n0, const uint8_t *v1, size_t n1, uint8_t **out, size_t *nout) {
	pthread_mutex_lock(&park_m);
	parked++;
	pthread_cond_broadcast(&park_c);
	while (!released) pthread_cond_wait(&park_c, &park_m);
	pthread_mutex_unlock(&park_m);
	merge_cat(clos, k, lk, v0, n0, v1, n1, out, nout);
}
static void *releaser(void *a) {
	(void)a;
	usleep(300000);
	pthread_mutex_lock(&park_m);
	released = 1;
	pthread_cond_broadcast(&park_c);
	pthread_mutex_unlock(&park_m);
	return NULL;
}

static void merge_giveup(void *clos, const uint8_t *k, size_t lk, const uint8_t *v0, size_t n0, const uint8_t *v1, size_t n1, uint8_t **out, size_t *nout) {
	if (lk == 5 && !memcmp(k, "f0010", 5)) { usleep(5000); *out = NULL; *nout = 0; return; }	/* gives up after a while */
	merge_cat(clos, k, lk, v0, n0, v1, n1, out, nout);
}

static void *writer_thread(void *a) {
	long id = (long)a;
	uint64_t x = seed * 77 + (uint64_t)id + 1;
	char path[512];
	snprintf(path, sizeof path, "%s/w%ld.mtbl", dir, id);
	unlink(path);
	struct mtbl_writer_options *o = mtbl_writer_options_init();
	mtbl_writer_options_set_compression(o, comp);
	mtbl_writer_options_set_block_size(o, 1024);
	mtbl_writer_options_set_threadpool(o, pool);
	pthread_barrier_wait(&bar);
	struct mtbl_writer *w = mtbl_writer_init(path, o);
	mtbl_writer_options_destroy(&o);
	assert(w);
	int n = 300;
	for (int i = 0; i < n; i++) {
		char key[32]; uint8_t val[200];
		snprintf(key, sizeof key, "k%06d", i);
		memset(val, (int)(i + id), sizeof val);
		mtbl_res r = mtbl_writer_add(w, (uint8_t *)key, strlen(key), val, sizeof val);
		assert(r == mtbl_res_success);
		jitter(&x);
	}
	mtbl_writer_destroy(&w);
	struct mtbl_reader *r = mtbl_reader_init(path, NULL);
	assert(r);
	struct mtbl_iter *it = mtbl_source_iter(mtbl_reader_source(r));
	const uint8_t *k, *v; size_t lk, lv; int c = 0;
	while (mtbl_iter_next(it, &k, &lk, &v, &lv) == mtbl_res_success) c++;
	if (c != n) __atomic_add_fetch(&failures, 1, __ATOMIC_SEQ_CST);
	mtbl_iter_destroy(&it);
	mtbl_reader_destroy(&r);
	unlink(path);
	return NULL;
}

static void *sorter_thread(void *a) {
	long id = (long)a;
	uint64_t x = seed * 131 + (uint64_t)id + 7;
	struct mtbl_sorter_options *o = mtbl_sorter_options_init();
	mtbl_sorter_options_set_max_memory(o, 2000);
	mtbl_sorter_options_set_temp_dir(o, dir);
	mtbl_sorter_options_set_merge_func(o, merge_cat, NULL);
	mtbl_sorter_options_set_threadpool(o, pool);
	pthread_barrier_wait(&bar);
	struct mtbl_sorter *s = mtbl_sorter_init(o);
	mtbl_sorter_options_destroy(&o);
	int n = 400, distinct = 97;
	for (int i = 0; i < n; i++) {
		char key[32]; uint8_t val[24];
		snprintf(key, sizeof key, "s%04d", (int)((i * 31 + id) % distinct));
		memset(val, i, sizeof val);
		mtbl_res r = mtbl_sorter_add(s, (uint8_t *)key, strlen(key), val, sizeof val);
		assert(r == mtbl_res_success);
		jitter(&x);
	}
	struct mtbl_iter *it = mtbl_sorter_iter(s);
	assert(it);
	const uint8_t *k, *v; size_t lk, lv; int c = 0; size_t bytes = 0;
	while (mtbl_iter_next(it, &k, &lk, &v, &lv) == mtbl_res_success) { c++; bytes += lv; }
	if (c != distinct || bytes != (size_t)n * 24) __atomic_add_fetch(&failures, 1, __ATOMIC_SEQ_CST);
	mtbl_iter_destroy(&it);
	mtbl_sorter_destroy(&s);
	return NULL;
}

static struct mtbl_reader *shared_reader;
static void *reader_thread(void *a) {
	long id = (long)a;
	uint64_t x = seed * 17 + (uint64_t)id + 3;
	const struct mtbl_source *src = mtbl_reader_source(shared_reader);
	pthread_barrier_wait(&bar);
	for (int round = 0; round < 40; round++) {
		const uint8_t *k, *v; size_t lk, lv;
		char key[32];
		snprintf(key, sizeof key, "k%06d", (int)(xs(&x) % 900));
		struct mtbl_iter *it;
		switch (xs(&x) % 4) {
		case 0: it = mtbl_source_iter(src); break;
		case 1: it = mtbl_source_get(src, (uint8_t *)key, strlen(key)); break;
		case 2: it = mtbl_source_get_prefix(src, (uint8_t *)key, 5); break;
		default: it = mtbl_source_get_range(src, (uint8_t *)key, strlen(key), (uint8_t *)"k000850", 7); break;
		}
		int c = 0;
		while (mtbl_iter_next(it, &k, &lk, &v, &lv) == mtbl_res_success && c < 200) {
			c++;
			if (c % 37 == 0) {
				snprintf(key, sizeof key, "k%06d", (int)(xs(&x) % 900));
				if (mtbl_iter_seek(it, (uint8_t *)key, strlen(key)) != mtbl_res_success) break;
			}
			if (lv != 100) __atomic_add_fetch(&failures, 1, __ATOMIC_SEQ_CST);
		}
		mtbl_iter_destroy(&it);
		jitter(&x);
	}
	return NULL;
}

int main(int argc, char **argv) {
	if (argc < 5) { fprintf(stderr, "usage: race_drv scenario dir seed comp\n"); return 2; }
	const char *sc = argv[1];
	dir = argv[2];
	seed = strtoull(argv[3], NULL, 10);
	if (mtbl_compression_type_from_str(argv[4], &comp) != mtbl_res_success) return 2;
	pthread_t th[16];
	int n = 0;
	if (!strcmp(sc, "readers")) {
		char path[512];
		snprintf(path, sizeof path, "%s/shared.mtbl", dir);
		unlink(path);
		struct mtbl_writer_options *o = mtbl_writer_options_init();
		mtbl_writer_options_set_compression(o, comp);
		mtbl_writer_options_set_block_size(o, 1024);
		struct mtbl_writer *w = mtbl_writer_init(path, o);
		mtbl_writer_options_destroy(&o);
		for (int i = 0; i < 900; i++) {
			char key[32]; uint8_t val[100];
			snprintf(key, sizeof key, "k%06d", i);
			memset(val, i, sizeof val);
			mtbl_res r = mtbl_writer_add(w, (uint8_t *)key, strlen(key), val, sizeof val);
			assert(r == mtbl_res_success);
		}
		mtbl_writer_destroy(&w);
		struct mtbl_reader_options *ro = mtbl_reader_options_init();
		mtbl_reader_options_set_verify_checksums(ro, seed % 2);
		shared_reader = mtbl_reader_init(path, ro);
		mtbl_reader_options_destroy(&ro);
		assert(shared_reader);
		n = 6;
		pthread_barrier_init(&bar, NULL, (unsigned)n);
		for (long i = 0; i < n; i++) pthread_create(&th[i], NULL, reader_thread, (void *)i);
		for (int i = 0; i < n; i++) pthread_join(th[i], NULL);
		mtbl_reader_destroy(&shared_reader);
		unlink(path);
	} else if (!strcmp(sc, "abandon")) {
		pool = mtbl_threadpool_init(2);
		for (int round = 0; round < 4; round++) {
			struct mtbl_sorter_options *o = mtbl_sorter_options_init();
			mtbl_sorter_options_set_max_memory(o, 2000);
			mtbl_sorter_options_set_temp_dir(o, dir);
			mtbl_sorter_options_set_merge_func(o, merge_cat, NULL);
			mtbl_sorter_options_set_threadpool(o, pool);
			struct mtbl_sorter *s = mtbl_sorter_init(o);
			mtbl_sorter_options_destroy(&o);
			for (int i = 0; i < 300; i++) {
				char key[32]; uint8_t val[24];
				snprintf(key, sizeof key, "a%04d", (i * 7) % 101);
				memset(val, i, sizeof val);
				mtbl_res r = mtbl_sorter_add(s, (uint8_t *)key, strlen(key), val, sizeof val);
				assert(r == mtbl_res_success);
			}
			if (round == 1) usleep(20000);
			if (round == 2) usleep(300000);
			mtbl_sorter_destroy(&s);
		}
		mtbl_threadpool_destroy(&pool);
	} else if (!strcmp(sc, "failmerge")) {
		pool = mtbl_threadpool_init(1 + seed % 3);
		struct mtbl_sorter_options *o = mtbl_sorter_options_init();
		mtbl_sorter_options_set_max_memory(o, 80);		/* two entries make a chunk */
		mtbl_sorter_options_set_temp_dir(o, dir);
		mtbl_sorter_options_set_merge_func(o, merge_giveup, NULL);
		mtbl_sorter_options_set_threadpool(o, pool);
		struct mtbl_sorter *s = mtbl_sorter_init(o);
		mtbl_sorter_options_destroy(&o);
		for (int i = 0; i < 240; i++) {
			char key[32]; uint8_t val[24];
			snprintf(key, sizeof key, "f%04d", i / 2);
			memset(val, i, sizeof val);
			(void)mtbl_sorter_add(s, (uint8_t *)key, strlen(key), val, sizeof val);	/* may be refused once the failure is known */
			if (i > 20) usleep(150 + (unsigned)((seed * 37 + (uint64_t)i * 11) % 200));
		}
		mtbl_sorter_destroy(&s);
		mtbl_threadpool_destroy(&pool);
	} else if (!strcmp(sc, "manyjobs")) {
		int njobs = 256;
		alarm(60);	/* the scenario takes a second; a run that does not end is ended here */
		pool = mtbl_threadpool_init((size_t)njobs);
		struct mtbl_sorter_options *o = mtbl_sorter_options_init();
		mtbl_sorter_options_set_max_memory(o, 80);		/* two entries make a chunk (45 bytes of accounting each) */
		mtbl_sorter_options_set_temp_dir(o, dir);
		mtbl_sorter_options_set_merge_func(o, merge_park, NULL);
		mtbl_sorter_options_set_threadpool(o, pool);
		struct mtbl_sorter *s = mtbl_sorter_init(o);
		mtbl_sorter_options_destroy(&o);
		for (int i = 0; i < 2 * njobs; i++) {
			char key[32]; uint8_t val[24];
			snprintf(key, sizeof key, "j%04d", i / 2);		/* the two entries of a chunk share their key: merged by the worker */
			memset(val, i, sizeof val);
			mtbl_res r = mtbl_sorter_add(s, (uint8_t *)key, strlen(key), val, sizeof val);
			assert(r == mtbl_res_success);
		}
		pthread_mutex_lock(&park_m);
		for (int spins = 0; parked < njobs && spins < 100; spins++) {	/* every chunk job is to be inside the merge callback */
			struct timespec ts; clock_gettime(CLOCK_REALTIME, &ts); ts.tv_nsec += 100000000; if (ts.tv_nsec >= 1000000000) { ts.tv_sec++; ts.tv_nsec -= 1000000000; }
			pthread_cond_timedwait(&park_c, &park_m, &ts);
		}
		int got = parked;
		pthread_mutex_unlock(&park_m);
		if (got != njobs) { printf("SCENARIO-NOT-REACHED parked=%d\n", got); released = 1; pthread_cond_broadcast(&park_c); return 4; }
		pthread_t rel;
		pthread_create(&rel, NULL, releaser, NULL);
		struct mtbl_iter *it = mtbl_sorter_iter(s);
		assert(it);
		const uint8_t *k, *v; size_t lk, lv; int c = 0; size_t bytes = 0;
		while (mtbl_iter_next(it, &k, &lk, &v, &lv) == mtbl_res_success) { c++; bytes += lv; }
		if (c != njobs || bytes != (size_t)njobs * 48) __atomic_add_fetch(&failures, 1, __ATOMIC_SEQ_CST);
		mtbl_iter_destroy(&it);
		pthread_join(rel, NULL);
		mtbl_sorter_destroy(&s);
		mtbl_threadpool_destroy(&pool);
	} else if (!strcmp(sc, "sortedge")) {
		pool = mtbl_threadpool_init(1 + seed % 3);
		for (int d = 0; d < 48; d++) {
			struct mtbl_sorter_options *o = mtbl_sorter_options_init();
			mtbl_sorter_options_set_max_memory(o, 2000);
			mtbl_sorter_options_set_temp_dir(o, dir);
			mtbl_sorter_options_set_merge_func(o, merge_cat, NULL);
			mtbl_sorter_options_set_threadpool(o, pool);
			struct mtbl_sorter *s = mtbl_sorter_init(o);
			mtbl_sorter_options_destroy(&o);
			int nadd = 60 + d, distinct = 53;
			for (int i = 0; i < nadd; i++) {
				char key[32]; uint8_t val[24];
				snprintf(key, sizeof key, "e%04d", (i * 17) % distinct);
				memset(val, i, sizeof val);
				mtbl_res r = mtbl_sorter_add(s, (uint8_t *)key, strlen(key), val, sizeof val);
				assert(r == mtbl_res_success);
			}
			/* in every other sorter the chunk jobs get time to complete before the iterator is made (the result handler has
			 * then collected them, or is about to), in the others they are still running */
			if ((seed + (uint64_t)d) % 2) usleep(4000);
			struct mtbl_iter *it = mtbl_sorter_iter(s);
			assert(it);
			const uint8_t *k, *v; size_t lk, lv; int c = 0; size_t bytes = 0;
			while (mtbl_iter_next(it, &k, &lk, &v, &lv) == mtbl_res_success) { c++; bytes += lv; }
			if (c != (nadd < distinct ? nadd : distinct) || bytes != (size_t)nadd * 24) __atomic_add_fetch(&failures, 1, __ATOMIC_SEQ_CST);
			mtbl_iter_destroy(&it);
			mtbl_sorter_destroy(&s);
		}
		mtbl_threadpool_destroy(&pool);
	} else if (!strcmp(sc, "single")) {
		pool = mtbl_threadpool_init(3);
		pthread_barrier_init(&bar, NULL, 1);
		writer_thread((void *)0L);
		sorter_thread((void *)1L);
		writer_thread((void *)2L);
		mtbl_threadpool_destroy(&pool);
	} else {
		pool = mtbl_threadpool_init(2 + seed % 5);
		int nw = !strcmp(sc, "writers") ? 4 : !strcmp(sc, "sorters") ? 0 : 2;
		int ns = !strcmp(sc, "writers") ? 0 : !strcmp(sc, "sorters") ? 3 : 2;
		n = nw + ns;
		pthread_barrier_init(&bar, NULL, (unsigned)n);
		for (long i = 0; i < nw; i++) pthread_create(&th[i], NULL, writer_thread, (void *)i);
		for (long i = 0; i < ns; i++) pthread_create(&th[nw + i], NULL, sorter_thread, (void *)(nw + i));
		for (int i = 0; i < n; i++) pthread_join(th[i], NULL);
		mtbl_threadpool_destroy(&pool);
	}
	if (failures) { printf("FUNCTIONAL-FAILURE %d\n", failures); return 5; }
	printf("ok\n");
	return 0;
}
