/*
 * bigblock - round trip of one block above the 32-bit restart threshold (C11: 64-bit restart arrays), through
 * block_builder.c and block.c directly (a file of that size cannot be produced in reasonable time).
 * usage: bigblock <n values> <value size in MiB> <restart interval>; needs about 2 * n * size of memory.
 * Prints one JSON line: restart width used, entries read back, whether keys / value lengths / value bytes matched.
 */
#include "mtbl-private.h"
#include <stdio.h>

int main(int argc, char **argv) {
	size_t n = argc > 1 ? strtoull(argv[1], NULL, 10) : 5;
	size_t mib = argc > 2 ? strtoull(argv[2], NULL, 10) : 1024;
	size_t ri = argc > 3 ? strtoull(argv[3], NULL, 10) : 2;
	size_t vlen = mib << 20;
	uint8_t *val = malloc(vlen);
	if (!val) { printf("{\"e\":\"BigBlock\",\"skipped\":\"no memory\"}\n"); return 0; }
	for (size_t i = 0; i < vlen; i++) val[i] = (uint8_t)(i * 2654435761u >> 24);
	struct block_builder *bb = block_builder_init(ri);
	char key[64];
	for (size_t i = 0; i < n; i++) {
		snprintf(key, sizeof key, "bigkey-%04zu", i);
		val[0] = (uint8_t)i;
		block_builder_add(bb, (uint8_t *)key, strlen(key), val, vlen);
	}
	uint8_t *buf; size_t bufsz;
	size_t est = block_builder_current_size_estimate(bb);
	block_builder_finish(bb, &buf, &bufsz);
	struct block *b = block_init(buf, bufsz, true);
	struct block_iter *bi = block_iter_init(b);
	size_t seen = 0; int ok = 1;
	block_iter_seek_to_first(bi);
	const uint8_t *k, *v; size_t lk, lv;
	while (block_iter_get(bi, &k, &lk, &v, &lv)) {
		snprintf(key, sizeof key, "bigkey-%04zu", seen);
		if (lk != strlen(key) || memcmp(k, key, lk) || lv != vlen || v[0] != (uint8_t)seen || memcmp(v + 1, val + 1, vlen - 1)) ok = 0;
		seen++;
		if (!block_iter_next(bi)) break;
	}
	/* seek to the last key: exercises the restart array lookups with 64-bit offsets */
	snprintf(key, sizeof key, "bigkey-%04zu", n - 1);
	block_iter_seek(bi, (uint8_t *)key, strlen(key));
	int seek_ok = block_iter_get(bi, &k, &lk, &v, &lv) && lk == strlen(key) && !memcmp(k, key, lk) && lv == vlen;
	uint32_t nres = mtbl_fixed_decode32(buf + bufsz - 4);
	int wide = (bufsz - 4 - (size_t)nres * 8) > UINT32_MAX;
	printf("{\"e\":\"BigBlock\",\"n\":%zu,\"mib\":%zu,\"ri\":%zu,\"bytes\":%zu,\"estimate_matches\":%s,\"restarts\":%u,\"wide\":%s,\"seen\":%zu,\"content_ok\":%s,\"seek_ok\":%s}\n",
	       n, mib, ri, bufsz, est == bufsz ? "true" : "false", nres, wide ? "true" : "false", seen, ok ? "true" : "false", seek_ok ? "true" : "false");
	block_iter_destroy(&bi);
	block_destroy(&b);
	block_builder_destroy(&bb);
	free(val);
	return 0;
}
