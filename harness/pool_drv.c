/*
 * pool_drv - threadpool.c alone under the deterministic scheduler (vs_sched), with synthetic jobs (C13 ring 1).
 * Logs the events of the abstract pool (spec/PoolAbs.tla): Dispatch, JobStart, JobEnd, Deliver, Closed, PoolDestroyed.
 * usage: pool_drv <out> <maxthreads> <jobs> <ordered> <clients> <runs> <seed0> <spurious%> <mode> <npreempt>
 * Exit status: 0 all runs completed; 3 the scheduler found a deadlock (no thread enabled); other: assertion / crash.
 */
#include "vs_sched.h"
#include <stdbool.h>
#include <stddef.h>
#include <stdio.h>
#include <stdlib.h>
#include <string.h>
#include <assert.h>
#include <unistd.h>
#include "threadpool.h"

static FILE *out;
static long cur_run;
static __thread int dummy;
extern int vs_self(void);

static void *job(void *a) {
	long j = (long)a;
	fprintf(out, "{\"e\":\"JobStart\",\"j\":%ld,\"w\":%d}\n", j, vs_self());
	fprintf(out, "{\"e\":\"JobEnd\",\"j\":%ld,\"w\":%d}\n", j, vs_self());
	return a;
}
static void res_cb(void *res, void *cbdata) {
	fprintf(out, "{\"e\":\"Deliver\",\"j\":%ld,\"c\":%ld}\n", (long)res, (long)cbdata);
}
static void on_deadlock(void) {
	fprintf(out, "{\"e\":\"Deadlock\",\"run\":%ld}\n", cur_run);
	fflush(out);
}

int main(int argc, char **argv) {
	if (argc < 11) { fprintf(stderr, "usage\n"); return 2; }
	out = fopen(argv[1], "w");
	int P = atoi(argv[2]), J = atoi(argv[3]), ordered = atoi(argv[4]), NC = atoi(argv[5]);
	long runs = atol(argv[6]);
	unsigned long seed0 = strtoul(argv[7], 0, 10);
	int sp = atoi(argv[8]), mode = atoi(argv[9]), npre = atoi(argv[10]);
	vs_on_deadlock = on_deadlock;
	(void)dummy;
	for (long r = 0; r < runs; r++) {
		cur_run = r;
		fprintf(out, "{\"e\":\"Reset\",\"x\":%ld}\n{\"e\":\"Cfg\",\"max\":%d,\"jobs\":%d,\"ordered\":%s,\"clients\":%d,\"seed\":%lu}\n", r, P, J, ordered ? "true" : "false", NC, seed0 + (unsigned long)r);
		vs_config(mode, 1, npre, 40 + 25L * J * NC, seed0 + (unsigned long)r);
		vs_begin(seed0 + (unsigned long)r, sp);
		struct threadpool *pool = threadpool_init((size_t)P);
		struct result_handler *rh[4];
		for (int c = 0; c < NC; c++) rh[c] = result_handler_init(res_cb, (void *)(long)(c + 1));
		for (int j = 1; j <= J; j++)
			for (int c = 0; c < NC; c++) {
				long id = (c + 1) * 100 + j;
				fprintf(out, "{\"e\":\"Dispatch\",\"j\":%ld,\"c\":%d}\n", id, c + 1);      /* submission = the call */
				threadpool_dispatch(pool, rh[c], ordered, job, (void *)id);
			}
		for (int c = 0; c < NC; c++) {
			result_handler_destroy(&rh[c]);
			fprintf(out, "{\"e\":\"Closed\",\"c\":%d}\n", c + 1);
		}
		threadpool_destroy(&pool);
		int steps = vs_end();
		fprintf(out, "{\"e\":\"PoolDestroyed\",\"maxlive\":%d,\"steps\":%d}\n", vs_max_threads_seen, steps);
	}
	fclose(out);
	return 0;
}
