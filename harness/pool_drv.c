/*
 * pool_drv - threadpool.c alone under the deterministic scheduler (vs_sched), with synthetic jobs (C13 ring 1).
 * Logs the events of the abstract pool (spec/PoolAbs.tla): Dispatch, JobStart, JobEnd, Deliver, Closed, PoolDestroyed.
 * usage: pool_drv <out> <maxthreads> <jobs> <ordered> <clients> <runs> <seed0> <spurious%> <mode> <npreempt>
 * Exit status: 0 all runs completed; 3 the scheduler found a deadlock (no thread enabled); other: assertion / crash.
 */
#include "vs_sched.h"
#include <stdbool.h>
#include <stddef.h>
#include <stdio.h>
#include <stdlib.h>
#include <string.h>
#include <assert.h>
#include <unistd.h>
#include "threadpool.h"

static FILE *out;
static long cur_run;
static __thread int dummy;
extern int vs_self(void);

static void *job(void *a) {
	long j = (long)a;
	fprintf(out, "{\"e\":\"JobStart\",\"j\":%ld,\"w\":%d}\n", j, vs_self());
	fprintf(out, "{\"e\":\"JobEnd\",\"j\":%ld,\"w\":%d}\n", j, vs_self());
	return a;
}
static void res_cb(void *res, void *cbdata) {
	fprintf(out, "{\"e\":\"Deliver\",\"j\":%ld,\"c\":%ld}\n", (long)res, (long)cbdata);
}
static void on_deadlock(void) {
	fprintf(out, "{\"e\":\"Deadlock\",\"run\":%ld}\n", cur_run);
	fflush(out);
}

static int P_, J_, ordered_, NC_;
/* ordered: 0 every client dispatches unordered jobs, 1 ordered jobs, 2 mixed: client 1 ordered (as a writer), the others
 * unordered (as sorters) - workers move between the two kinds of job */
static bool ord_of(int ordered, int c) { return ordered == 2 ? c == 0 : ordered != 0; }
static const char *ordc_json(int ordered, int nc) {
	static char buf[64];
	size_t n = 0;
	buf[n++] = '[';
	for (int c = 0; c < nc; c++) if (ord_of(ordered, c)) n += (size_t)snprintf(buf + n, sizeof buf - n, "%s%d", n > 1 ? "," : "", c + 1);
	buf[n++] = ']'; buf[n] = 0;
	return buf;
}
static long nruns_total;

/* one complete pool life cycle under the current scheduler configuration; returns the number of steps.
 * conc_ = 0: the main thread dispatches for every client in turn (one caller thread).
 * conc_ = 1: every client has its own caller thread (as in ThreadPool.tla: one caller process per client): clients 2.. run
 *            in threads of their own, the main thread is client 1 and destroys the pool after joining them. */
static int conc_;
static struct threadpool *the_pool;
static struct result_handler *the_rh[4];
static void client_run(int c) {
	for (int j = 1; j <= J_; j++) {
		long id = (c + 1) * 100 + j;
		fprintf(out, "{\"e\":\"Dispatch\",\"j\":%ld,\"c\":%d}\n", id, c + 1);
		threadpool_dispatch(the_pool, the_rh[c], ord_of(ordered_, c), job, (void *)id);
	}
	result_handler_destroy(&the_rh[c]);
	fprintf(out, "{\"e\":\"Closed\",\"c\":%d}\n", c + 1);
}
static void *client_thread(void *a) { client_run((int)(long)a); return NULL; }
static int life_cycle(long r, unsigned long seed, int sp, bool systematic) {
	cur_run = r;
	fprintf(out, "{\"e\":\"Reset\",\"x\":%ld}\n{\"e\":\"Cfg\",\"max\":%d,\"jobs\":%d,\"ordered\":%d,\"ordc\":%s,\"clients\":%d,\"callers\":%d,\"seed\":%lu}\n", r, P_, J_, ordered_, ordc_json(ordered_, NC_), NC_, conc_ ? NC_ : 1, seed);
	vs_begin(seed, systematic ? 0 : sp);
	struct threadpool *pool = threadpool_init((size_t)P_);
	the_pool = pool;
	for (int c = 0; c < NC_; c++) the_rh[c] = result_handler_init(res_cb, (void *)(long)(c + 1));
	if (conc_) {
		pthread_t th[4];
		for (int c = 1; c < NC_; c++) pthread_create(&th[c], NULL, client_thread, (void *)(long)c);
		client_run(0);
		for (int c = 1; c < NC_; c++) pthread_join(th[c], NULL);
	} else {
		for (int j = 1; j <= J_; j++)
			for (int c = 0; c < NC_; c++) {
				long id = (c + 1) * 100 + j;
				fprintf(out, "{\"e\":\"Dispatch\",\"j\":%ld,\"c\":%d}\n", id, c + 1);
				threadpool_dispatch(pool, the_rh[c], ord_of(ordered_, c), job, (void *)id);
			}
		for (int c = 0; c < NC_; c++) {
			result_handler_destroy(&the_rh[c]);
			fprintf(out, "{\"e\":\"Closed\",\"c\":%d}\n", c + 1);
		}
	}
	threadpool_destroy(&pool);
	int steps = vs_end();
	fprintf(out, "{\"e\":\"PoolDestroyed\",\"maxlive\":%d,\"steps\":%d}\n", vs_max_threads_seen, steps);
	nruns_total++;
	return steps;
}

/* systematic exploration: every schedule with at most `bound` preemptions (a preemption = taking the running thread
 * off the processor although it could continue), under a fixed policy for the choices made when a thread blocks */
static void explore(int depth, int bound, long *st, int *ch, int policy, long from) {
	vs_decisions(depth, st, ch, policy);
	int n = life_cycle(nruns_total, 0, 0, true);
	if (vs_decision_invalid || depth == bound) return;
	for (long s = from; s < n; s++)
		for (int c = 0; c < 4; c++) {
			st[depth] = s; ch[depth] = c;
			/* probe validity cheaply: run it; an invalid choice (no such alternative) ends the loop over c */
			long before = nruns_total;
			vs_decisions(depth + 1, st, ch, policy);
			int n2 = life_cycle(nruns_total, 0, 0, true);
			(void)n2; (void)before;
			if (vs_decision_invalid) break;
			if (depth + 1 < bound) {
				for (long s2 = s + 1; s2 < n2; s2++)
					for (int c2 = 0; c2 < 4; c2++) {
						st[depth + 1] = s2; ch[depth + 1] = c2;
						vs_decisions(depth + 2, st, ch, policy);
						life_cycle(nruns_total, 0, 0, true);
						if (vs_decision_invalid) break;
					}
			}
		}
}

int main(int argc, char **argv) {
	if (argc >= 8 && !strcmp(argv[2], "systematic")) {
		/* pool_drv <out> systematic <maxthreads> <jobs> <ordered> <clients> <bound> */
		out = fopen(argv[1], "w");
		P_ = atoi(argv[3]); J_ = atoi(argv[4]); ordered_ = atoi(argv[5]); NC_ = atoi(argv[6]);
		int bound = atoi(argv[7]);
		conc_ = argc > 8 ? atoi(argv[8]) : 0;
		vs_on_deadlock = on_deadlock;
		long st[8]; int ch[8];
		for (int policy = 0; policy < 3; policy++) explore(0, bound > 2 ? 2 : bound, st, ch, policy, 0);
		fprintf(stderr, "systematic: %ld schedules\n", nruns_total);
		fclose(out);
		return 0;
	}
	if (argc >= 4 && !strcmp(argv[2], "lockorder")) {
		/* pool_drv <out> lockorder <behaviours file>: each line "P J ordered n t1 m1 ... tn mn" - the real pool follows the
		 * model behaviour's order of mutex acquisitions; events are logged as usual, plus how much of the order was consumed */
		out = fopen(argv[1], "w");
		FILE *bf = fopen(argv[3], "r");
		vs_on_deadlock = on_deadlock;
		static int lt[4096], lm[4096];
		int n;
		NC_ = 1;
		while (fscanf(bf, "%d %d %d %d", &P_, &J_, &ordered_, &n) == 4) {
			for (int i = 0; i < n; i++) if (fscanf(bf, "%d %d", &lt[i], &lm[i]) != 2) return 2;
			vs_lockorder(n, lt, lm);
			life_cycle(nruns_total, 0, 0, true);
			fprintf(out, "{\"e\":\"LockOrder\",\"given\":%d,\"left\":%d}\n", n, vs_lockorder_left());
		}
		fprintf(stderr, "lockorder: %ld behaviours\n", nruns_total);
		fclose(out);
		return 0;
	}
	if (argc < 11) { fprintf(stderr, "usage\n"); return 2; }
	out = fopen(argv[1], "w");
	int P = atoi(argv[2]), J = atoi(argv[3]), ordered = atoi(argv[4]), NC = atoi(argv[5]);
	long runs = atol(argv[6]);
	unsigned long seed0 = strtoul(argv[7], 0, 10);
	int sp = atoi(argv[8]), mode = atoi(argv[9]), npre = atoi(argv[10]);
	vs_on_deadlock = on_deadlock;
	(void)dummy;
	P_ = P; J_ = J; ordered_ = ordered; NC_ = NC;
	conc_ = argc > 11 ? atoi(argv[11]) : 0;
	for (long r = 0; r < runs; r++) {
		vs_config(mode, 1, npre, 40 + 25L * J * NC, seed0 + (unsigned long)r);
		life_cycle(r, seed0 + (unsigned long)r, sp, false);
	}
	fclose(out);
	return 0;
}
